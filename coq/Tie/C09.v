(* Tie for C09 (registration bookkeeping = net effect of the history).

   A case = world + main history with the implementation's answers + for every rebuild() of the
   main history the order in which the implementation enumerated its registrations/subscriptions
   + a replay stream: final queries answered by the source registry r0 and by a second, empty
   registry into which allRegistrations()/allSubscriptions() of r0 were replayed.

   check_model : two models in lockstep give exactly the observations:
                 (1) the registry system on flat storage (Model/RegSys.run): all public answers;
                 (2) one nested-dictionary storage per registry (Model/Trie.v): after EVERY storage
                     mutation its _adapters / _subscribers trees equal the implementation's private
                     layout (dict order included) and its _provided counts equal the implementation's;
                     before every rebuild() and before the replay its _all_entries enumeration equals the
                     implementation's raw listing IN ORDER; every query on a base-less registry is also
                     answered by the nested walkers and must give the same answer.
                 rebuild() and the replay of the flat model use the NESTED model's enumeration order
                 (Model/Bookkeeping.replay_into), so lookups after rebuild() - ambiguous ones included -
                 are predicted, not observed.
   check_spec  : the answers of registered / subscribed / allRegistrations / allSubscriptions are
                 judged against the ledger of Spec/Bookkeeping.v, replayed here per registry without
                 any of Model/Adapter's functions; lookups before/after rebuild() and on r0 / the
                 replayed registry must be equal whenever Spec's unambiguity condition holds. *)
From Coq Require Import List Arith Bool.
Import ListNotations.
From ZI Require Export Tie.RegCommon Model.Trie Model.Bookkeeping Spec.Bookkeeping.

Definition rb_order := (list (akey * value) * list (skey * value))%type.
(* the private layout of one registry, canonicalised by the driver: _adapters, _subscribers (nested
   dictionaries in dict order, keys as in Model/Trie.v) and _provided sorted by interface *)
Definition layout := (list (trie value) * list (trie (list value)) * list (spec * nat))%type.
(* r0, flavour of the second registry, raw listings of r0, queries (addressed to r0),
   answers of r0, answers of the replayed registry, layout of the replayed registry *)
Definition replay_t := (nat * flavour * rb_order * list rop * list (list nat) * list (list nat) * layout)%type.
(* world, history, answers, raw listing before every rebuild(), layout of the mutated registry after
   every storage mutation (register / unregister / subscribe / unsubscribe / rebuild), replay stream *)
Definition case_t := (graph * list bool * list rop * list (list nat) * list rb_order * list layout * replay_t)%type.

(* ------------------------------------------------------------------ model side *)
Definition value_eqb (a b : value) : bool := Nat.eqb (vid a) (vid b) && Nat.eqb (veq a) (veq b).
Definition lvalue_eqb := list_eqb value_eqb.

Definition enc_regs_raw (l : list (akey * value)) : list nat :=
  flat_map (fun kv => enc_akey (fst kv) ++ [vid (snd kv)]) l.
Definition enc_subs_raw (l : list (skey * value)) : list nat :=
  flat_map (fun kv => enc_skey (fst kv) ++ [vid (snd kv)]) l.

Definition sorted_cnt (c : list (spec * nat)) : list nat :=
  flat_map (fun kv => fst kv ++ [snd kv]) (sort_by_key (map (fun kv => ([fst kv], snd kv)) c)).

Definition layout_matches (t : treg) (l : layout) : bool :=
  let '(ad, su, pc) := l in
  list_eqb (trie_eqb value_eqb) (t_adapters t) ad
  && list_eqb (trie_eqb lvalue_eqb) (t_subscribers t) su
  && lnat_eqb (sorted_cnt (t_provided t)) (sorted_cnt pc).

Definition tnth (ts : list treg) (r : nat) : treg := nth r ts t_empty.
Fixpoint tset (ts : list treg) (r : nat) (x : treg) : list treg :=
  match ts, r with
  | [], _ => []
  | _ :: ts', 0 => x :: ts'
  | y :: ts', S r' => y :: tset ts' r' x
  end.

Section Model9.
  Variable W : world.

  (* the enumeration order of the nested-dictionary model is the implementation's *)
  Definition listing_exact (t : treg) (o : rb_order) : bool :=
    lnat_eqb (enc_regs_raw (fst o)) (enc_regs_raw (t_allRegistrations t))
    && lnat_eqb (enc_subs_raw (snd o)) (enc_subs_raw (t_allSubscriptions t)).

  (* ... and a permutation of the flat model's, keeping each subscription key's order *)
  Definition listing_matches (g : reg) (o : rb_order) : bool :=
    lnat_eqb (enc_allregs (fst o)) (enc_allregs (allRegistrations g))
    && lnat_eqb (enc_allsubs (snd o)) (enc_allsubs (allSubscriptions g)).

  (* RegSys.step's ORebuild branch with the flat replay done in the TRIE model's enumeration order *)
  Definition rebuild_step (s : sys) (r : nat) (o : rb_order) : sys * list nat :=
    let x := get s r in
    if listing_matches (rs_reg x) o then
      let g' := replay_into W (fresh_reg (generation (rs_reg x))) (fst o) (snd o) in
      let s1 := set s r (mkRS g' (rs_caches x) (rs_bases x) (rs_ro x)
                              (rs_subs x)       (* __init__ keeps an existing _v_subregistries *)
                              (rs_vro x) (rs_vgen x) (rs_flavour x)) in
      (after_bump s1 r, [])
    else (s, [777]).

  (* the answer of a query computed on the nested-dictionary model of a base-less registry *)
  Definition trie_answer (t : treg) (o : rop) : option (list nat) :=
    match o with
    | QLookup _ req p (NStr n) =>
        Some (match t_uncached_lookup W [t] req p n with Some v => [1; vid v] | None => [0] end)
    | QLookup1 _ x p (NStr n) =>
        Some (match t_uncached_lookup W [t] [x] p n with Some v => [1; vid v] | None => [0] end)
    | QLookupAll _ req p => Some (enc_pairs (t_uncached_lookupAll W [t] req p))
    | QNames _ req p => Some (enc_names (map fst (t_uncached_lookupAll W [t] req p)))
    | QSubscriptions _ req p => Some (map vid (t_uncached_subscriptions W [t] req p))
    | QRegistered _ req p n => Some (match t_registered t req p n with Some v => [vid v] | None => [] end)
    | QSubscribed _ req p v => Some [if t_subscribed t req p v then 1 else 0]
    | QAllRegistrations _ => Some (enc_allregs (t_allRegistrations t))
    | QAllSubscriptions _ => Some (enc_allsubs (t_allSubscriptions t))
    | _ => None
    end.

  Definition op_reg (o : rop) : option nat :=
    match o with
    | QLookup r _ _ _ | QLookup1 r _ _ _ | QLookupAll r _ _ | QNames r _ _ | QSubscriptions r _ _
    | QRegistered r _ _ _ | QSubscribed r _ _ _ | QAllRegistrations r | QAllSubscriptions r => Some r
    | _ => None
    end.

  (* a query's flat answer [a] must also be the nested-dictionary model's (registries without bases) *)
  Definition trie_agrees (s : sys) (ts : list treg) (o : rop) (a : list nat) : bool :=
    match op_reg o with
    | Some r => match rs_bases (get s r), trie_answer (tnth ts r) o with
                | [], Some b => lnat_eqb a b
                | _, _ => true
                end
    | None => true
    end.

  (* lockstep: the registry system on flat storage (Model/RegSys) and one nested-dictionary storage
     per registry.  Flags instead of answers: 777 flat/trie listings differ, 778 no raw listing,
     779 layout differs, 780 raw listing order differs, 781 trie answer differs, 782 no layout *)
  Fixpoint run9 (s : sys) (ts : list treg) (ops : list rop) (orders : list rb_order) (lays : list layout)
    : sys * list treg * list (list nat) :=
    match ops with
    | [] => (s, ts, [])
    | o :: ops' =>
        match as_bop o with
        | Some (r, b) =>
            let t := tnth ts r in
            let t' := t_bstep W t b in
            match lays with
            | [] => (s, ts, [[782]])
            | lay :: lays' =>
                let lay_ok := layout_matches t' lay in
                match b with
                | BRebuild =>
                    match orders with
                    | ob :: orders' =>
                        let mine := (t_allRegistrations t, t_allSubscriptions t) in
                        let '(s', a) := rebuild_step s r mine in
                        let a' := if listing_exact t ob then (if lay_ok then a else [779]) else [780] in
                        let '(s'', ts'', rest) := run9 s' (tset ts r t') ops' orders' lays' in
                        (s'', ts'', a' :: rest)
                    | [] => (s, ts, [[778]])
                    end
                | _ =>
                    let '(s', a) := step W call s o in
                    let a' := if lay_ok then a else [779] in
                    let '(s'', ts'', rest) := run9 s' (tset ts r t') ops' orders lays' in
                    (s'', ts'', a' :: rest)
                end
            end
        | None =>
            let '(s', a) := step W call s o in
            let ts' := match o with ONewReg _ _ => ts ++ [t_fresh 0] | _ => ts end in
            let a' := if trie_agrees s ts o a then a else 781 :: a in
            let '(s'', ts'', rest) := run9 s' ts' ops' orders lays in
            (s'', ts'', a' :: rest)
        end
    end.

  Definition retarget (r' : nat) (o : rop) : rop :=
    match o with
    | QLookup _ req p n => QLookup r' req p n
    | QLookup1 _ req p n => QLookup1 r' req p n
    | QLookupAll _ req p => QLookupAll r' req p
    | QNames _ req p => QNames r' req p
    | QSubscriptions _ req p => QSubscriptions r' req p
    | QRegistered _ req p n => QRegistered r' req p n
    | QSubscribed _ req p v => QSubscribed r' req p v
    | QAllRegistrations _ => QAllRegistrations r'
    | QAllSubscriptions _ => QAllSubscriptions r'
    | o => o
    end.

  (* the replay stream as a history: new registry, register of every tuple of the listing,
     subscribe likewise, then the queries *)
  Definition replay_ops (r2 : nat) (fl : flavour) (o : rb_order) : list rop :=
    ONewReg fl []
    :: map (fun kv => let '(req, p, n) := fst kv in ORegister r2 (map Some req) p n (Some (snd kv))) (fst o)
    ++ map (fun kv => OSubscribe r2 (map Some (fst (fst kv))) (snd (fst kv)) (snd kv)) (snd o).

  (* queries only: flat answers, flagged where the nested-dictionary model disagrees *)
  Fixpoint runq (s : sys) (ts : list treg) (qs : list rop) : sys * list (list nat) :=
    match qs with
    | [] => (s, [])
    | o :: qs' => let '(s', a) := step W call s o in
                  let a' := if trie_agrees s ts o a then a else 781 :: a in
                  let '(s'', rest) := runq s' ts qs' in (s'', a' :: rest)
    end.

  Definition model9 (ops : list rop) (orders : list rb_order) (lays : list layout) (rp : replay_t)
    : list (list nat) * bool * list (list nat) * list (list nat) :=
    let '(r0, fl, o, qs, _, _, lay2) := rp in
    let '(s1, ts1, main) := run9 [] [] ops orders lays in
    let '(s2, a1) := runq s1 ts1 qs in
    let t0 := tnth ts1 r0 in
    let mine := (t_allRegistrations t0, t_allSubscriptions t0) in
    let r2 := length s2 in
    (* the second registry: flat, through the registry system; nested, by t_replay *)
    let s3 := final W call s2 (replay_ops r2 fl mine) in
    let t2 := t_replay W (t_fresh 0) (fst mine) (snd mine) in
    let ts2 := ts1 ++ repeat t_empty (r2 - length ts1) ++ [t2] in
    let '(_, a2) := runq s3 ts2 (map (retarget r2) qs) in
    let ok := listing_exact t0 o && listing_matches (rs_reg (get s2 r0)) mine && layout_matches t2 lay2 in
    (main, ok, a1, a2).
End Model9.

Definition model_out (c : case_t) :=
  let '(g, ifs, ops, _, orders, lays, rp) := c in model9 (mk_world g ifs) ops orders lays rp.

Definition check_model (c : case_t) : bool :=
  let '(g, ifs, ops, obs, orders, lays, rp) := c in
  let '(_, _, _, _, o1, o2, _) := rp in
  let '(main, ok, a1, a2) := model9 (mk_world g ifs) ops orders lays rp in
  llnat_eqb main obs && ok && llnat_eqb a1 o1 && llnat_eqb a2 o2.

(* ------------------------------------------------------------------ spec side *)
Fixpoint dedupe {A} (eqb : A -> A -> bool) (l : list A) : list A :=
  match l with
  | [] => []
  | x :: l' => x :: filter (fun y => negb (eqb x y)) (dedupe eqb l')
  end.

Record led := mkLed {
  l_a : nat -> amap;               (* per registry *)
  l_s : nat -> smap;
  l_ak : list (nat * akey);        (* keys ever written, per registry *)
  l_sk : list (nat * skey)
}.

Definition led0 : led := mkLed (fun _ _ => None) (fun _ _ => []) [] [].

Definition fupd {A} (f : nat -> A) (r : nat) (x : A) : nat -> A := fun r' => if Nat.eqb r' r then x else f r'.

Definition led_step (L : led) (o : rop) : led :=
  match as_bop o with
  | None => L
  | Some (r, b) =>
      mkLed (fupd (l_a L) r (aled_step (l_a L r) b)) (fupd (l_s L) r (sled_step (l_s L r) b))
            (match b with BRegister req p n _ => (r, akey_of req p n) :: l_ak L | _ => l_ak L end)
            (match b with BSubscribe req p _ => (r, skey_of req p) :: l_sk L | _ => l_sk L end)
  end.

Definition keys_of {K} (r : nat) (l : list (nat * K)) : list K :=
  map snd (filter (fun x => Nat.eqb (fst x) r) l).

Definition live_regs (L : led) (r : nat) : list (akey * value) :=
  flat_map (fun k => match l_a L r k with Some v => [(k, v)] | None => [] end)
           (dedupe akey_eqb (keys_of r (l_ak L))).
Definition live_subs (L : led) (r : nat) : list (skey * value) :=
  flat_map (fun k => map (fun v => (k, v)) (l_s L r k)) (dedupe skey_eqb (keys_of r (l_sk L))).
Definition live_akeys (L : led) (r : nat) : list akey := map fst (live_regs L r).
Definition live_skeys (L : led) (r : nat) : list skey :=
  filter (fun k => match l_s L r k with [] => false | _ => true end) (dedupe skey_eqb (keys_of r (l_sk L))).

(* what the ledger says a bookkeeping query must answer; None = not a bookkeeping query *)
Definition expected (L : led) (o : rop) : option (list nat) :=
  match o with
  | QRegistered r req p n =>
      Some (match l_a L r (akey_of req p n) with Some v => [vid v] | None => [] end)
  | QSubscribed r req p v =>
      Some [if existsb (fun x => v_eq x v) (l_s L r (skey_of req p)) then 1 else 0]
  | QAllRegistrations r => Some (enc_allregs (live_regs L r))
  | QAllSubscriptions r => Some (enc_allsubs (live_subs L r))
  | _ => None
  end.

Definition names_of (l : list akey) : list name := dedupe Nat.eqb (map (fun k => snd k) l).

(* is the lookup query unambiguous in the sense of Spec.Bookkeeping? None = not a lookup *)
Definition unambiguous (W : world) (L : led) (o : rop) : option bool :=
  match o with
  | QLookup r req p (NStr n) => Some (unamb_lookup_b W (live_akeys L r) req p n)
  | QLookup r req p NotAString => Some true
  | QLookup1 r x p (NStr n) => Some (unamb_lookup_b W (live_akeys L r) [x] p n)
  | QLookup1 r x p NotAString => Some true
  | QLookupAll r req p | QNames r req p =>
      Some (forallb (fun n => unamb_lookup_b W (live_akeys L r) req p n) (names_of (live_akeys L r)))
  | QSubscriptions r req (Some p) => Some (unamb_subs_b W (live_skeys L r) req p)
  | QSubscriptions r req None => Some true
  | _ => None
  end.

Definition name_arg_eqb (a b : name_arg) : bool :=
  match a, b with NStr x, NStr y => Nat.eqb x y | NotAString, NotAString => true | _, _ => false end.

Definition same_query (a b : rop) : bool :=
  match a, b with
  | QLookup r req p n, QLookup r' req' p' n' =>
      Nat.eqb r r' && lspec_eqb req req' && Nat.eqb p p' && name_arg_eqb n n'
  | QLookup1 r x p n, QLookup1 r' x' p' n' => Nat.eqb r r' && Nat.eqb x x' && Nat.eqb p p' && name_arg_eqb n n'
  | QLookupAll r req p, QLookupAll r' req' p' => Nat.eqb r r' && lspec_eqb req req' && Nat.eqb p p'
  | QNames r req p, QNames r' req' p' => Nat.eqb r r' && lspec_eqb req req' && Nat.eqb p p'
  | QSubscriptions r req p, QSubscriptions r' req' p' => Nat.eqb r r' && lspec_eqb req req' && ospec_eqb p p'
  | _, _ => false
  end.

Definition is_mutator (o : rop) : bool :=
  match o with
  | ONewReg _ _ | OSetRegBases _ _ | ORegister _ _ _ _ _ | OUnregister _ _ _ _ _
  | OSubscribe _ _ _ _ | OUnsubscribe _ _ _ _ | ORebuild _ => true
  | _ => false
  end.

(* walk the main history.  [recent] = queries (with answers) since the last mutator;
   [pending] = the queries answered just before the last rebuild() (valid until the next mutator) *)
Fixpoint spec_walk (W : world) (L : led) (recent pending : list (rop * list nat))
         (ops : list rop) (obs : list (list nat)) : bool :=
  match ops, obs with
  | [], [] => true
  | o :: ops', a :: obs' =>
      if is_mutator o then
        (match a with [] => true | _ => false end)          (* mutators answer nothing, raise nothing *)
        && spec_walk W (led_step L o) []
                     (match o with ORebuild _ => recent | _ => [] end) ops' obs'
      else
        (match expected L o with Some e => lnat_eqb e a | None => true end)
        && (match unambiguous W L o with
            | Some true => forallb (fun qa => if same_query (fst qa) o then lnat_eqb (snd qa) a else true) pending
            | _ => true
            end)
        && spec_walk W L ((o, a) :: recent) pending ops' obs'
  | _, _ => false
  end.

Fixpoint zip3 {A B C} (l1 : list A) (l2 : list B) (l3 : list C) : list (A * B * C) :=
  match l1, l2, l3 with
  | x :: l1', y :: l2', z :: l3' => (x, y, z) :: zip3 l1' l2' l3'
  | _, _, _ => []
  end.

Definition spec_replay (W : world) (L : led) (rp : replay_t) : bool :=
  let '(r0, _, o, qs, a1, a2, _) := rp in
  Nat.eqb (length qs) (length a1) && Nat.eqb (length qs) (length a2)
  && lnat_eqb (enc_allregs (fst o)) (enc_allregs (live_regs L r0))
  && lnat_eqb (enc_allsubs (snd o)) (enc_allsubs (live_subs L r0))
  && forallb (fun t => let '(q, x1, x2) := t in
                       match expected L q with
                       | Some e => lnat_eqb e x1 && lnat_eqb e x2
                       | None => match unambiguous W L q with
                                 | Some true => lnat_eqb x1 x2
                                 | _ => true
                                 end
                       end) (zip3 qs a1 a2).

Definition final_led (ops : list rop) : led := fold_left led_step ops led0.

Definition check_spec (c : case_t) : bool :=
  let '(g, ifs, ops, obs, _, _, rp) := c in
  let W := mk_world g ifs in
  spec_walk W led0 [] [] ops obs && spec_replay W (final_led ops) rp.

(* how many lookups of the case were compared across rebuild()/replay (coverage diagnostics) *)
Definition n_unambiguous (c : case_t) : nat :=
  let '(g, ifs, ops, _, _, _, rp) := c in
  let '(_, _, _, qs, _, _, _) := rp in
  let W := mk_world g ifs in
  length (filter (fun q => match unambiguous W (final_led ops) q with Some true => true | _ => false end) qs).
