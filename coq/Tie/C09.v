(* Tie for C09 (registration bookkeeping = net effect of the history).

   A case = world + main history with the implementation's answers + for every rebuild() of the
   main history the order in which the implementation enumerated its registrations/subscriptions
   + a replay stream: final queries answered by the source registry r0 and by a second, empty
   registry into which allRegistrations()/allSubscriptions() of r0 were replayed.

   check_model : Model/RegSys.run (with rebuild()/replay done in the OBSERVED enumeration order,
                 Model/Bookkeeping.replay_into) gives exactly the observed answers.
   check_spec  : the answers of registered / subscribed / allRegistrations / allSubscriptions are
                 judged against the ledger of Spec/Bookkeeping.v, replayed here per registry without
                 any of Model/Adapter's functions; lookups before/after rebuild() and on r0 / the
                 replayed registry must be equal whenever Spec's unambiguity condition holds. *)
From Coq Require Import List Arith Bool.
Import ListNotations.
From ZI Require Export Tie.RegCommon Model.Bookkeeping Spec.Bookkeeping.

Definition rb_order := (list (akey * value) * list (skey * value))%type.
(* r0, flavour of the second registry, raw listings of r0, queries (addressed to r0),
   answers of r0, answers of the replayed registry *)
Definition replay_t := (nat * flavour * rb_order * list rop * list (list nat) * list (list nat))%type.
Definition case_t := (graph * list bool * list rop * list (list nat) * list rb_order * replay_t)%type.

(* ------------------------------------------------------------------ model side *)
Section Model9.
  Variable W : world.

  Definition listing_matches (g : reg) (o : rb_order) : bool :=
    lnat_eqb (enc_allregs (fst o)) (enc_allregs (allRegistrations g))
    && lnat_eqb (enc_allsubs (snd o)) (enc_allsubs (allSubscriptions g)).

  (* RegSys.step's ORebuild branch with the replay done in the observed order *)
  Definition rebuild_step (s : sys) (r : nat) (o : rb_order) : sys * list nat :=
    let x := get s r in
    if listing_matches (rs_reg x) o then
      let g' := replay_into W (fresh_reg (generation (rs_reg x))) (fst o) (snd o) in
      let s1 := set s r (mkRS g' (rs_caches x) (rs_bases x) (rs_ro x)
                              (rs_subs x)       (* __init__ keeps an existing _v_subregistries *)
                              (rs_vro x) (rs_vgen x) (rs_flavour x)) in
      (after_bump s1 r, [])
    else (s, [777]).

  Fixpoint run9 (s : sys) (ops : list rop) (orders : list rb_order) : sys * list (list nat) :=
    match ops with
    | [] => (s, [])
    | ORebuild r :: ops' =>
        match orders with
        | o :: orders' => let '(s', a) := rebuild_step s r o in
                          let '(s'', rest) := run9 s' ops' orders' in (s'', a :: rest)
        | [] => (s, [[778]])
        end
    | o :: ops' => let '(s', a) := step W call s o in
                   let '(s'', rest) := run9 s' ops' orders in (s'', a :: rest)
    end.

  Definition retarget (r' : nat) (o : rop) : rop :=
    match o with
    | QLookup _ req p n => QLookup r' req p n
    | QLookup1 _ req p n => QLookup1 r' req p n
    | QLookupAll _ req p => QLookupAll r' req p
    | QNames _ req p => QNames r' req p
    | QSubscriptions _ req p => QSubscriptions r' req p
    | QRegistered _ req p n => QRegistered r' req p n
    | QSubscribed _ req p v => QSubscribed r' req p v
    | QAllRegistrations _ => QAllRegistrations r'
    | QAllSubscriptions _ => QAllSubscriptions r'
    | o => o
    end.

  (* the replay stream as a history: new registry, register of every tuple of the raw listing,
     subscribe likewise, then the queries *)
  Definition replay_ops (r2 : nat) (fl : flavour) (o : rb_order) : list rop :=
    ONewReg fl []
    :: map (fun kv => let '(req, p, n) := fst kv in ORegister r2 (map Some req) p n (Some (snd kv))) (fst o)
    ++ map (fun kv => OSubscribe r2 (map Some (fst (fst kv))) (snd (fst kv)) (snd kv)) (snd o).

  Definition model9 (ops : list rop) (orders : list rb_order) (rp : replay_t)
    : list (list nat) * bool * list (list nat) * list (list nat) :=
    let '(r0, fl, o, qs, _, _) := rp in
    let '(s1, main) := run9 [] ops orders in
    let a1 := run W call s1 qs in
    let s2 := final W call s1 qs in
    let lm := listing_matches (rs_reg (get s2 r0)) o in
    let r2 := length s2 in
    let s3 := final W call s2 (replay_ops r2 fl o) in
    let a2 := run W call s3 (map (retarget r2) qs) in
    (main, lm, a1, a2).
End Model9.

Definition model_out (c : case_t) :=
  let '(g, ifs, ops, _, orders, rp) := c in model9 (mk_world g ifs) ops orders rp.

Definition check_model (c : case_t) : bool :=
  let '(g, ifs, ops, obs, orders, rp) := c in
  let '(_, _, _, _, o1, o2) := rp in
  let '(main, lm, a1, a2) := model9 (mk_world g ifs) ops orders rp in
  llnat_eqb main obs && lm && llnat_eqb a1 o1 && llnat_eqb a2 o2.

(* ------------------------------------------------------------------ spec side *)
Fixpoint dedupe {A} (eqb : A -> A -> bool) (l : list A) : list A :=
  match l with
  | [] => []
  | x :: l' => x :: filter (fun y => negb (eqb x y)) (dedupe eqb l')
  end.

Record led := mkLed {
  l_a : nat -> amap;               (* per registry *)
  l_s : nat -> smap;
  l_ak : list (nat * akey);        (* keys ever written, per registry *)
  l_sk : list (nat * skey)
}.

Definition led0 : led := mkLed (fun _ _ => None) (fun _ _ => []) [] [].

Definition fupd {A} (f : nat -> A) (r : nat) (x : A) : nat -> A := fun r' => if Nat.eqb r' r then x else f r'.

Definition led_step (L : led) (o : rop) : led :=
  match as_bop o with
  | None => L
  | Some (r, b) =>
      mkLed (fupd (l_a L) r (aled_step (l_a L r) b)) (fupd (l_s L) r (sled_step (l_s L r) b))
            (match b with BRegister req p n _ => (r, akey_of req p n) :: l_ak L | _ => l_ak L end)
            (match b with BSubscribe req p _ => (r, skey_of req p) :: l_sk L | _ => l_sk L end)
  end.

Definition keys_of {K} (r : nat) (l : list (nat * K)) : list K :=
  map snd (filter (fun x => Nat.eqb (fst x) r) l).

Definition live_regs (L : led) (r : nat) : list (akey * value) :=
  flat_map (fun k => match l_a L r k with Some v => [(k, v)] | None => [] end)
           (dedupe akey_eqb (keys_of r (l_ak L))).
Definition live_subs (L : led) (r : nat) : list (skey * value) :=
  flat_map (fun k => map (fun v => (k, v)) (l_s L r k)) (dedupe skey_eqb (keys_of r (l_sk L))).
Definition live_akeys (L : led) (r : nat) : list akey := map fst (live_regs L r).
Definition live_skeys (L : led) (r : nat) : list skey :=
  filter (fun k => match l_s L r k with [] => false | _ => true end) (dedupe skey_eqb (keys_of r (l_sk L))).

(* what the ledger says a bookkeeping query must answer; None = not a bookkeeping query *)
Definition expected (L : led) (o : rop) : option (list nat) :=
  match o with
  | QRegistered r req p n =>
      Some (match l_a L r (akey_of req p n) with Some v => [vid v] | None => [] end)
  | QSubscribed r req p v =>
      Some [if existsb (fun x => v_eq x v) (l_s L r (skey_of req p)) then 1 else 0]
  | QAllRegistrations r => Some (enc_allregs (live_regs L r))
  | QAllSubscriptions r => Some (enc_allsubs (live_subs L r))
  | _ => None
  end.

Definition names_of (l : list akey) : list name := dedupe Nat.eqb (map (fun k => snd k) l).

(* is the lookup query unambiguous in the sense of Spec.Bookkeeping? None = not a lookup *)
Definition unambiguous (W : world) (L : led) (o : rop) : option bool :=
  match o with
  | QLookup r req p (NStr n) => Some (unamb_lookup_b W (live_akeys L r) req p n)
  | QLookup r req p NotAString => Some true
  | QLookup1 r x p (NStr n) => Some (unamb_lookup_b W (live_akeys L r) [x] p n)
  | QLookup1 r x p NotAString => Some true
  | QLookupAll r req p | QNames r req p =>
      Some (forallb (fun n => unamb_lookup_b W (live_akeys L r) req p n) (names_of (live_akeys L r)))
  | QSubscriptions r req (Some p) => Some (unamb_subs_b W (live_skeys L r) req p)
  | QSubscriptions r req None => Some true
  | _ => None
  end.

Definition name_arg_eqb (a b : name_arg) : bool :=
  match a, b with NStr x, NStr y => Nat.eqb x y | NotAString, NotAString => true | _, _ => false end.

Definition same_query (a b : rop) : bool :=
  match a, b with
  | QLookup r req p n, QLookup r' req' p' n' =>
      Nat.eqb r r' && lspec_eqb req req' && Nat.eqb p p' && name_arg_eqb n n'
  | QLookup1 r x p n, QLookup1 r' x' p' n' => Nat.eqb r r' && Nat.eqb x x' && Nat.eqb p p' && name_arg_eqb n n'
  | QLookupAll r req p, QLookupAll r' req' p' => Nat.eqb r r' && lspec_eqb req req' && Nat.eqb p p'
  | QNames r req p, QNames r' req' p' => Nat.eqb r r' && lspec_eqb req req' && Nat.eqb p p'
  | QSubscriptions r req p, QSubscriptions r' req' p' => Nat.eqb r r' && lspec_eqb req req' && ospec_eqb p p'
  | _, _ => false
  end.

Definition is_mutator (o : rop) : bool :=
  match o with
  | ONewReg _ _ | OSetRegBases _ _ | ORegister _ _ _ _ _ | OUnregister _ _ _ _ _
  | OSubscribe _ _ _ _ | OUnsubscribe _ _ _ _ | ORebuild _ => true
  | _ => false
  end.

(* walk the main history.  [recent] = queries (with answers) since the last mutator;
   [pending] = the queries answered just before the last rebuild() (valid until the next mutator) *)
Fixpoint spec_walk (W : world) (L : led) (recent pending : list (rop * list nat))
         (ops : list rop) (obs : list (list nat)) : bool :=
  match ops, obs with
  | [], [] => true
  | o :: ops', a :: obs' =>
      if is_mutator o then
        (match a with [] => true | _ => false end)          (* mutators answer nothing, raise nothing *)
        && spec_walk W (led_step L o) []
                     (match o with ORebuild _ => recent | _ => [] end) ops' obs'
      else
        (match expected L o with Some e => lnat_eqb e a | None => true end)
        && (match unambiguous W L o with
            | Some true => forallb (fun qa => if same_query (fst qa) o then lnat_eqb (snd qa) a else true) pending
            | _ => true
            end)
        && spec_walk W L ((o, a) :: recent) pending ops' obs'
  | _, _ => false
  end.

Fixpoint zip3 {A B C} (l1 : list A) (l2 : list B) (l3 : list C) : list (A * B * C) :=
  match l1, l2, l3 with
  | x :: l1', y :: l2', z :: l3' => (x, y, z) :: zip3 l1' l2' l3'
  | _, _, _ => []
  end.

Definition spec_replay (W : world) (L : led) (rp : replay_t) : bool :=
  let '(r0, _, o, qs, a1, a2) := rp in
  Nat.eqb (length qs) (length a1) && Nat.eqb (length qs) (length a2)
  && lnat_eqb (enc_allregs (fst o)) (enc_allregs (live_regs L r0))
  && lnat_eqb (enc_allsubs (snd o)) (enc_allsubs (live_subs L r0))
  && forallb (fun t => let '(q, x1, x2) := t in
                       match expected L q with
                       | Some e => lnat_eqb e x1 && lnat_eqb e x2
                       | None => match unambiguous W L q with
                                 | Some true => lnat_eqb x1 x2
                                 | _ => true
                                 end
                       end) (zip3 qs a1 a2).

Definition final_led (ops : list rop) : led := fold_left led_step ops led0.

Definition check_spec (c : case_t) : bool :=
  let '(g, ifs, ops, obs, _, rp) := c in
  let W := mk_world g ifs in
  spec_walk W led0 [] [] ops obs && spec_replay W (final_led ops) rp.

(* how many lookups of the case were compared across rebuild()/replay (coverage diagnostics) *)
Definition n_unambiguous (c : case_t) : nat :=
  let '(g, ifs, ops, _, _, rp) := c in
  let '(_, _, _, qs, _, _) := rp in
  let W := mk_world g ifs in
  length (filter (fun q => match unambiguous W (final_led ops) q with Some true => true | _ => false end) qs).
