(* Third tie for C03: the process-wide setting ZOPE_INTERFACE_USE_LEGACY_IRO=1.  Every __sro__ is
   then the legacy order with Interface forced last.
   check_model : equals [root_last root (legacy_ro …)] of Model/Ro.v (theorem C03_legacy_sro_valid);
   check_spec  : is a valid linearization of the rooted hierarchy (Spec/C3.v only). *)
From Coq Require Import List Arith Bool.
Import ListNotations.
From ZI Require Export Lib.Util Model.Ro Spec.C3.

(* root, graph, ranks, (node, observed __sro__) *)
Definition case_t := (nat * graph * list nat * list (nat * list nat))%type.

Definition rank_of (ranks : list nat) (x : nat) : nat := nth x ranks 0.
Definition fuel_of (ranks : list nat) : nat := S (fold_right Nat.max 0 ranks).

Definition model_sro (root : nat) (g : graph) (fuel : nat) (x : nat) : list nat :=
  if Nat.eqb x root then [root] else root_last root (legacy_ro fuel g x).

Definition model_out (c : case_t) :=
  let '(root, g, ranks, obs) := c in
  map (fun o : nat * list nat => (fst o, model_sro root g (fuel_of ranks) (fst o))) obs.

Definition check_model (c : case_t) : bool :=
  let '(root, g, ranks, obs) := c in
  wfb (rank_of ranks) g &&
  forallb (fun o : nat * list nat => lnat_eqb (model_sro root g (fuel_of ranks) (fst o)) (snd o)) obs.

Definition check_spec (c : case_t) : bool :=
  let '(root, g, ranks, obs) := c in
  wfb (rank_of ranks) g &&
  forallb (fun o : nat * list nat =>
             valid_linb (rooted root (bases g)) (S (fuel_of ranks)) root (fst o) (snd o)) obs.
