(* Shared tie helpers for the registry family (C04-C09, C05, C06): build the world from the
   observed specification graph, the factory oracle, and run a history through Model/RegSys. *)
From Coq Require Import List Arith Bool.
Import ListNotations.
From ZI Require Export Lib.Util Model.Ro Model.Adapter Model.Lookup Model.RegSys.

(* what a registered value returns when called (mirrors reg_common.oracle_call) *)
Definition call (v : value) (os : list nat) : option nat :=
  let s := vid v + fold_right Nat.add 0 os in
  if Nat.eqb (s mod 3) 0 then None
  else Some (vid v * 1000 + fold_left (fun c o => c * 10 + (o mod 10)) os 0).

(* the world of a case: spec i has bases (nth i g) and is an interface iff (nth i ifaces) *)
Definition mk_world (g : graph) (ifaces : list bool) : world :=
  let n := length g in
  let tbl := map (fun x => fresh_sro (S n) 0 g x) (seq 0 n) in
  mkW (fun x => nth x tbl []) (fun x => nth x ifaces false).

Definition llnat_eqb := list_eqb (list_eqb Nat.eqb).

(* graph, interface flags, history, observed answers *)
Definition hist_case := (graph * list bool * list rop * list (list nat))%type.

Definition hist_model_out (c : hist_case) : list (list nat) :=
  let '(g, ifs, ops, _) := c in run (mk_world g ifs) call [] ops.

Definition hist_check_model (c : hist_case) : bool :=
  let '(_, _, _, obs) := c in llnat_eqb (hist_model_out c) obs.
