(* Classification of known findings for C16 (used only by harness/props/c16.py finding_key):
   the same Spec oracle as Tie/C16.v, tolerating exactly one recorded deviation at a time.
     check_model here = "the case satisfies the Spec if F9-shaped steps may emit one event"
     check_spec  here = "the case satisfies the Spec if F11-shaped steps may emit one Registered"
   A case whose only discrepancies are of one recorded shape passes the corresponding check. *)
From ZI Require Export Tie.C16.
Definition case_t := Tie.C16.case_t.
Definition check_model (c : case_t) : bool := check_spec_tol true false c.
Definition check_spec (c : case_t) : bool := check_spec_tol false true c.
