(* Classification of known findings for C16 (used only by harness/props/c16.py finding_key):
   the same Spec oracle as Tie/C16.v, tolerating exactly ONE recorded deviation, named by the
   number paired with the case: 9 = F9 (several subscription / handler registrations removed, one
   event), 11 = F11 (registerAdapter over a live key emits only Registered), 13 = F13
   (getAllUtilitiesRegisteredFor hands out an unregistered object equal to a live utility).
   A case whose only discrepancies are of that one shape passes [check_spec]. *)
From Coq Require Import Arith.
From ZI Require Export Tie.C16.
Definition case_t := (nat * Tie.C16.case_t)%type.
Definition check_model (c : case_t) : bool := true.
Definition check_spec (c : case_t) : bool :=
  check_spec_tol (Nat.eqb (fst c) 9) (Nat.eqb (fst c) 11) (Nat.eqb (fst c) 13) (snd c).
