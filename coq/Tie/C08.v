(* Tie for C08.  A case is a history over a generated world: mutations separated by groups of
   queries in which every entry point is called for the same keys, in random order, twice (cold
   cache, then warm through whatever entry points came first); between a single warm call and such
   a group the declaration of a class the key depends on may be changed in place (a new phase).

   check_model : the shared registry model (Model/RegSys.run, whose entry points are the ones the
                 theorems of Properties/C08.v are about) answers exactly like the implementation.
   check_spec  : the implementation's answers are judged AGAINST EACH OTHER, per the property
                 statement, inside each segment of the history between two mutations (the registry
                 state is constant there; only caches change).  No registry model is used: only the
                 factory oracle [call8], the object table and the Spec-level combinators
                 apply_factory / call_all. *)
From Coq Require Import List Arith Bool.
Import ListNotations.
From ZI Require Export Tie.RegCommon.
From ZI Require Import Spec.EntryPoints Model.Trie Model.Bookkeeping.

(* A case = the phases of a history + one observed answer per registry op.  A phase is a stretch
   of the history during which the specification world did not change: its observed graph, the
   specifications that were changed IN PLACE to get there (classImplements & co on a class whose
   declaration is a required specification; none for the first phase) and its ops.  Histories over
   a static world have one phase. *)
Definition phase := (graph * list bool * list spec * list rop)%type.
Definition case_t := (list phase * list (list nat))%type.

(* the separator of the subscribers answer (reg_common.MARK); the generated case files refer to this
   constant so that the unary number is built once per file *)
Definition MARK : nat := 999999.

(* What a registered value returns when called (mirrors c08_driver.oracle_call8): like the shared oracle
   of Tie/RegCommon, except that some results are FALSY without being None (0, (), '', an empty
   container-like object: all encoded as the number 0) - an adapter or subscriber may be false. *)
Definition call8 (v : value) (os : list nat) : option nat :=
  let s := vid v + fold_right Nat.add 0 os in
  if Nat.eqb (s mod 3) 0 then None
  else if Nat.eqb (s mod 5) 1 then Some 0
  else call v os.

(* The model run = Model/RegSys.run, with the separator of the subscribers answer taken from the
   shared constant (the literal in RegSys.step is rebuilt, a million constructors, at every
   QSubscribers step: 50 ms each).  [step8_eq] shows it is the same function. *)
Definition step8 (W : world) (s : sys) (o : rop) : sys * list nat :=
  match o with
  | QSubscribers r os p =>
      let '(s', a) := with_lookup W s r (fun _ _ us c => subscribers us call8 c os p) in
      (s', fst a ++ [MARK] ++ map vid (snd a))
  | _ => step W call8 s o
  end.

Lemma step8_eq W s o : step8 W s o = step W call8 s o.
Proof. destruct o; reflexivity. Qed.

(* rebuild() replays allRegistrations() / allSubscriptions() in the enumeration order of the NESTED
   dictionaries.  The flat storage of Model/Adapter.v cannot see that order (Model/Adapter.rebuild
   replays in the flat list's own order), and the order decides the order of the extendors lists
   afterwards, hence which of two registrations under different provided interfaces a lookup finds.
   So the tie carries the nested-dictionary model of every registry (Model/Trie.v) in lockstep -
   exactly Model/Bookkeeping.lock_step, per registry - and rebuild() replays in ITS listing order.
   Every other operation is Model/RegSys.step ([step9_eq]). *)
Fixpoint tupd (l : list treg) (r : nat) (f : treg -> treg) : list treg :=
  match l, r with
  | [], _ => []
  | t :: l', 0 => f t :: l'
  | t :: l', S r' => t :: tupd l' r' f
  end.

Definition mstate := (sys * list treg)%type.

Definition step9 (W : world) (st : mstate) (o : rop) : mstate * list nat :=
  let '(s, ts) := st in
  let ts' := match o with
             | ONewReg _ _ => ts ++ [t_empty]
             | _ => match as_bop o with
                    | Some (r, b) => tupd ts r (fun t => t_bstep W t b)
                    | None => ts
                    end
             end in
  match o with
  | ORebuild r =>
      let x := get s r in
      let t := nth r ts t_empty in
      let g := replay_into W (fresh_reg (generation (rs_reg x))) (t_allRegistrations t) (t_allSubscriptions t) in
      let s1 := set s r (mkRS g (rs_caches x) (rs_bases x) (rs_ro x) (rs_subs x) (rs_vro x) (rs_vgen x) (rs_flavour x)) in
      ((after_bump s1 r, ts'), [])
  | _ => let '(s', a) := step8 W s o in ((s', ts'), a)
  end.

Lemma step9_eq W s ts o : (forall r, o <> ORebuild r) ->
  (fst (fst (step9 W (s, ts) o)), snd (step9 W (s, ts) o)) = step W call8 s o.
Proof.
  intros H. rewrite <- step8_eq. destruct o; try (exfalso; eapply H; reflexivity);
    unfold step9; cbv zeta; destruct (step8 W s _) as [s' a]; reflexivity.
Qed.

(* final state and answers *)
Fixpoint run8 (W : world) (s : mstate) (ops : list rop) : mstate * list (list nat) :=
  match ops with
  | [] => (s, [])
  | o :: ops' => let '(s', a) := step9 W s o in let '(s'', l) := run8 W s' ops' in (s'', a :: l)
  end.

(* A specification changed in place calls changed() on everything that depends on it: the
   specifications extending it and, through them, every lookup object that subscribed to one of
   those (AdapterLookupBase._subscribe, the [c_required] of Model/Lookup.v).  Such a lookup object
   drops its caches and its subscriptions (Model/RegSys.lookup_changed).  [W] is the world after the
   change; "x extends ch" is read off x's resolution order. *)
Definition invalidate (W : world) (chg : list spec) (s : sys) : sys :=
  fold_left (fun s r =>
               if existsb (fun x => existsb (fun ch => mem ch (w_sro W x)) chg) (c_required (rs_caches (get s r)))
               then lookup_changed false s r else s)
            (seq 0 (length s)) s.

Fixpoint run_phases (st : mstate) (ps : list phase) : list (list nat) :=
  match ps with
  | [] => []
  | (g, ifs, chg, ops) :: ps' =>
      let W := mk_world g ifs in
      let '(st', l) := run8 W (invalidate W chg (fst st), snd st) ops in
      l ++ run_phases st' ps'
  end.

Definition model_out (c : case_t) : list (list nat) := run_phases ([], []) (fst c).

Definition check_model (c : case_t) : bool := llnat_eqb (model_out c) (snd c).

Definition is_mutation (o : rop) : bool :=
  match o with
  | ONewReg _ _ | OSetRegBases _ _ | ORegister _ _ _ _ _ | OUnregister _ _ _ _ _
  | OSubscribe _ _ _ _ | OUnsubscribe _ _ _ _ | ORebuild _ => true
  | _ => false
  end.

(* what an observation says, normalised:
   lookup1(r, p, n) is a statement about lookup((r,), p, n);
   queryAdapter(ob, p, n) and adapter_hook(p, ob, n) are statements about "the factory found by
   lookup for [providedBy ob] applied to [ob]", like queryMultiAdapter([ob], p, n) *)
Inductive claim :=
| CLookup (r : nat) (req : list spec) (p : spec) (n : name_arg) (a : list nat)
| CApply (r : nat) (os : list obj) (p : spec) (n : name_arg) (a : list nat)
| CAll (r : nat) (req : list spec) (p : spec) (a : list nat)
| CNames (r : nat) (req : list spec) (p : spec) (a : list nat)
| CSubs (r : nat) (req : list spec) (p : option spec) (a : list nat)
| CSubscribers (r : nat) (os : list obj) (p : option spec) (a : list nat)
| COther.

Definition claim_of (x : rop * list nat) : claim :=
  let '(o, a) := x in
  match o with
  | QLookup r req p n => CLookup r req p n a
  | QLookup1 r rq p n => CLookup r [rq] p n a
  | QQueryAdapter r o p n | QAdapterHook r o p n => CApply r [o] p n a
  | QQueryMultiAdapter r os p n => CApply r os p n a
  | QLookupAll r req p => CAll r req p a
  | QNames r req p => CNames r req p a
  | QSubscriptions r req p => CSubs r req p a
  | QSubscribers r os p => CSubscribers r os p a
  | _ => COther
  end.

Definition name_arg_eqb (a b : name_arg) : bool :=
  match a, b with NStr x, NStr y => Nat.eqb x y | NotAString, NotAString => true | _, _ => false end.
Definition onat_eqb (a b : option nat) : bool :=
  match a, b with None, None => true | Some x, Some y => Nat.eqb x y | _, _ => false end.
Definition obj_eqb (a b : obj) : bool :=
  Nat.eqb (o_provides a) (o_provides b) && Nat.eqb (o_id a) (o_id b) && onat_eqb (o_super_of a) (o_super_of b).

(* decoding of the canonical answers (Model/RegSys.enc_*, harness/drivers/reg_common.py) *)
Definition dec_value (a : list nat) : option (res value) :=
  match a with
  | [1; v] => Some (RVal (mkV v 0))       (* [call8] only looks at the identity *)
  | [0] => Some RDefault
  | [2] => Some RValueError
  | _ => None
  end.
Fixpoint unflat (l : list nat) : list (nat * nat) :=
  match l with x :: y :: l' => (x, y) :: unflat l' | _ => [] end.
Definition found (a : list nat) : bool := match a with [1; _] => true | _ => false end.
Definition plain_answer (a : list nat) : bool := match a with [0] | [1; _] => true | _ => false end.

(* subscribers answer = results ++ [MARK] ++ called subscriptions.  Results and value ids are
   below 10000; the separator is recognised by size (comparing two unary 999999 costs a million
   steps).  No separator: everything is "results" and [called] = [0; 0] never matches. *)
Fixpoint split_at_mark (a : list nat) : list nat * list nat :=
  match a with
  | [] => ([], [0; 0])
  | x :: a' => if Nat.leb 10000 x then ([], a') else let '(r, c) := split_at_mark a' in (x :: r, c)
  end.

Definition same_lookup r req p n r' req' p' n' : bool :=
  Nat.eqb r r' && lnat_eqb req req' && Nat.eqb p p' && name_arg_eqb n n'.

(* is the pair of claims consistent with the property statement? (true when unrelated) *)
Definition compat (x y : claim) : bool :=
  match x, y with
  | CLookup r req p n a, CLookup r' req' p' n' a' =>
      if same_lookup r req p n r' req' p' n' then lnat_eqb a a' else true
  | CApply r os p n a, CLookup r' req' p' n' la =>
      if same_lookup r (map o_provides os) p n r' req' p' n' then
        match dec_value la with
        | Some l => lnat_eqb a (enc_res_nat (apply_factory call8 l (map unwrap os)))
        | None => false
        end
      else true
  | CApply r os p n a, CApply r' os' p' n' a' =>
      if Nat.eqb r r' && list_eqb obj_eqb os os' && Nat.eqb p p' && name_arg_eqb n n' then lnat_eqb a a' else true
  | CAll r req p a, CLookup r' req' p' (NStr n) la =>
      if Nat.eqb r r' && lnat_eqb req req' && Nat.eqb p p' then
        lnat_eqb la (match aget Nat.eqb (unflat a) n with Some v => [1; v] | None => [0] end)
      else true
  | CAll r req p a, CAll r' req' p' a' =>
      if Nat.eqb r r' && lnat_eqb req req' && Nat.eqb p p' then lnat_eqb a a' else true
  | CNames r req p a, CAll r' req' p' a' =>
      if Nat.eqb r r' && lnat_eqb req req' && Nat.eqb p p' then lnat_eqb a (map fst (unflat a')) else true
  | CNames r req p a, CLookup r' req' p' (NStr n) la =>
      if Nat.eqb r r' && lnat_eqb req req' && Nat.eqb p p' then Bool.eqb (mem_nat n a) (found la) else true
  | CNames r req p a, CNames r' req' p' a' =>
      if Nat.eqb r r' && lnat_eqb req req' && Nat.eqb p p' then lnat_eqb a a' else true
  | CSubs r req p a, CSubs r' req' p' a' =>
      if Nat.eqb r r' && lnat_eqb req req' && onat_eqb p p' then lnat_eqb a a' else true
  | CSubscribers r os p a, CSubs r' req' p' subs =>
      if Nat.eqb r r' && lnat_eqb (map o_provides os) req' && onat_eqb p p' then
        let '(results, called) := split_at_mark a in
        lnat_eqb results (match p with
                          | None => []
                          | Some _ => call_all call8 (map (fun v => mkV v 0) subs) (map o_id os)
                          end)
        && lnat_eqb called subs
      else true
  | _, _ => true
  end.

(* per observation: a non-string name is rejected with ValueError, a string name never is
   (and raises nothing else) *)
Definition unary_ok (x : claim) : bool :=
  match x with
  | CLookup _ _ _ NotAString a | CApply _ _ _ NotAString a => lnat_eqb a [2]
  | CLookup _ _ _ (NStr _) a | CApply _ _ _ (NStr _) a => plain_answer a
  | _ => true
  end.

Fixpoint segments (l : list (rop * list nat)) (cur : list claim) : list (list claim) :=
  match l with
  | [] => [cur]
  | x :: l' => if is_mutation (fst x) then cur :: segments l' [] else segments l' (claim_of x :: cur)
  end.

Definition seg_ok (seg : list claim) : bool :=
  forallb (fun x => unary_ok x && forallb (compat x) seg) seg.

(* all (op, answer) pairs of the history; a change of the world separates segments like a mutation *)
Fixpoint pair_up (ps : list phase) (obs : list (list nat)) : option (list (rop * list nat)) :=
  match ps with
  | [] => match obs with [] => Some [] | _ => None end
  | (_, _, _, ops) :: ps' =>
      if Nat.leb (length ops) (length obs) then
        match pair_up ps' (skipn (length ops) obs) with
        | Some l => Some ((ORebuild 0, []) :: combine ops (firstn (length ops) obs) ++ l)
        | None => None
        end
      else None
  end.

Definition check_spec (c : case_t) : bool :=
  match pair_up (fst c) (snd c) with
  | Some l => forallb seg_ok (segments l [])
  | None => false
  end.
