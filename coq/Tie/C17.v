(* Tie for C17.  A case = an interface (its names in the order of namesAndDescriptions(all=True),
   each an Attribute or a Method with its signature), a candidate (what getattr gives for every
   name), how it is verified, and what the implementation did: the outcome of verifyObject /
   verifyClass and, for every method whose implementation is a Python function, the rows
   (k, kw, inspect binds the call to the interface's signature, inspect binds it to the candidate's
   attribute) for k up to two more than every positional parameter.
   check_model : Model/Verify.v with the GENERATED kernel Gen/Incompat.v (what the theorems are
                 about) gives exactly the observed outcome, messages and order included.
   check_spec  : the observed outcome is the one the property demands, computed without the
                 kernel: failures by brute force over call shapes (Spec/Binds.v) and, separately,
                 from inspect's answers; also inspect must agree with the Spec's admits / binds. *)
From Coq Require Import List Arith Bool.
Import ListNotations.
From ZI Require Export Spec.Binds Model.Verify Gen.Incompat.

Definition oracle_row := (nat * bool * bool * bool)%type.

Record case_t := mkCase {
  c_vt : vtype;
  c_tentative : bool;
  c_declares : bool;            (* by construction of the candidate *)
  c_declares_obs : bool;        (* iface.providedBy / implementedBy (candidate) *)
  c_cand_is_type : bool;
  c_elems : list elem;          (* observed order *)
  c_order_ok : bool;            (* the observed names are exactly the declared ones *)
  c_oracle : list (nat * list oracle_row);
  c_out : option outcome        (* None: an exception that is not an Invalid, or an unknown one *)
}.

Definition outcome_eqb (a b : outcome) : bool :=
  match a, b with
  | Ok, Ok => true
  | Single x, Single y => err_eqb x y
  | Multiple xs, Multiple ys => (fix go l1 l2 := match l1, l2 with
                                                 | [], [] => true
                                                 | x :: l1', y :: l2' => err_eqb x y && go l1' l2'
                                                 | _, _ => false end) xs ys
  | _, _ => false
  end.

Definition model_out (c : case_t) : outcome :=
  verify incompat (c_vt c) (c_tentative c) (c_declares c) (c_cand_is_type c) (c_elems c).

Definition check_model (c : case_t) : bool :=
  c_order_ok c && Bool.eqb (c_declares c) (c_declares_obs c)
  && forallb (elem_wfb (c_vt c) (c_cand_is_type c)) (c_elems c)
  && match c_out c with Some o => outcome_eqb (model_out c) o | None => false end.

(* ---- the Spec oracle ---- *)

Fixpoint lookup_rows (n : nat) (o : list (nat * list oracle_row)) : option (list oracle_row) :=
  match o with
  | [] => None
  | (m, rows) :: o' => if Nat.eqb n m then Some rows else lookup_rows n o'
  end.

Definition row_has (rows : list oracle_row) (k : nat) (kw : bool) : bool :=
  existsb (fun r => let '(k', kw', _, _) := r in Nat.eqb k k' && Bool.eqb kw kw') rows.

(* inspect's answers are the Spec's, and every shape up to the proved bound is there *)
Definition rows_ok (i : sig) (self_bound : bool) (raw : sig) (rows : list oracle_row) : bool :=
  forallb (fun r => let '(k, kw, ib, mb) := r in
                    Bool.eqb ib (admitsb i (k, kw)) && Bool.eqb mb (call_bindsb self_bound raw (k, kw))) rows
  && forallb (fun sh => row_has rows (fst sh) (snd sh)) (shapes_upto (shape_bound i raw)).

(* an admitted shape that does not bind, according to inspect *)
Definition rows_fail (rows : list oracle_row) : bool :=
  existsb (fun r => let '(_, _, ib, mb) := r in ib && negb mb) rows.

(* what is wrong with one element, with inspect deciding the signatures; None in the outer
   option = the oracle rows are missing or disagree with the Spec *)
Definition elem_failure_inspect (c : case_t) (e : elem) : option (option fclass) :=
  let '(n, d, a) := e in
  match d, callee (c_vt c) (c_cand_is_type c) a with
  | DMethod i, Some (self_bound, raw) =>
      match lookup_rows n (c_oracle c) with
      | Some rows =>
          if rows_ok i self_bound raw rows
          then Some (if rows_fail rows then Some (FBrokenMethod n) else None)
          else None
      | None => None
      end
  | _, _ => Some (elem_failure (c_vt c) (c_cand_is_type c) e)
  end.

Fixpoint failures_inspect (c : case_t) (l : list elem) : option (list fclass) :=
  match l with
  | [] => Some []
  | e :: l' =>
      match elem_failure_inspect c e, failures_inspect c l' with
      | Some (Some f), Some fs => Some (f :: fs)
      | Some None, Some fs => Some fs
      | _, _ => None
      end
  end.

Definition count_f (x : fclass) (l : list fclass) : nat := length (filter (fclass_eqb x) l).
Definition same_multiset (l1 l2 : list fclass) : bool :=
  Nat.eqb (length l1) (length l2) && forallb (fun x => Nat.eqb (count_f x l1) (count_f x l2)) l1.

Definition fs_eqb (l1 l2 : list fclass) : bool :=
  Nat.eqb (length l1) (length l2) && forallb (fun p => fclass_eqb (fst p) (snd p)) (combine l1 l2).

(* the outcome the property demands for a list of individual failures *)
Definition outcome_matches (fs : list fclass) (o : outcome) : bool :=
  match o with
  | Ok => match fs with [] => true | _ => false end
  | Single e => match fs with [f] => fclass_eqb f (err_class e) | _ => false end
  | Multiple es => Nat.leb 2 (length es) && same_multiset fs (map err_class es)
  end.

Definition spec_out (c : case_t) : list fclass :=
  spec_failures (c_vt c) (c_tentative c) (c_declares c) (c_cand_is_type c) (c_elems c).

Definition check_spec (c : case_t) : bool :=
  c_order_ok c && Bool.eqb (c_declares c) (c_declares_obs c)
  && match c_out c, failures_inspect c (c_elems c) with
     | Some o, Some fi =>
         let fs := spec_out c in
         let fi' := (if negb (c_tentative c) && negb (c_declares c) then [FDoesNotImplement] else []) ++ fi in
         fs_eqb fs fi' && outcome_matches fs o
     | _, _ => false
     end.
