(* Tie for C11.
   Each case is one run of the ownership audit (harness/drivers/c11_driver.py): an entry point of a
   lookup object, a callback point out of the lookup code, what the callback did, and what was
   observed on the real implementation (C extension or PURE_PYTHON):
     owned    : after the callback re-entered changed(), every object the lookup code was in the
                middle of using still had a reference beyond the probe's own
     answer   : 0 = the value before the mutation, 1 = the value after it, 2 = something else,
                3 = the expected exception, 4 = another exception, 5 = SystemError (the C code carried
                on with an exception set: never acceptable)
     second   : an undisturbed second call returned the post-mutation value (no stale survivor)
     growth   : gc-object / reference-count growth over [repeat] further runs of the scenario

   check_model : what Model/Own.v predicts for TODAY'S skeleton.  In C mode the functions the entry
                 point runs through ([c_fns], indices into Gen/CSkeleton.v's [skeleton]) all satisfy
                 the discipline D  <->  the in-use objects are owned and nothing grows.  In Python
                 mode the frames of the reference implementation (below) satisfy D.
   check_spec  : the property itself, on the raw observations: owned, answer before-or-after (or the
                 callback's exception when it raises), no stale survivor, no growth. *)
From Coq Require Import List NArith ZArith Bool Arith.
Import ListNotations.
From ZI Require Export Model.Own.
From ZI Require Import Gen.CSkeleton.

Record case_t := mkCase {
  c_mode_c : bool;
  c_fns : list nat;
  c_py_entry : nat;
  c_fired : bool;
  c_owned : bool;
  c_answer : N;
  c_raises : bool;       (* the callback (or the argument) makes the call fail: an exception is a legitimate outcome *)
  c_second : bool;
  c_growth_objs : Z;
  c_growth_refs : Z;
  c_repeat : nat
}.

(* ---- the Python frames of adapter.py's LookupBase: every local owns what it points to *)
Definition py_getcache (cache : var) : path :=
  [EMayCall; ENewRef cache].                                       (* cache = self._getcache(provided, name) *)
Definition py_store (cache key val : var) : path :=
  [EUse cache; EUse key; EUse val; EKeyCall; EUse key; EUse cache; EStoreItem cache val; EMayCall].
Definition py_get_miss (cache key : var) : path :=
  [EUse cache; EUse key; EKeyCall; EUse key; EUse cache].

(* params: 0 = required, 1 = provided *)
Definition py_lookup : path :=
  py_getcache 4 ++ [EUse 0; EMayCall; EUse 0; ENewRef 5] ++ py_get_miss 4 5 ++
  [EUse 5; EUse 1; EMayCall; EUse 5; EUse 1; ENewRef 6] ++ py_store 4 5 6 ++
  [EDecref 4; EDecref 5; EReturn (Some 6)].
Definition py_lookup1 : path :=
  py_getcache 4 ++ py_get_miss 4 0 ++
  [EUse 0; EUse 1; EMayCall; EUse 0; EUse 1; ENewRef 6;            (* self.lookup((required,), ..) *)
   EDecref 4; EReturn (Some 6)].
Definition py_adapter_hook : path :=
  [EUse 0; EMayCall; EUse 0; ENewRef 5] ++                         (* required = providedBy(object) *)
  py_getcache 4 ++ py_get_miss 4 5 ++
  [EUse 5; EUse 1; EMayCall; EUse 5; EUse 1; ENewRef 6;            (* factory = self.lookup(..) *)
   EUse 6; EUse 0; EMayCall; EUse 6; EUse 0; ENewRef 7;            (* result = factory(object) *)
   EDecref 4; EDecref 5; EDecref 6; EReturn (Some 7)].
Definition py_lookupAll : path :=
  [EMayCall; ENewRef 4; EUse 0; EMayCall; EUse 0; ENewRef 5] ++ py_get_miss 4 5 ++
  [EUse 5; EUse 1; EMayCall; EUse 5; EUse 1; ENewRef 6] ++ py_store 4 5 6 ++
  [EDecref 4; EDecref 5; EReturn (Some 6)].
Definition py_changed : path := [EMayCall; EMayCall; EMayCall; EReturn None].   (* three .clear() calls *)

Definition py_frames : list path :=
  [py_lookup; py_lookup1; py_adapter_hook; py_lookupAll; py_lookupAll; py_changed].

Definition bad_fn : fn := mkFn 0 [] [[]].

(* the model's prediction: the code involved keeps to the discipline *)
Definition model_out (c : case_t) : bool :=
  if c_mode_c c then forallb (fun i => D_fn true (nth i skeleton bad_fn)) (c_fns c)
  else D true [0; 1] (nth (c_py_entry c) py_frames []).

Definition small (z : Z) : bool := (Z.abs z <=? 8)%Z.

Definition no_growth (c : case_t) : bool := small (c_growth_objs c) && small (c_growth_refs c).

(* a case whose callback did not run does not exercise its point: the tie is broken, nothing is
   known about the property from it *)
Definition check_model (c : case_t) : bool :=
  c_fired c && Bool.eqb (model_out c) (c_owned c && no_growth c).

Definition answer_ok (c : case_t) : bool :=
  match c_answer c with
  | 0%N | 1%N => true
  | 3%N | 4%N => c_raises c
  | _ => false
  end.

Definition check_spec (c : case_t) : bool :=
  negb (c_fired c) ||
  (c_owned c && answer_ok c && c_second c && no_growth c && (100 <=? c_repeat c)).
