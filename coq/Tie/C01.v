(* Tie for C01.  A case is a static interface DAG and a history; every step carries what the
   implementation did: an exception code (0 none, 1 ValueError, 2 TypeError, 3 AttributeError, 9 anything else) and, at the
   steps the generator chose to query, what every live instance and every class answered
   (optionally preceded by a query of the class OBJECTS alone, made before anything at that
   step computes implementedBy(cls): what a class provides must not depend on that).
   Sets of interfaces are bit masks (bit i = interface i).

   check_model : Model/Decl.v (the object of the theorems, eviction on) answers the same.
   check_spec  : the implementation's answers lie in the ledger sandwich of Spec/Provided.v,
                 replayed from the history alone (no specification objects, no cache), the
                 I.providedBy / I.implementedBy forms agree with the flattened forms,
                 directlyProvidedBy lies between kept and asked, and noLongerProvides raises
                 only if the interface may still be provided and succeeds only if it need
                 not be. *)
From Coq Require Import List Arith Bool.
Import ListNotations.
From ZI Require Export Lib.Util Model.Decl Spec.Provided.

(* instance: id, providedBy mask, I.providedBy mask, list(directlyProvidedBy) *)
Definition iobs := (obj * nat * nat * list iface)%type.
(* class: id, implementedBy mask, I.implementedBy mask, providedBy(cls) mask, I.providedBy(cls)
   mask, list(directlyProvidedBy(cls)) *)
Definition cobs := (cls * nat * nat * nat * nat * list iface)%type.
Definition qobs := (list iobs * list cobs)%type.
(* class object only, asked BEFORE anything that computes implementedBy(cls) at this step:
   id, providedBy(cls) mask, I.providedBy(cls) mask, list(directlyProvidedBy(cls)) *)
Definition cpobs := (cls * nat * nat * list iface)%type.
(* a super proxy super(B, x): the classes after B in the MRO of type(x) (CPython's), then the
   masks of implementedBy(proxy), providedBy(proxy), I.providedBy(proxy) *)
Definition sobs := (list cls * nat * nat * nat)%type.
Definition stepobs := (nat * option qobs * option (list cpobs) * list sobs)%type.
Definition case_t := (igraph * list (op * stepobs))%type.

(* bit 0 = ``Interface`` itself, implied by every specification: always set *)
Definition mask_of (l : list nat) : nat := fold_left (fun a i => Nat.lor a (Nat.shiftl 1 i)) l 1.
(* plain: for the lists of directly provided interfaces *)
Definition mask_list (l : list nat) : nat := fold_left (fun a i => Nat.lor a (Nat.shiftl 1 i)) l 0.
Definition in_mask (m x : nat) : bool := Nat.testbit m x.
Definition sub_mask (a b : nat) : bool := Nat.eqb (Nat.lor a b) b.
Definition all_ifaces (g : igraph) : list iface := seq 0 (length g).
Definition mask_by (g : igraph) (f : iface -> bool) : nat := mask_of (filter f (all_ifaces g)).

Definition live_ids (st : state) : list obj :=
  map fst (filter (fun p => i_live (snd p)) (combine (seq 0 (length (insts st))) (insts st))).
Definition class_ids (st : state) : list cls := seq 0 (length (classes st)).

Definition model_iobs (g : igraph) (st : state) (o : obj) : iobs :=
  (o, mask_of (provided g st (TInst o)), mask_by g (i_providedBy g st (TInst o)), dpb st (TInst o)).
Definition model_cobs (g : igraph) (st : state) (c : cls) : cobs :=
  (c, mask_of (implemented g st c), mask_by g (i_implementedBy g st c),
   mask_of (provided g st (TCls c)), mask_by g (i_providedBy g st (TCls c)), dpb st (TCls c)).
(* the model's answers for the instances / classes the implementation was asked about *)
Definition model_query (g : igraph) (st : state) (q : qobs) : qobs :=
  (map (fun a : iobs => let '(o, _, _, _) := a in model_iobs g st o) (fst q),
   map (fun a : cobs => let '(c, _, _, _, _, _) := a in model_cobs g st c) (snd q)).

Definition iobs_eqb (a b : iobs) : bool :=
  let '(o, p, ip, d) := a in let '(o', p', ip', d') := b in
  Nat.eqb o o' && Nat.eqb p p' && Nat.eqb ip ip' && lnat_eqb d d'.
Definition cobs_eqb (a b : cobs) : bool :=
  let '(c, i, ii, p, ip, d) := a in let '(c', i', ii', p', ip', d') := b in
  Nat.eqb c c' && Nat.eqb i i' && Nat.eqb ii ii' && Nat.eqb p p' && Nat.eqb ip ip' && lnat_eqb d d'.
Definition qobs_eqb (a b : qobs) : bool :=
  list_eqb iobs_eqb (fst a) (fst b) && list_eqb cobs_eqb (snd a) (snd b).

Definition model_cp (g : igraph) (st : state) (cp : list cpobs) : list cpobs :=
  map (fun a : cpobs => let '(c, _, _, _) := a in
         (c, mask_of (provided g st (TCls c)), mask_by g (i_providedBy g st (TCls c)), dpb st (TCls c))) cp.
Definition cpobs_eqb (a b : cpobs) : bool :=
  let '(c, p, ip, d) := a in let '(c', p', ip', d') := b in
  Nat.eqb c c' && Nat.eqb p p' && Nat.eqb ip ip' && lnat_eqb d d'.

Definition model_sobs (g : igraph) (st : state) (a : sobs) : sobs :=
  let '(rest, _, _, _) := a in
  let m := mask_of (super_implemented g st rest) in (rest, m, m, m).
Definition sobs_eqb (a b : sobs) : bool :=
  let '(r, x, y, z) := a in let '(r', x', y', z') := b in
  lnat_eqb r r' && Nat.eqb x x' && Nat.eqb y y' && Nat.eqb z z'.

Definition model_stepobs (g : igraph) (st st' : state) (o : op) (q : option qobs) (cp : option (list cpobs))
           (sp : list sobs) : stepobs :=
  (exc_code g st st' o, option_map (model_query g st') q, option_map (model_cp g st') cp,
   map (model_sobs g st') sp).

Fixpoint model_trace (g : igraph) (st : state) (h : list (op * stepobs)) : list stepobs :=
  match h with
  | [] => []
  | (o, (_, q, cp, sp)) :: h' =>
      let st' := step true g st o in
      model_stepobs g st st' o q cp sp :: model_trace g st' h'
  end.

Definition model_out (c : case_t) : list stepobs := model_trace (fst c) init (snd c).

Definition stepobs_eqb (a b : stepobs) : bool :=
  let '(e, q, cp, sp) := a in let '(e', q', cp', sp') := b in
  Nat.eqb e e' && option_eqb qobs_eqb q q' && option_eqb (list_eqb cpobs_eqb) cp cp' && list_eqb sobs_eqb sp sp'.

Definition check_model (c : case_t) : bool :=
  list_eqb stepobs_eqb (model_out c) (map snd (snd c)).

(* ---- the Spec oracle *)

Definition l_live_ids (L : ledger) : list obj :=
  map fst (filter (fun p => lo_live (snd p)) (combine (seq 0 (length (los L))) (los L))).

Definition within (lo hi : list iface) (m : nat) : bool :=
  forallb (in_mask m) lo && sub_mask m (mask_of hi).

Definition within_list (lo hi : list iface) (m : nat) : bool :=
  forallb (in_mask m) lo && sub_mask m (mask_list hi).

Fixpoint nodupb (l : list nat) : bool :=
  match l with [] => true | x :: t => negb (mem_nat x t) && nodupb t end.

Definition spec_iobs (g : igraph) (L : ledger) (a : iobs) : bool :=
  let '(o, p, ip, d) := a in
  let t := TInst o in
  within (lo_provided g L t) (hi_provided g L t) p
  && Nat.eqb ip p
  && within_list (lo_dpb L t) (hi_dpb L t) (mask_list d) && nodupb d.

Definition spec_cobs (g : igraph) (L : ledger) (a : cobs) : bool :=
  let '(c, i, ii, p, ip, d) := a in
  let t := TCls c in
  within (lo_implemented g L c) (hi_implemented g L c) i
  && Nat.eqb ii i
  && within (lo_provided g L t) (hi_provided g L t) p
  && Nat.eqb ip p
  && within_list (lo_dpb L t) (hi_dpb L t) (mask_list d) && nodupb d.

Definition spec_query (g : igraph) (L : ledger) (q : qobs) : bool :=
  forallb (fun a : iobs => let '(o, _, _, _) := a in mem_nat o (l_live_ids L)) (fst q)
  && forallb (fun a : cobs => let '(c, _, _, _, _, _) := a in Nat.ltb c (length (lcs L))) (snd q)
  && forallb (spec_iobs g L) (fst q) && forallb (spec_cobs g L) (snd q).

Definition spec_cp (g : igraph) (L : ledger) (cp : list cpobs) : bool :=
  forallb (fun a : cpobs => let '(c, _, _, _) := a in Nat.ltb c (length (lcs L))) cp
  && forallb (fun a => let '(c, p, ip, d) := a in
                       within (lo_provided g L (TCls c)) (hi_provided g L (TCls c)) p && Nat.eqb ip p
                       && within_list (lo_dpb L (TCls c)) (hi_dpb L (TCls c)) (mask_list d) && nodupb d) cp.

(* a super proxy reports what the rest of the MRO implements: the three forms agree and lie
   between the ledger's bounds for exactly those classes *)
Definition spec_sobs (g : igraph) (L : ledger) (a : sobs) : bool :=
  let '(rest, x, y, z) := a in
  forallb (fun c => Nat.ltb c (length (lcs L))) rest
  && within (flat_map (lo_implemented g L) rest) (flat_map (hi_implemented g L) rest) x
  && Nat.eqb y x && Nat.eqb z x.

Definition l_target_builtin (L : ledger) (t : target) : bool :=
  match t with
  | TCls c => lclass_builtin L c
  | TInst o => match nth_error (los L) o with Some r => lclass_builtin L (lo_cls r) | None => false end
  end.

Definition spec_exc (g : igraph) (L' : ledger) (o : op) (code : nat) : bool :=
  match decl_target o with
  | Some t =>
      if l_target_builtin L' t then Nat.eqb code (match t with TCls _ => 2 | TInst _ => 3 end)
      else match o with
           | NoLongerProvides t x =>
               match code with
               | 0 => negb (Nat.eqb x 0 || mem_nat x (lo_provided g L' t))
               | 1 => Nat.eqb x 0 || mem_nat x (hi_provided g L' t)
               | _ => false
               end
           | _ => Nat.eqb code 0
           end
  | None => Nat.eqb code 0
  end.

Fixpoint spec_trace (g : igraph) (L : ledger) (h : list (op * stepobs)) : bool :=
  match h with
  | [] => true
  | (o, (code, q, cp, sp)) :: h' =>
      let L' := lstep g L o in
      spec_exc g L' o code
      && match q with Some q => spec_query g L' q | None => true end
      && match cp with Some cp => spec_cp g L' cp | None => true end
      && forallb (spec_sobs g L') sp
      && spec_trace g L' h'
  end.

Definition check_spec (c : case_t) : bool := spec_trace (fst c) linit (snd c).
