(* Tie for C04.  A case is a registry history (Tie.RegCommon.hist_case): the observed
   specification graph, the interface flags, the operations and the implementation's answers.
     check_model : the shared model (Model/RegSys.run, whose lookups are Model.Adapter.uncached_lookup
                   behind the cache layer) gives the same answers, AND the observed world satisfies
                   the hypotheses of the C04 theorems (wf_world, root_everywhere) as booleans.
     check_spec  : brute-force oracle.  The history's NET registrations are replayed by a tiny
                   independent fold (no nested walk, no extendors, no counts, no caches); for every
                   lookup / lookup1 answer the set of applicable registrations over the registry's
                   C3 resolution order is enumerated, and the answer must be the value of a
                   candidate that is [preferred] (Spec/LookupSpec.v) to every candidate, or the
                   default when there is none.  [registered] answers are compared with the net map. *)
From Coq Require Import List Arith Bool.
Import ListNotations.
From ZI Require Export Tie.RegCommon.
From ZI Require Import Spec.LookupSpec.

(* A case = the phases of a history + one observed answer per registry op.  A phase is a stretch of the
   history during which the specification world did not change: its observed graph, the interface flags,
   the specifications changed IN PLACE to get there (classImplements & co on a class whose declaration is
   a required specification; none for the first phase) and its ops.  Static histories have one phase. *)
Definition phase := (graph * list bool * list spec * list rop)%type.
Definition case_t := (list phase * list (list nat))%type.

(* final state and answers of Model/RegSys on one phase *)
Fixpoint run_st (W : world) (s : sys) (ops : list rop) : sys * list (list nat) :=
  match ops with
  | [] => (s, [])
  | o :: ops' => let '(s', a) := step W call s o in let '(s'', l) := run_st W s' ops' in (s'', a :: l)
  end.

(* A specification changed in place calls changed() on everything that depends on it: the specifications
   extending it and, through them, every lookup object that subscribed to one of those
   (AdapterLookupBase._subscribe = the [c_required] of Model/Lookup.v); such a lookup object drops its
   caches and its subscriptions.  [W] is the world after the change. *)
Definition invalidate (W : world) (chg : list spec) (s : sys) : sys :=
  fold_left (fun s r =>
               if existsb (fun x => existsb (fun ch => mem ch (w_sro W x)) chg) (c_required (rs_caches (get s r)))
               then lookup_changed false s r else s)
            (seq 0 (length s)) s.

Fixpoint run_phases (s : sys) (ps : list phase) : list (list nat) :=
  match ps with
  | [] => []
  | (g, ifs, chg, ops) :: ps' =>
      let W := mk_world g ifs in
      let '(s', l) := run_st W (invalidate W chg s) ops in
      l ++ run_phases s' ps'
  end.

Definition model_out (c : case_t) : list (list nat) := run_phases [] (fst c).

(* ---- the theorems' hypotheses on the observed world *)
Fixpoint inclb (a b : list nat) : bool :=
  match a with [] => true | x :: a' => mem x b && inclb a' b end.

Definition world_wf_b (n : nat) (W : world) : bool :=
  forallb (fun x =>
             let s := w_sro W x in
             match s with y :: _ => Nat.eqb y x | [] => false end
             && nodup_b s && mem root s
             && forallb (fun y => inclb (w_sro W y) s) s)
          (seq 0 n).

Definition check_model (c : case_t) : bool :=
  llnat_eqb (model_out c) (snd c)
  && forallb (fun ph : phase => let '(g, ifs, _, _) := ph in world_wf_b (length g) (mk_world g ifs)) (fst c).

(* ---- independent net-effect replay *)
Definition nreg := (list nat * list (akey * value))%type.       (* __bases__, net registrations *)
Definition nstate := list nreg.

Definition n_get (s : nstate) (r : nat) : nreg := nth r s ([], []).
Fixpoint n_set (s : nstate) (r : nat) (x : nreg) : nstate :=
  match s, r with
  | [], _ => []
  | _ :: s', 0 => x :: s'
  | y :: s', S r' => y :: n_set s' r' x
  end.

Definition net_del (m : list (akey * value)) (k : akey) := filter (fun kv => negb (akey_eqb (fst kv) k)) m.
Definition net_put (m : list (akey * value)) (k : akey) (v : value) := net_del m k ++ [(k, v)].
Definition net_find (m : list (akey * value)) (k : akey) : option value :=
  match filter (fun kv => akey_eqb (fst kv) k) m with kv :: _ => Some (snd kv) | [] => None end.

Definition n_upd (s : nstate) (r : nat) (f : list (akey * value) -> list (akey * value)) : nstate :=
  let x := n_get s r in n_set s r (fst x, f (snd x)).

Definition net_step (s : nstate) (o : rop) : nstate :=
  match o with
  | ONewReg _ bs => s ++ [(bs, [])]
  | OSetRegBases r bs => n_set s r (bs, snd (n_get s r))
  | ORegister r req p n (Some v) => n_upd s r (fun m => net_put m (map conv req, p, n) v)
  | ORegister r req p n None => n_upd s r (fun m => net_del m (map conv req, p, n))
  | OUnregister r req p n None => n_upd s r (fun m => net_del m (map conv req, p, n))
  | OUnregister r req p n (Some v) =>
      n_upd s r (fun m => match net_find m (map conv req, p, n) with
                          | Some old => if Nat.eqb (vid old) (vid v) then net_del m (map conv req, p, n) else m
                          | None => m
                          end)
  | _ => s
  end.

(* the registry's resolution order: C3 over the current __bases__ *)
Definition n_ro (s : nstate) (r : nat) : list nat :=
  match Ro.ro false false (S (length s)) (combine (seq 0 (length s)) (map fst s)) r with
  | ROk m _ => m
  | _ => [r]
  end.

(* ---- the Spec, as booleans *)
Fixpoint forall2b {A B} (f : A -> B -> bool) (a : list A) (b : list B) : bool :=
  match a, b with
  | [], [] => true
  | x :: a', y :: b' => f x y && forall2b f a' b'
  | _, _ => false
  end.

Fixpoint lex_ltb (a b : list nat) : bool :=
  match a, b with
  | x :: a', y :: b' => Nat.ltb x y || (Nat.eqb x y && lex_ltb a' b')
  | _, _ => false
  end.

Definition cand := (nat * (akey * value))%type.     (* index of the registry in ro, registration *)

Definition applicable_b (W : world) (looked : list spec) (asked : spec) (nm : name) (kv : akey * value) : bool :=
  let '(req, p, n) := fst kv in
  Nat.eqb n nm && forall2b (fun l r => isOrExtends W l r) looked req && isOrExtends W p asked.

Definition preferred_b (W : world) (looked : list spec) (w c : cand) : bool :=
  let '(iw, ((reqw, pw, _), _)) := w in
  let '(ic, ((reqc, pc, _), _)) := c in
  lex_ltb (rank W looked iw reqw) (rank W looked ic reqc)
  || (Nat.eqb iw ic && lspec_eqb reqw reqc
      && negb (isOrExtends W pw pc && negb (isOrExtends W pc pw))).

Definition candidates (W : world) (s : nstate) (r : nat) (looked : list spec) (asked : spec) (nm : name) : list cand :=
  let ro := n_ro s r in
  flat_map (fun ir => map (fun kv => (fst ir, kv))
                          (filter (applicable_b W looked asked nm) (snd (n_get s (snd ir)))))
           (combine (seq 0 (length ro)) ro).

Definition lookup_ok (W : world) (s : nstate) (r : nat) (looked : list spec) (asked : spec) (nm : name_arg)
           (a : list nat) : bool :=
  match nm with
  | NotAString => lnat_eqb a [2]
  | NStr n =>
      let cs := candidates W s r looked asked n in
      match cs with
      | [] => lnat_eqb a [0]
      | _ => match a with
             | [1; v] => existsb (fun w => Nat.eqb (vid (snd (snd w))) v && forallb (preferred_b W looked w) cs) cs
             | _ => false
             end
      end
  end.

Definition answer_ok (W : world) (s : nstate) (o : rop) (a : list nat) : bool :=
  match o with
  | QLookup r req p n => lookup_ok W s r req p n a
  | QLookup1 r req p n => lookup_ok W s r [req] p n a
  | QRegistered r req p n =>
      match net_find (snd (n_get s r)) (map conv req, p, n) with
      | Some v => lnat_eqb a [vid v]
      | None => lnat_eqb a []
      end
  | _ => true
  end.

(* one phase: answers judged in the world of the phase; the net registrations and the rest of the
   observations are threaded on *)
Fixpoint spec_run (W : world) (s : nstate) (ops : list rop) (obs : list (list nat))
  : bool * nstate * list (list nat) :=
  match ops with
  | [] => (true, s, obs)
  | o :: ops' =>
      match obs with
      | [] => (false, s, [])
      | a :: obs' => let '(b, s', r) := spec_run W (net_step s o) ops' obs' in (answer_ok W s o a && b, s', r)
      end
  end.

Fixpoint spec_phases (s : nstate) (ps : list phase) (obs : list (list nat)) : bool :=
  match ps with
  | [] => match obs with [] => true | _ => false end
  | (g, ifs, _, ops) :: ps' =>
      let '(b, s', r) := spec_run (mk_world g ifs) s ops obs in b && spec_phases s' ps' r
  end.

Definition check_spec (c : case_t) : bool := spec_phases [] (fst c) (snd c).
