(* Tie for C14: one case = an interface chain, an object behaviour, and what the implementation
   did for `I(obj[, alternate])` and for `I.__adapt__(obj)`: the log of external steps (recorded by
   side-effecting __conform__ / __providedBy__ access / hooks / custom __adapt__) and the outcome.
   check_model : the model of the implementation in use (c_call / py_call, the objects of the
                 theorems) gives the same log and outcome.
   check_spec  : log and outcome are those of the PEP 246 precedence (Spec/Pep246.v: first step
                 that does not pass) — computed from the behaviours alone. *)
From Coq Require Import List Bool Arith.
Import ListNotations.
From ZI Require Export Lib.Util Model.Adapt Spec.Pep246.

(* use_c, chain, behaviour,
   (conform-call observable, hook calls observable, provided-check observable,
    read of __conform__ observable, driver-side argument/identity checks ok),
   observed I(obj[, alt]) = (log, outcome)   [an unrecognised result is sent as RaiseE InterpTE0],
   observed I.__adapt__(obj) = (log, result) [None if not observed; unrecognised = Raise InterpTE0],
   a nested adaptation J(other, None) started from inside a hook of this call, J a plain interface:
   the behaviour of [other] / of the hooks at depth 1 and the observed (log, outcome) [None if none ran] *)
Definition case_t :=
  (bool * list lvl * obj * (bool * bool * bool * bool * bool) * (list ev * outcome)
   * option (list ev * res (option value)) * option (obj * (list ev * outcome)))%type.

(* steps whose execution the driver could not instrument (the body of an unbound __conform__
   never runs; a real registry hook is a C method and computes providedBy(obj) itself; an object
   whose class keeps the generic attribute lookup cannot log attribute reads) are dropped from
   the expected log *)
Definition visible (vc vh vp vg : bool) (e : ev) : bool :=
  match e with
  | EvCallConform => vc | EvHook _ => vh | EvProvided => vp | EvGetConform => vg
  | EvCustom _ | EvCustomProv _ => true
  end.

Definition log_eqb := list_eqb ev_eqb.

Definition model_out (c : case_t) : (list ev * outcome) * (list ev * res (option value)) :=
  let '(uc, chain, o, _, _, _, _) := c in
  let k := type_of_chain true chain in
  if uc then (c_call k o, c_adapt k o) else (py_call k o, py_adapt k o).

Definition check_model (c : case_t) : bool :=
  let '(uc, chain, o, (vc, vh, vp, vg, _), (olog, oout), oadapt, onested) := c in
  let '((mlog, mout), (alog, ares)) := model_out c in
  log_eqb (filter (visible vc vh vp vg) mlog) olog && outcome_eqb mout oout
  && match oadapt with
     | None => true
     | Some (l, r) => log_eqb (filter (visible vc vh vp vg) alog) l && ares_eqb ares r
     end
  && match onested with
     | None => true
     | Some (o', (l, r)) =>
         let (nl, nr) := (if uc then c_call else py_call) (type_of_chain true []) o' in
         log_eqb nl l && outcome_eqb nr r
     end.

(* what I.__adapt__(obj) must return for a spec verdict *)
Definition sres_matches (s : sres) (a : res (option value)) : bool :=
  match s, a with
  | Pass, Ok None => true
  | Yield ReturnObj, Ok (Some VObj) => true
  | Yield (Return v), Ok (Some (VVal w)) => Nat.eqb v w
  | Yield (RaiseE x), Raise y => raised_eqb x y
  | _, _ => false
  end.

Definition check_spec (c : case_t) : bool :=
  let '(_, chain, o, (vc, vh, vp, vg, ok), (olog, oout), oadapt, onested) := c in
  let (slog, sout) := spec chain o in
  ok
  && log_eqb (filter (visible vc vh vp vg) slog) olog && outcome_eqb sout oout
  && match oadapt with
     | None => true
     | Some (l, r) =>
         let (alog, ares) := spec_adapt chain o in
         log_eqb (filter (visible vc vh vp vg) alog) l && sres_matches ares r
     end
  (* the nested call is an adaptation like any other: same precedence, its own arguments *)
  && match onested with
     | None => true
     | Some (o', (l, r)) => let (nl, nr) := spec [] o' in log_eqb nl l && outcome_eqb nr r
     end.
