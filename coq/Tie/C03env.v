(* Fourth tie for C03: the process-wide settings versus explicit arguments.  The process runs with
   ZOPE_INTERFACE_STRICT_IRO=1 (env = 1) or ZOPE_INTERFACE_USE_LEGACY_IRO=1 (env = 2); hierarchies
   (plain stand-in objects with __bases__, or interfaces whose inconsistent __bases__ got in through
   an assignment that raised) are asked, per node:
     explicit non-strict  ro.ro(n, strict=False, use_legacy_ro=False)     None = raised
     explicit strict      ro.ro(n, strict=True,  use_legacy_ro=False)     None = raised
     default              ro.ro(n)                                        None = raised
     ro.is_consistent(n)                                                  None = raised
   Spec: explicit arguments win over the environment; is_consistent never raises and answers
   exactly "a C3 linearization exists"; the default follows the environment. *)
From Coq Require Import List Arith Bool.
Import ListNotations.
From ZI Require Export Lib.Util Model.Ro Spec.C3.

Definition obs_t := (nat * option (list nat) * option (list nat) * option (list nat) * option bool)%type.
(* env, graph, ranks, observations *)
Definition case_t := (nat * graph * list nat * list obs_t)%type.

Definition rank_of (ranks : list nat) (x : nat) : nat := nth x ranks 0.
Definition fuel_of (ranks : list nat) : nat := S (fold_right Nat.max 0 ranks).
Definition olist_eqb (a b : option (list nat)) : bool := option_eqb lnat_eqb a b.

Definition out_of (r : rres) : option (option (list nat)) :=
  match r with RRaise => Some None | ROk m _ => Some (Some m) | RFuel => None end.

Definition model_node (env : nat) (g : graph) (fuel : nat) (x : nat) :=
  (x, out_of (ro false false fuel g x), out_of (ro true false fuel g x),
   out_of (match env with 1 => ro true false fuel g x | 2 => ro false true fuel g x | _ => ro false false fuel g x end),
   is_consistent fuel g x).

Definition model_out (c : case_t) :=
  let '(env, g, ranks, obs) := c in
  map (fun o : obs_t => let '(x, _, _, _, _) := o in model_node env g (fuel_of ranks) x) obs.

Definition check_model (c : case_t) : bool :=
  let '(env, g, ranks, obs) := c in
  wfb (rank_of ranks) g &&
  forallb (fun o : obs_t =>
     let '(x, ns, st, df, consi) := o in
     let '(_, m_ns, m_st, m_df, m_consi) := model_node env g (fuel_of ranks) x in
     option_eqb olist_eqb m_ns (Some ns) && option_eqb olist_eqb m_st (Some st)
     && option_eqb olist_eqb m_df (Some df)
     && match m_consi, consi with Some a, Some b => Bool.eqb a b | _, _ => false end) obs.

Definition check_spec (c : case_t) : bool :=
  let '(env, g, ranks, obs) := c in
  let B := bases g in
  let fuel := fuel_of ranks in
  wfb (rank_of ranks) g &&
  forallb (fun o : obs_t =>
     let '(x, ns, st, df, consi) := o in
     let c3 := c3_lin B fuel x in
     (* explicit strict=False never raises and is a valid linearization, the C3 one if it exists *)
     match ns with
     | Some l => linb B fuel x l && match c3 with Some l' => lnat_eqb l l' | None => true end
     | None => false
     end
     (* explicit strict=True: the C3 order, or the error exactly when there is none *)
     && olist_eqb st c3
     (* the default follows the environment *)
     && match env with
        | 1 => olist_eqb df c3
        | 2 => match df with Some l => linb B fuel x l | None => false end
        | _ => olist_eqb df ns
        end
     (* is_consistent never raises and answers "a C3 order exists" *)
     && match consi, c3 with
        | Some true, Some _ => true
        | Some false, None => true
        | _, _ => false
        end) obs.
