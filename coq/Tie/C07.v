(* Tie for C07.  A case = (initial spec graph, interface flags, history, observed answers).  The
   history is in the op language of Model/CacheSys.v: every registry operation of Model/RegSys.v
   (CReg) plus re-basing of a specification (CSetSpecBases: ``x.__bases__ = ...`` on an interface,
   classImplements on a class), so that the specification world may CHANGE between queries; a
   static-world history simply has no CSetSpecBases.
   check_model : Model/CacheSys.crun_fast (= crun, Proofs/CacheSys.v crun_fast_eq; RegSys.step over
                 Model/Adapter.v storage + walkers, the object of the theorems of
                 Properties/C07.v, in the world of the current graph) gives the same answers as
                 the implementation.
   check_spec  : the implementation's answers are judged directly against the ledger Spec
                 (Spec/SubsSpec.v), WITHOUT Model/Adapter's storage functions or walkers: the
                 history is replayed into one ledger per registry (lstep), the registry
                 resolution order is recomputed with Model.Ro.ro from the CURRENT __bases__, and
                 for every ``subscriptions`` query the expected answer is computed by brute force:
                 filter the applicable ledger entries, stable-sort them by generality rank; the
                 observed list must be, registry by registry (bases first) and rank by rank, a
                 concatenation of the per-provided groups (each in ledger order) in some order of
                 the provided interfaces — the one freedom the property leaves.
                 ``subscribed`` / ``allSubscriptions`` are compared with the ledger;
                 ``subscribers`` must call exactly such a list and return the non-None results.
                 The world used for a query is recomputed (Model.Ro.fresh_sro) from the graph as it
                 is AT THAT QUERY; caches are no part of the Spec, so a stale cached answer (after
                 a registry or specification change) is a contradiction with a concrete input. *)
From Coq Require Import List Arith Bool.
Import ListNotations.
From ZI Require Export Tie.RegCommon Model.CacheSys.
From ZI Require Import Spec.SubsSpec.

Definition case_t := (graph * list bool * list cop * list (list nat))%type.

(* The shared interpreter separates results from called values in a ``subscribers`` answer by
   999999; a unary nat of that size costs ~25 MB per occurrence in a case file, so the harness
   writes the separator as 0 in the observations (results are >= 1000 and value ids >= 1, so 0
   is unambiguous) and the model's answers are mapped the same way before comparison. *)
Definition MARK : nat := 999999.
Definition demark (a : list nat) : list nat := map (fun x => if Nat.eqb x MARK then 0 else x) a.
Definition model_out (c : case_t) : list (list nat) :=
  let '(g, ifs, ops, _) := c in map demark (crun_fast call (mkCS g ifs []) ops).
Definition check_model (c : case_t) : bool :=
  let '(_, _, _, obs) := c in llnat_eqb (model_out c) obs.

(* ---- Spec state: per registry its ledger and its current __bases__ *)
Definition sstate := list (ledger * list nat).

Definition spec_ro (st : sstate) (r : nat) : list nat :=
  match Ro.ro false false (S (length st)) (combine (seq 0 (length st)) (map snd st)) r with
  | ROk m _ => m
  | _ => [r]
  end.

Fixpoint upd_nth {A} (l : list A) (i : nat) (f : A -> A) : list A :=
  match l, i with
  | [], _ => []
  | x :: l', 0 => f x :: l'
  | x :: l', S i' => x :: upd_nth l' i' f
  end.

Definition led_of (st : sstate) (r : nat) : ledger := fst (nth r st ([], [])).

(* ---- brute-force expected answer *)
Definition lnat_eqb' := list_eqb Nat.eqb.

(* consecutive runs of equal sort key *)
Fixpoint group_runs {A} (l : list (list nat * A)) : list (list nat * list A) :=
  match l with
  | [] => []
  | (k, a) :: l' =>
      match group_runs l' with
      | (k', g) :: rest => if lnat_eqb' k k' then (k, a :: g) :: rest else (k, [a]) :: (k', g) :: rest
      | [] => [(k, [a])]
      end
  end.

Fixpoint dedupe (l : list (option spec)) : list (option spec) :=
  match l with
  | [] => []
  | x :: l' => x :: filter (fun y => negb (ospec_eqb x y)) (dedupe l')
  end.

(* the runs (one per required key, least specific first) of one registry; each run is split into
   its per-provided groups of value ids, each group in ledger order *)
Definition expected_groups (W : world) (L : ledger) (req : list spec) (p : option spec)
  : list (list (list nat)) :=
  let app := filter (applicable W req p) L in
  let sorted := sort_by_key (map (fun e : entry => (rank W req (fst (fst e)), (snd (fst e), vid (snd e)))) app) in
  map (fun run : list nat * list (option spec * nat) =>
         map (fun q => map snd (filter (fun x => ospec_eqb (fst x) q) (snd run)))
             (dedupe (map fst (snd run))))
      (group_runs sorted).

Fixpoint strip (g obs : list nat) : option (list nat) :=
  match g, obs with
  | [], _ => Some obs
  | x :: g', y :: obs' => if Nat.eqb x y then strip g' obs' else None
  | _ :: _, [] => None
  end.

Fixpoint remove_nth {A} (i : nat) (l : list A) : list A :=
  match l, i with
  | [], _ => []
  | _ :: l', 0 => l'
  | x :: l', S i' => x :: remove_nth i' l'
  end.

(* is [seg] a concatenation of all the groups in some order? (backtracking; fuel = #groups) *)
Fixpoint match_groups (fuel : nat) (groups : list (list nat)) (seg : list nat) : bool :=
  match groups with
  | [] => match seg with [] => true | _ => false end
  | _ =>
      match fuel with
      | 0 => false
      | S f => existsb (fun i => match strip (nth i groups []) seg with
                                 | Some rest => match_groups f (remove_nth i groups) rest
                                 | None => false
                                 end) (seq 0 (length groups))
      end
  end.

(* consume the runs from the front of the observation; None = mismatch *)
Fixpoint consume (runs : list (list (list nat))) (obs : list nat) : option (list nat) :=
  match runs with
  | [] => Some obs
  | groups :: runs' =>
      let n := fold_right (fun g acc => length g + acc) 0 groups in
      if match_groups (length groups) groups (firstn n obs) && Nat.eqb (length (firstn n obs)) n
      then consume runs' (skipn n obs) else None
  end.

Definition subscriptions_ok (W : world) (st : sstate) (r : nat) (req : list spec) (p : option spec)
           (obs : list nat) : bool :=
  let runs := flat_map (fun i => expected_groups W (led_of st i) req p) (rev (spec_ro st r)) in
  match consume runs obs with Some [] => true | _ => false end.

Fixpoint split_at_mark (l : list nat) : option (list nat * list nat) :=
  match l with
  | [] => None
  | x :: l' => if Nat.eqb x 0 then Some ([], l')
               else match split_at_mark l' with Some (a, b) => Some (x :: a, b) | None => None end
  end.

(* ---- one step of the Spec replay: new state, and whether the observed answer is acceptable *)
Definition spec_step (W : world) (st : sstate) (o : rop) (a : list nat) : sstate * bool :=
  match o with
  | ONewReg _ bs => (st ++ [([], bs)], true)
  | OSetRegBases r bs => (upd_nth st r (fun x => (fst x, bs)), true)
  | OSubscribe r req p v => (upd_nth st r (fun x => (lstep (fst x) (SSub req p v), snd x)), true)
  | OUnsubscribe r req p v => (upd_nth st r (fun x => (lstep (fst x) (SUnsub req p v), snd x)), true)
  | QSubscriptions r req p => (st, subscriptions_ok W st r req p a)
  | QSubscribed r req p v =>
      (st, lnat_eqb' a [if existsb (fun x => v_eq x v) (lvals (led_of st r) (map conv req, p)) then 1 else 0])
  | QAllSubscriptions r => (st, lnat_eqb' a (enc_allsubs (led_of st r)))
  | QSubscribers r os p =>
      (st, match split_at_mark a with
           | None => false
           | Some (results, called) =>
               subscriptions_ok W st r (map o_provides os) p called
               && lnat_eqb' results
                    (match p with
                     | None => []
                     | Some _ => flat_map (fun i => match call (mkV i 0) (map o_id os) with
                                                    | Some x => [x] | None => [] end) called
                     end)
           end)
  | _ => (st, true)      (* adapter registrations, rebuild(), other queries: not C07's subject *)
  end.

Fixpoint spec_run (ifs : list bool) (g : graph) (W : world) (st : sstate) (ops : list cop)
         (obs : list (list nat)) : bool :=
  match ops, obs with
  | [], [] => true
  | CReg o :: ops', a :: obs' =>
      let '(st', ok) := spec_step W st o a in ok && spec_run ifs g W st' ops' obs'
  | CSetSpecBases x bs :: ops', a :: obs' =>
      let g' := set_spec_bases g x bs in
      match a with [] => spec_run ifs g' (world_of g' ifs) st ops' obs' | _ => false end
  | _, _ => false
  end.

Definition check_spec (c : case_t) : bool :=
  let '(g, ifs, ops, obs) := c in spec_run ifs g (world_of g ifs) [] ops obs.

(* diagnostics: index of the first op whose answer the Spec rejects (length = none) *)
Fixpoint spec_first_bad (ifs : list bool) (g : graph) (W : world) (st : sstate) (ops : list cop)
         (obs : list (list nat)) (i : nat) : nat :=
  match ops, obs with
  | CReg o :: ops', a :: obs' => let '(st', ok) := spec_step W st o a in
                                 if ok then spec_first_bad ifs g W st' ops' obs' (S i) else i
  | CSetSpecBases x bs :: ops', a :: obs' =>
      let g' := set_spec_bases g x bs in spec_first_bad ifs g' (world_of g' ifs) st ops' obs' (S i)
  | _, _ => i
  end.
Definition first_bad (c : case_t) : nat :=
  let '(g, ifs, ops, obs) := c in spec_first_bad ifs g (world_of g ifs) [] ops obs 0.
