(* Tie for C13.  One case = a generated module (interfaces, classes, instances), a history of
   declaration operations, and for every picklable item what the implementation did:
     - its __reduce__ value, canonicalised to a [reduced] term,
     - list(spec) / list(spec.flattened()) before pickling,
     - per pickle protocol, in the same process ("live") and in a freshly started process that
       imports the generated module again ("xproc"): did dumps+loads succeed, is the result the
       identical object, ==, hash equality, list(spec), flattened, and how many opcodes / strings /
       global references of the payload fall outside the by-name whitelist.
   check_model : the model (Model/Pickle.v: run, reduce_*, rebuild) predicts reduce value, identity
                 and interface lists.
   check_spec  : the raw observations satisfy the property statement (identity for interfaces,
                 classes and class specifications, equal and hash-equal; same interfaces for
                 provides-declarations and declared objects; only names in the payload; every
                 protocol 0..5 covered; for every history the unpickled instance declaration provides at
                 least what the original does and nothing but what was named for the instance or is
                 implemented by its class now).  It never calls reduce / rebuild; run is used only to
                 decide where identity is demanded (model_shared). *)
From Coq Require Import List NArith ZArith Bool Arith.
From Coq Require Export Strings.String.   (* generated case files spell names as "..."%string *)
Import ListNotations.
From ZI Require Export Lib.Str Lib.Util Model.Pickle.
Local Open Scope nat_scope.

Inductive item :=
| ItIface (i : nat)     (* the interface *)
| ItClass (c : nat)     (* the class (an object carrying a class-provides declaration) *)
| ItImpl (c : nat)      (* implementedBy(class) *)
| ItCProv (c : nat)     (* class.__provides__ *)
| ItProv (o : nat)      (* instance.__provides__ *)
| ItInst (o : nat).     (* the instance *)

Record obs := mkObs {
  ob_protos : list nat;   (* the protocols that gave exactly this observation *)
  ob_ok : bool;           (* dumps and loads raised nothing *)
  ob_same : bool;         (* result is the original / is the other process's live object *)
  ob_eq : bool;
  ob_hash : bool;
  ob_after : list nat;    (* list(spec) resp. list(providedBy(instance)) of the result *)
  ob_fafter : list nat;   (* list(spec.flattened()) of the result *)
  ob_struct : bool;       (* instances: identical class, equal plain attributes; otherwise true *)
  ob_badops : nat         (* payload opcodes / strings / globals outside the by-name whitelist *)
}.

Record item_obs := mkItem {
  io_item : item;
  io_reduce : reduced;
  io_before : list nat;
  io_fbefore : list nat;
  io_live : list obs;
  io_xproc : list obs
}.

Definition case_t := (world * list op * list item_obs)%type.

(* compact spelling of an ASCII global name in generated case files *)
Definition gn (m n : string) : gname := (str_of_string m, str_of_string n).

Definition fuel_of (w : world) : nat := List.length (w_ifaces w) + List.length (w_classes w) + 2.

(* ------------------------------------------------------------------ model side *)

Fixpoint reduced_eqb (a b : reduced) {struct a} : bool :=
  match a, b with
  | ByName g, ByName h => gname_eqb g h
  | RNone, RNone => true
  | RInt x, RInt y => Z.eqb x y
  | Call f l, Call g m =>
      fn_eqb f g &&
      (fix go (l m : list reduced) {struct l} : bool :=
         match l, m with
         | [], [] => true
         | x :: l', y :: m' => reduced_eqb x y && go l' m'
         | _, _ => false
         end) l m
  | _, _ => false
  end.

(* the original object and its reduction, in state st *)
Definition model_item (w : world) (st : state) (it : item) : option (obj * reduced) :=
  match it with
  | ItIface i => Some (OIface i, reduce_iface w i)
  | ItClass c => Some (OClass c, reduce_class w c)
  | ItImpl c => Some (OImpl c, reduce_impl w (get_impl w st c))
  | ItCProv c =>
      match assoc_nat c (st_cprov_of st) with
      | Some q => match nth_error (st_cprovs st) q with
                  | Some qr => Some (OCProv q, reduce_cprov w qr)
                  | None => None
                  end
      | None => None
      end
  | ItProv o =>
      match nth_error (st_insts st) o with
      | Some io => match in_provides io with
                   | Some p => match nth_error (st_provs st) p with
                               | Some pr => Some (OProv p, reduce_prov w pr)
                               | None => None
                               end
                   | None => None
                   end
      | None => None
      end
  | ItInst o =>
      match nth_error (st_insts st) o with
      | Some io => Some (OInst o, reduce_inst w st io)
      | None => None
      end
  end.

Definition model_list (fuel : nat) (w : world) (st : state) (x : obj) : list nat :=
  match x with
  | OInst o => match nth_error (st_insts st) o with
               | Some io => inst_provided fuel w st io
               | None => []
               end
  | _ => obj_interfaces fuel w st x
  end.

(* has identity across processes (importable by name, or cached in its class) *)
Definition named_item (it : item) : bool :=
  match it with ItIface _ | ItClass _ | ItImpl _ => true | _ => false end.

(* (reduce, before, live: same/after, xproc: same/after) *)
Definition model_one (w : world) (ops : list op) (it : item)
  : option (reduced * list nat * (bool * list nat) * (bool * list nat)) :=
  let fuel := fuel_of w in
  let st := run fuel w ops in
  match model_item w st it with
  | None => None
  | Some (x, red) =>
      let before := model_list fuel w st x in
      let '(st1, r1) := rebuild fuel w st red in
      let st2 := run fuel w (filter is_class_op ops) in
      let '(st3, r3) := rebuild fuel w st2 red in
      match r1, r3 with
      | Some y1, Some y3 =>
          (* instances: "same" = the new instance carries the identical declaration object (or none) *)
          let same1 := match it, y1 with
                       | ItInst o, OInst o' =>
                           option_eqb (option_eqb Nat.eqb)
                             (option_map in_provides (nth_error (st_insts st1) o'))
                             (option_map in_provides (nth_error (st_insts st) o))
                       | _, _ => obj_eqb y1 x
                       end in
          Some (red, before, (same1, model_list fuel w st1 y1),
                (named_item it && obj_eqb y3 x, model_list fuel w st3 y3))
      | _, _ => None
      end
  end.

Definition model_out (c : case_t) :=
  let '(w, ops, items) := c in map (fun io => model_one w ops (io_item io)) items.

Definition obs_matches (named : bool) (m : bool * list nat) (o : obs) : bool :=
  ob_ok o && (if named then Bool.eqb (ob_same o) (fst m) else true) && lnat_eqb (ob_after o) (snd m).

Definition check_model (c : case_t) : bool :=
  let '(w, ops, items) := c in
  forallb (fun io =>
    match model_one w ops (io_item io) with
    | None => false
    | Some (red, before, live, xp) =>
        reduced_eqb red (io_reduce io)
        && lnat_eqb before (io_before io)
        && forallb (obs_matches true live) (io_live io)
        && forallb (obs_matches (named_item (io_item io)) xp) (io_xproc io)
    end) items.

(* ------------------------------------------------------------------ Spec oracle *)

Definition all_protocols (l : list obs) : bool :=
  forallb (fun p => existsb (fun o => mem_nat p (ob_protos o)) l) [0; 1; 2; 3; 4; 5].

Definition is_inst_op (x : op) : bool :=
  match x with OpDirectlyProvides _ _ | OpAlsoProvides _ _ | OpNoLongerProvides _ _ => true | _ => false end.
Definition is_decl_op (x : op) : bool :=
  match x with
  | OpClassImplements _ _ | OpClassImplementsOnly _ _ | OpClassImplementsFirst _ _ => true
  | _ => false
  end.

(* the module discipline: classes are declared before instances receive declarations.  Only then
   is an instance's provides-declaration guaranteed to describe the present class.  Otherwise it
   may be stale (the subject of property C01; since the C01 repair a stale declaration is no longer
   shared, so unpickling -- in the same or another process -- builds the current one, whose
   list(spec) legitimately differs from the stale original's).  For such histories the lists of
   instance declarations are not judged here; the model still predicts them exactly. *)
Fixpoint module_ordered (seen_inst : bool) (ops : list op) : bool :=
  match ops with
  | [] => true
  | x :: l =>
      if is_inst_op x then module_ordered true l
      else if is_decl_op x && seen_inst then false
      else module_ordered seen_inst l
  end.

Definition same_lists (io : item_obs) (o : obs) : bool :=
  lnat_eqb (ob_after o) (io_before io) && lnat_eqb (ob_fafter o) (io_fbefore io).

(* is the instance's declaration still shared (the weak cache maps its arguments to it)?  Computed
   with the model's run: used ONLY to decide where identity is demanded of the implementation
   (theorems C13_provides_roundtrip_identity_shared / _live), never to excuse an observation *)
Definition model_shared (w : world) (ops : list op) (it : item) : bool :=
  let st := run (fuel_of w) w ops in
  match it with
  | ItProv o | ItInst o =>
      match nth_error (st_insts st) o with
      | Some io =>
          match in_provides io with
          | Some p => match nth_error (st_provs st) p with
                      | Some pr => option_eqb Nat.eqb (assoc_key (pv_cls pr, pv_ifaces pr) (st_cache st)) (Some p)
                      | None => false
                      end
          | None => true
          end
      | None => false
      end
  | _ => false
  end.

Definition spec_live (ordered : bool) (io : item_obs) (o : obs) : bool :=
  ob_ok o && Nat.eqb (ob_badops o) 0 &&
  match io_item io with
  | ItIface _ | ItClass _ => ob_same o && ob_eq o && ob_hash o
  | ItImpl _ => ob_same o && ob_eq o && ob_hash o && same_lists io o
  | ItCProv _ => same_lists io o
  (* still shared (always so after a module-ordered history): the identical object comes back,
     hence == and hash-equal and the same interfaces *)
  | ItProv _ => (if ordered then ob_same o && ob_eq o && ob_hash o && same_lists io o else true)
                && (if ob_same o then ob_eq o && ob_hash o && same_lists io o else true)
  (* ob_same of an instance: the new instance carries the identical declaration object (or none) *)
  | ItInst _ => ob_struct o && (if ordered then ob_same o && same_lists io o else true)
  end.

Definition spec_xproc (ordered : bool) (io : item_obs) (o : obs) : bool :=
  ob_ok o &&
  match io_item io with
  | ItIface _ | ItClass _ => ob_same o
  | ItImpl _ => ob_same o && same_lists io o
  | ItCProv _ => same_lists io o
  | ItProv _ => if ordered then same_lists io o else true
  | ItInst _ => ob_struct o && (if ordered then same_lists io o else true)
  end.

(* ---- bounds that hold for EVERY history, also when a class was re-declared after its instances
   were: what the unpickled declaration / object provides (flattened)
     - includes everything the original provides at round-trip time, and
     - beyond that is made of names only: the interfaces some directlyProvides / alsoProvides call
       named for this very instance (and what those extend), plus what its class implements NOW --
       never a snapshot of what the class implemented earlier that the original does not provide
       either ("stores only names, never the definition").
   Computed from the history text and the observed flattened() of the class specification. *)
Definition subset (a b : list nat) : bool := forallb (fun x => mem_nat x b) a.

Definition named_for (o : nat) (ops : list op) : list nat :=
  flat_map (fun x => match x with
                     | OpDirectlyProvides o' is | OpAlsoProvides o' is => if Nat.eqb o o' then is else []
                     | _ => []
                     end) ops.

Definition class_flattened (items : list item_obs) (c : nat) : list nat :=
  flat_map (fun io => match io_item io with
                      | ItImpl c' => if Nat.eqb c c' then io_fbefore io else []
                      | _ => []
                      end) items.

Definition inst_of (it : item) : option nat :=
  match it with ItProv o | ItInst o => Some o | _ => None end.

Definition bounds_ok (w : world) (ops : list op) (items : list item_obs) (io : item_obs) (o : obs) : bool :=
  match inst_of (io_item io) with
  | None => true
  | Some i =>
      (* a named argument is an interface (with what it extends) or, from the number of interfaces
         upwards, the specification of a class (with what that class implements now) *)
      let named a := if Nat.ltb a (nifaces w) then iface_anc (fuel_of w) w a
                     else class_flattened items (a - nifaces w) in
      (* ... or something the ORIGINAL provides at round-trip time (e.g. the interfaces alsoProvides
         copied out of a class specification that had been passed as an argument earlier: they are
         the instance's own declared interfaces from then on, for the original and the copy alike) *)
      let allowed := 9 :: match w_root w with Some r => [r] | None => [] end
                       ++ io_fbefore io
                       ++ flat_map named (named_for i ops)
                       ++ class_flattened items (fst (nth i (w_insts w) (0, []))) in
      negb (ob_ok o) || (subset (io_fbefore io) (ob_fafter o) && subset (ob_fafter o) allowed)
  end.

Definition check_spec (c : case_t) : bool :=
  let '(w, ops, items) := c in
  let ordered := module_ordered false ops in
  forallb (fun io =>
    all_protocols (io_live io) && all_protocols (io_xproc io)
    && forallb (spec_live (ordered || model_shared w ops (io_item io)) io) (io_live io)
    && forallb (spec_xproc ordered io) (io_xproc io)
    && forallb (bounds_ok w ops items io) (io_live io)
    && forallb (bounds_ok w ops items io) (io_xproc io)) items.
