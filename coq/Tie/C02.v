(* Tie for C02.  One case = a history; every step carries the model operations that the
   Python-level operation amounted to (creations of specifications, one __bases__ assignment, or
   the death of a specification) and a snapshot of what the implementation answered afterwards
   for every live specification:
     id, is-interface, __bases__, __sro__, __iro__,
     { T | S.isOrExtends(T) }, { T | S.extends(T) }, { T | S.extends(T, strict=False) },
     for instance declarations also { T | T.providedBy(ob) }
   (sets as ascending lists of creation numbers, T ranging over the live specifications).

   check_model : the history satisfies the theorems' well-formedness predicate [hist_ok] and the
                 model (Model/SpecGraph.v, identity notification order) gives exactly the
                 snapshot after every step.
   check_spec  : the snapshot satisfies the property statement, computed from the OBSERVED
                 __bases__ only and without the model's propagation: reachability is recomputed
                 from scratch by closure iteration; __sro__ must be the order a freshly built
                 graph gets (Model.Ro.fresh_sro); __iro__ its interface part; the observed
                 __bases__ must be the ones that were assigned. *)
From Coq Require Import List Arith Bool.
Import ListNotations.
From ZI Require Export Lib.Util Model.Ro Model.SpecGraph.

(* id, is-interface, bases, sro, iro, isOrExtends set, extends set, extends(strict=False) set,
   providedBy set (instance declarations only) *)
Definition nsnap :=
  (node * bool * list node * list node * list node * list node * list node * list node
   * option (list node))%type.
Definition step_t := (list op * list nsnap)%type.
(* transported step: operations, ids that disappeared, rows that are new or changed *)
Definition dstep := (list op * list node * list nsnap)%type.
(* an exception anywhere in the history is reported as [true] and fails both checks *)
Definition case_t := (bool * list dstep)%type.

(* ---- transport format of the generated case files (compression only): creation numbers are
   written as the constants n0 .. n63 (number literals are slow to parse by the thousand), and a
   step lists only the rows that differ from the previous step plus the ids that disappeared;
   [expand] rebuilds the full snapshots that the checks below work on. *)
Definition sn (i : node) (k : bool) (b s r e x n : list node) : nsnap := (i, k, b, s, r, e, x, n, None).
Definition snp (i : node) (k : bool) (b s r e x n p : list node) : nsnap := (i, k, b, s, r, e, x, n, Some p).

Definition sn_id (s : nsnap) : node := let '(i, _, _, _, _, _, _, _, _) := s in i.
Definition sn_if (s : nsnap) : bool := let '(_, k, _, _, _, _, _, _, _) := s in k.
Definition sn_bases (s : nsnap) : list node := let '(_, _, b, _, _, _, _, _, _) := s in b.

Fixpoint insert_row (d : nsnap) (l : list nsnap) : list nsnap :=
  match l with
  | [] => [d]
  | s :: l' => if Nat.leb (sn_id d) (sn_id s) then d :: l else s :: insert_row d l'
  end.

Definition apply_delta (prev : list nsnap) (gone : list node) (delta : list nsnap) : list nsnap :=
  let keep := filter (fun s => negb (mem (sn_id s) gone)
                               && negb (existsb (fun d => Nat.eqb (sn_id d) (sn_id s)) delta)) prev in
  fold_right insert_row keep delta.

Fixpoint expand (prev : list nsnap) (ds : list dstep) : list step_t :=
  match ds with
  | [] => []
  | (ops, gone, delta) :: r => let cur := apply_delta prev gone delta in (ops, cur) :: expand cur r
  end.

Definition idr (l : list node) : list node := l.

(* ---- what the model answers *)
Definition model_snap (st : state) (withprov : node -> bool) : list nsnap :=
  map (fun s =>
         let ioe := filter (isOrExtends st s) (live st) in
         (s, isif st s, get_bases st s, get_sro st s, get_iro st s, ioe,
          filter (fun t => extends st s t true) (live st),
          filter (fun t => extends st s t false) (live st),
          if withprov s then Some ioe else None))
      (live st).

Definition has_prov (sn : list nsnap) (x : node) : bool :=
  existsb (fun s => let '(i, _, _, _, _, _, _, _, p) := s in
                    Nat.eqb i x && match p with Some _ => true | None => false end) sn.

Fixpoint run_model (st : state) (steps : list step_t) : list (list nsnap) :=
  match steps with
  | [] => []
  | (ops, sn) :: r =>
      let st' := fold_left (step idr) ops st in
      model_snap st' (has_prov sn) :: run_model st' r
  end.

Definition model_out (c : case_t) : list (list nsnap) := run_model init (expand [] (snd c)).

Definition olnat_eqb := option_eqb lnat_eqb.

Definition nsnap_eqb (a b : nsnap) : bool :=
  let '(i1, k1, b1, s1, r1, e1, x1, n1, p1) := a in
  let '(i2, k2, b2, s2, r2, e2, x2, n2, p2) := b in
  Nat.eqb i1 i2 && Bool.eqb k1 k2 && lnat_eqb b1 b2 && lnat_eqb s1 s2 && lnat_eqb r1 r2
  && lnat_eqb e1 e2 && lnat_eqb x1 x2 && lnat_eqb n1 n2 && olnat_eqb p1 p2.

Definition check_model (c : case_t) : bool :=
  let '(exc, dsteps) := c in
  let steps := expand [] dsteps in
  negb exc
  && hist_ok idr init (flat_map fst steps)
  && list_eqb (list_eqb nsnap_eqb) (run_model init steps) (map snd steps).

(* ---- the Spec oracle, from the observed bases only *)
Definition obs_graph (sn : list nsnap) : graph := map (fun s => (sn_id s, sn_bases s)) sn.

Definition add_new (l acc : list node) : list node :=
  fold_left (fun a y => if mem y a then a else a ++ [y]) l acc.

(* everything reachable from [x] in at least one step: closure iteration *)
Fixpoint closure (n : nat) (g : graph) (r : list node) : list node :=
  match n with
  | 0 => r
  | S k => closure k g (fold_left (fun a y => add_new (bases g y) a) r r)
  end.
Definition reach_set (g : graph) (x : node) : list node :=
  closure (length g) g (add_new (bases g x) []).

Definition same_set (l m : list node) : bool := subset l m && subset m l.

Fixpoint nodupb (l : list node) : bool :=
  match l with [] => true | x :: t => negb (mem x t) && nodupb t end.

Definition spec_node (g : graph) (ids : list node) (kind : node -> bool) (s : nsnap) : bool :=
  let '(i, k, b, sro_o, iro_o, ioe, ext, extns, prov) := s in
  let r := reach_set g i in
  let want_ioe := filter (fun t => Nat.eqb t i || mem t r || Nat.eqb t root) ids in
  let want_ext := filter (fun t => negb (Nat.eqb t i) && (mem t r || Nat.eqb t root)) ids in
  lnat_eqb ioe want_ioe && lnat_eqb ext want_ext && lnat_eqb extns want_ioe
  && same_set sro_o want_ioe && nodupb sro_o
  && lnat_eqb sro_o (fresh_sro (S (length g)) root g i)
  && lnat_eqb iro_o (filter kind sro_o)
  && match prov with Some p => lnat_eqb p want_ioe | None => true end.

(* the bases that were assigned are the bases that are there *)
Definition assigned_ok (sn : list nsnap) (o : op) : bool :=
  let look x := map sn_bases (filter (fun s => Nat.eqb (sn_id s) x) sn) in
  match o with
  | NewSpec x k bs => list_eqb lnat_eqb (look x) [bs]
                      && forallb (fun s => negb (Nat.eqb (sn_id s) x) || Bool.eqb (sn_if s) k) sn
  | SetBases x bs => list_eqb lnat_eqb (look x) [bs]
  | Drop x => match look x with [] => true | _ => false end
  end.

Definition spec_step (st : step_t) : bool :=
  let '(ops, sn) := st in
  let g := obs_graph sn in
  let ids := map sn_id sn in
  let kind x := existsb (fun s => Nat.eqb (sn_id s) x && sn_if s) sn in
  nodupb ids
  && forallb (fun s => subset (sn_bases s) ids) sn        (* live set closed under bases *)
  && forallb (spec_node g ids kind) sn
  && forallb (assigned_ok sn) ops.

Definition check_spec (c : case_t) : bool :=
  let '(exc, dsteps) := c in negb exc && forallb spec_step (expand [] dsteps).

Definition n0 := 0. Definition n1 := 1. Definition n2 := 2. Definition n3 := 3.
Definition n4 := 4. Definition n5 := 5. Definition n6 := 6. Definition n7 := 7.
Definition n8 := 8. Definition n9 := 9. Definition n10 := 10. Definition n11 := 11.
Definition n12 := 12. Definition n13 := 13. Definition n14 := 14. Definition n15 := 15.
Definition n16 := 16. Definition n17 := 17. Definition n18 := 18. Definition n19 := 19.
Definition n20 := 20. Definition n21 := 21. Definition n22 := 22. Definition n23 := 23.
Definition n24 := 24. Definition n25 := 25. Definition n26 := 26. Definition n27 := 27.
Definition n28 := 28. Definition n29 := 29. Definition n30 := 30. Definition n31 := 31.
Definition n32 := 32. Definition n33 := 33. Definition n34 := 34. Definition n35 := 35.
Definition n36 := 36. Definition n37 := 37. Definition n38 := 38. Definition n39 := 39.
Definition n40 := 40. Definition n41 := 41. Definition n42 := 42. Definition n43 := 43.
Definition n44 := 44. Definition n45 := 45. Definition n46 := 46. Definition n47 := 47.
Definition n48 := 48. Definition n49 := 49. Definition n50 := 50. Definition n51 := 51.
Definition n52 := 52. Definition n53 := 53. Definition n54 := 54. Definition n55 := 55.
Definition n56 := 56. Definition n57 := 57. Definition n58 := 58. Definition n59 := 59.
Definition n60 := 60. Definition n61 := 61. Definition n62 := 62. Definition n63 := 63.
