(* Tie for C20.  One case = a specification graph (interfaces + class specifications, as read
   back from the implementation's public __bases__), a list of operand declarations (built
   from nested argument trees, or implementedBy(cls) objects), and what the implementation
   answered for: list(A), [x in A for x in all], list(A.flattened()), list(A - B), list(A + B)
   for all ordered pairs, list(x + A), operand snapshots, and a sequence of
   directlyProvides / alsoProvides / noLongerProvides on one instance.
   An observation is [None] when the implementation raised.

   check_model : Model/DeclAlg.v (the object of the theorems) gives the same answers.
   check_spec  : the answers satisfy the property statement, recomputed here from the graph by
                 brute force (depth-first reachability, no resolution orders, no model code). *)
From Coq Require Import List NArith Bool Arith.
Import ListNotations.
From ZI Require Export Lib.Util Model.Ro Model.DeclAlg.

Inductive ttree := TLeaf (x : node) | TSeq (ts : list ttree) | TDecl (ts : list ttree).
(* OSuper x rem : implementedBy(super(B, ob)) / providedBy(super(B, ob)), read back as node x;
   [rem] = the class specifications of the classes after B in CPython's own type(ob).__mro__
   (computed by the harness with plain Python classes, not by zope.interface) *)
Inductive operand := OArgs (ts : list ttree) | OSpec (c : node) | OSuper (x : node) (rem : list node).
Inductive iop := IAlso (ts : list ttree) | IDirectly (ts : list ttree) | INoLonger (i : node).

Definition obs := option (list node).

(* the result of an operation, judged as a declaration: is it a Declaration object, list(R),
   [x in R] over the nodes, list(R.flattened()) *)
Definition res_obs := (bool * obs * option (list bool) * obs)%type.

Record case_t := mkCase {
  c_g : graph;
  c_ifs : list node;
  c_decls : list operand;
  c_iter : list obs;
  c_contains : list (option (list bool));      (* over [map fst c_g] *)
  c_ctwin : list (option (list bool));         (* [twin(i) in A] over [twin_nodes c_ifs]: twin(i) is a distinct
                                                  InterfaceClass object with the name and module of i, hence == i *)
  c_flat : list obs;
  c_sub : list (list obs);                     (* row a, column b : list(A - B) *)
  c_add : list (list obs);
  c_radd : list (node * obs);                  (* per operand: x, list(x + A) *)
  c_bare : list (node * res_obs * res_obs * res_obs);   (* per operand A and BARE interface x: A + x, A - x, x + A *)
  c_unchanged : bool;                          (* operand snapshots equal before / after *)
  c_bases_ok : bool;                           (* class spec __bases__ = declared + inherited *)
  c_cdecl : list (node * list ttree);          (* classes without base classes: what was passed to implementer / classImplements *)
  c_cls : node;
  c_ops : list iop;
  c_inst : list (obs * bool * obs);            (* after each op: directlyProvidedBy, raised, providedBy *)
  c_ptwin : option (list bool)                 (* [twin(i) in providedBy(ob)] after the last op *)
}.

Definition twin_nodes (ifs : list node) : list node := filter (fun i => negb (Nat.eqb i 0)) ifs.

(* ------------------------------------------------------------------ model side *)
Section M.
  Variable g : graph.
  Variable ifs : list node.

  Fixpoint to_tree (t : ttree) : tree :=
    match t with
    | TLeaf x => Leaf x
    | TSeq ts => Seq (map to_tree ts)
    | TDecl ts => OfDecl (mk_decl g ifs (map to_tree ts))
    end.

  Definition operand_decl (o : operand) : decl :=
    match o with
    | OArgs ts => mk_decl g ifs (map to_tree ts)
    | OSpec c => bases g c
    | OSuper x _ => bases g x
    end.

  Definition m_inst_step (c : node) (st : option (list node) * list (list node * bool * list node)) (o : iop) :=
    let '(p, out) := st in
    let '(p', raised) :=
      match o with
      | IAlso ts => (also_provides g ifs c p (map to_tree ts), false)
      | IDirectly ts => (Some (directly_provides g ifs c (map to_tree ts)), false)
      | INoLonger i => no_longer_provides g ifs c p i
      end in
    (p', out ++ [(iter g ifs (directly_provided_by p'), raised, iter g ifs (provided_by c p'))]).

  Definition m_inst (c : node) (ops : list iop) := snd (fold_left (m_inst_step c) ops (None, [])).
End M.

Record model_t := mkModel {
  m_iter : list (list node);
  m_contains : list (list bool);
  m_ctwin : list (list bool);
  m_flat : list (list node);
  m_sub : list (list (list node));
  m_add : list (list (list node));
  m_radd : list (list node);
  m_insts : list (list node * bool * list node);
  m_ptwin : list bool
}.

Definition model_out (c : case_t) : model_t :=
  let g := c_g c in let ifs := c_ifs c in
  let ds := map (operand_decl g ifs) (c_decls c) in
  let nodes := map fst g in
  mkModel
    (map (iter g ifs) ds)
    (map (fun d => map (contains g ifs d) nodes) ds)
    (* names are unique in the model: an equal-but-distinct interface answers as the original *)
    (map (fun d => map (contains g ifs d) (twin_nodes ifs)) ds)
    (map (flattened g ifs) ds)
    (map (fun a => map (fun b => iter g ifs (sub g ifs a b)) ds) ds)
    (map (fun a => map (fun b => iter g ifs (add g ifs a b)) ds) ds)
    (map (fun '(d, (x, _)) => iter g ifs (radd g ifs x d)) (combine ds (c_radd c)))
    (m_inst g ifs (c_cls c) (c_ops c))
    (let p := fst (fold_left (m_inst_step g ifs (c_cls c)) (c_ops c) (None, [])) in
     map (contains g ifs (provided_by (c_cls c) p)) (twin_nodes ifs)).

Definition obs_eqb (o : obs) (l : list node) : bool :=
  match o with Some l' => lnat_eqb l' l | None => false end.
Definition lbool_eqb := list_eqb Bool.eqb.
Definition obsb_eqb (o : option (list bool)) (l : list bool) : bool :=
  match o with Some l' => lbool_eqb l' l | None => false end.

Fixpoint all2 {A B} (f : A -> B -> bool) (l1 : list A) (l2 : list B) : bool :=
  match l1, l2 with
  | [], [] => true
  | x :: l1', y :: l2' => f x y && all2 f l1' l2'
  | _, _ => false
  end.

Definition res_model_ok (g : graph) (ifs : list node) (r : res_obs) (d : decl) : bool :=
  let '(isd, it, ct, fl) := r in
  isd && obs_eqb it (iter g ifs d) && obsb_eqb ct (map (contains g ifs d) (map fst g))
  && obs_eqb fl (flattened g ifs d).

Definition check_model (c : case_t) : bool :=
  let m := model_out c in
  all2 obs_eqb (c_iter c) (m_iter m)
  && all2 obsb_eqb (c_contains c) (m_contains m)
  && all2 obsb_eqb (c_ctwin c) (m_ctwin m)
  && all2 obs_eqb (c_flat c) (m_flat m)
  && all2 (all2 obs_eqb) (c_sub c) (m_sub m)
  && all2 (all2 obs_eqb) (c_add c) (m_add m)
  && all2 (fun '(_, o) l => obs_eqb o l) (c_radd c) (m_radd m)
  && all2 (fun '(x, ra, rs, rr) o =>
             let g := c_g c in let ifs := c_ifs c in let d := operand_decl g ifs o in
             res_model_ok g ifs ra (add g ifs d [x]) && res_model_ok g ifs rs (sub g ifs d [x])
             && res_model_ok g ifs rr (radd g ifs x d))
          (c_bare c) (c_decls c)
  && all2 (fun '(d, r, p) '(d', r', p') => obs_eqb d d' && Bool.eqb r r' && obs_eqb p p')
          (c_inst c) (m_insts m)
  && obsb_eqb (c_ptwin c) (m_ptwin m).

(* ------------------------------------------------------------------ spec side (brute force) *)
Section S.
  Variable g : graph.
  Variable ifs : list node.

  Definition memb (x : node) (l : list node) : bool := existsb (Nat.eqb x) l.
  Definition ifaceb (x : node) : bool := memb x ifs.
  Definition depth : nat := S (S (length g)).

  Fixpoint reach_f (fuel : nat) (x y : node) : bool :=
    Nat.eqb x y ||
    match fuel with 0 => false | S f => existsb (fun b => reach_f f b y) (bases g x) end.
  Definition reachb := reach_f depth.
  (* x is, or extends, y : every specification implies Interface *)
  Definition impliesb (x y : node) : bool := Nat.eqb y 0 || reachb x y.

  (* keep first occurrences *)
  Definition sp_dedupe (l : list node) : list node :=
    fold_left (fun acc x => if memb x acc then acc else acc ++ [x]) l [].

  (* the interfaces of a specification, depth first, declared then inherited, with repeats *)
  Fixpoint sp_ifaces_f (fuel : nat) (x : node) : list node :=
    if ifaceb x then [x]
    else match fuel with 0 => [] | S f => flat_map (sp_ifaces_f f) (bases g x) end.
  Definition sp_ifaces := sp_ifaces_f depth.

  (* left-to-right flattening of an argument tree down to interfaces *)
  Fixpoint sp_flat (t : ttree) : list node :=
    match t with
    | TLeaf x => sp_ifaces x
    | TSeq ts => flat_map sp_flat ts
    | TDecl ts => flat_map sp_flat ts
    end.

  (* ... down to argument leaves (interfaces and class specifications); a Declaration
     argument contributes its interfaces *)
  Fixpoint sp_norm (t : ttree) : list node :=
    match t with
    | TLeaf x => [x]
    | TSeq ts => flat_map sp_norm ts
    | TDecl ts => sp_dedupe (flat_map sp_flat ts)
    end.

  Definition sp_iter (o : operand) : list node :=
    match o with
    | OArgs ts => sp_dedupe (flat_map sp_flat ts)
    | OSpec c => sp_dedupe (sp_ifaces c)
    | OSuper _ rem => sp_dedupe (flat_map sp_ifaces rem)   (* declared then inherited over the MRO remainder *)
    end.

  Fixpoint nodupb (l : list node) : bool :=
    match l with [] => true | x :: t => negb (memb x t) && nodupb t end.

  (* nothing is listed after something it strictly extends *)
  Fixpoint monotoneb (l : list node) : bool :=
    match l with
    | [] => true
    | x :: t => forallb (fun y => negb (reachb y x && negb (Nat.eqb y x))) t && monotoneb t
    end.

  Definition sp_flat_ok (its f : list node) : bool :=
    nodupb f
    && forallb (fun y => Bool.eqb (memb y f)
                           (ifaceb y && (Nat.eqb y 0 || existsb (fun i => reachb i y) its)))
               (map fst g ++ f)
    && monotoneb f
    && Nat.eqb (last f 1) 0.

  (* the operand's __bases__ as the property statement gives them (argument leaves; a class
     specification's own bases; for a super specification the MRO remainder) *)
  Definition sp_operand_bases (o : operand) : list node :=
    match o with
    | OArgs ts => flat_map sp_norm ts
    | OSpec c => bases g c
    | OSuper _ rem => rem
    end.

  (* "in resolution order", pinned exactly: the order Model/Ro.v defines for a specification with
     these bases over the CURRENT graph -- the C3 merge of the bases' orders when it exists, else
     the legacy order, Interface last (Properties/C03.v proves what that order is).  The other
     conjuncts of sp_flat_ok are recomputed from scratch. *)
  Definition sp_flat_exact (o : operand) (f : list node) : bool :=
    lnat_eqb f (filter ifaceb (decl_sro g (sp_operand_bases o))).

  Definition sp_sub (a b : list node) : list node :=
    filter (fun i => negb (existsb (fun j => impliesb i j) b)) a.

  (* the placement rule of +, as implemented: a new interface of B goes in front when it
     strictly extends an interface of A or an earlier new interface of B that went to the end *)
  Definition sp_add (a b : list node) : list node :=
    let new := filter (fun i => negb (memb i a)) b in
    let '(f, k) := fold_left (fun '(f, k) i =>
                     if existsb (fun y => impliesb i y && negb (Nat.eqb i y)) (a ++ k)
                     then (f ++ [i], k) else (f, k ++ [i])) new ([], []) in
    f ++ a ++ k.

  (* the same rule read literally from the property text: in front iff it strictly extends an
     interface of A.  The two readings differ only when a new interface of B extends an
     earlier new interface of B (Properties/C20.v, C20_add_as_worded_refuted); the oracle
     accepts either, the model pins the implemented one. *)
  Definition sp_add_worded (a b : list node) : list node :=
    let new := filter (fun i => negb (memb i a)) b in
    let extA := fun i => existsb (fun y => impliesb i y && negb (Nat.eqb i y)) a in
    filter extA new ++ a ++ filter (fun i => negb (extA i)) new.

  Definition same_set (l1 l2 : list node) : bool :=
    forallb (fun x => memb x l2) l1 && forallb (fun x => memb x l1) l2.

  (* instance declarations: the spec state is the list of kept argument leaves *)
  Definition sp_keep (c : node) (leaves : list node) : list node :=
    filter (fun l => negb (impliesb c l)) leaves.
  Definition sp_dp (leaves : list node) : list node := sp_dedupe (flat_map sp_ifaces leaves).

  Definition sp_inst_step (c : node) (st : list node * list (list node * bool * list node)) (o : iop) :=
    let '(lv, out) := st in
    let '(lv', raised) :=
      match o with
      | IAlso ts => (sp_keep c (sp_dp lv ++ flat_map sp_norm ts), false)
      | IDirectly ts => (sp_keep c (flat_map sp_norm ts), false)
      | INoLonger i => (sp_keep c (filter (fun x => negb (impliesb x i)) (sp_dp lv)), impliesb c i)
      end in
    (lv', out ++ [(sp_dp lv', raised, sp_dp (lv' ++ [c]))]).
  Definition sp_inst (c : node) (ops : list iop) := snd (fold_left (sp_inst_step c) ops ([], [])).
End S.

Definition is_some_true {A} (f : A -> bool) (o : option A) : bool :=
  match o with Some x => f x | None => false end.

(* a result that must be the declaration of exactly the interfaces [e], in that order *)
Definition res_spec_ok (g : graph) (ifs : list node) (r : res_obs) (e : list node) : bool :=
  let '(isd, it, ct, fl) := r in
  isd && obs_eqb it e && obsb_eqb ct (map (fun x => memb x e) (map fst g))
  && is_some_true (fun f => sp_flat_ok g ifs e f && lnat_eqb f (filter (ifaceb ifs) (decl_sro g e))) fl.

Definition check_spec (c : case_t) : bool :=
  let g := c_g c in let ifs := c_ifs c in
  let its := map (sp_iter g ifs) (c_decls c) in
  let nodes := map fst g in
  c_unchanged c && c_bases_ok c
  (* a class declared with these (possibly nested / one-shot iterable) arguments implements
     exactly their flattening; the class specification's interfaces are read from the graph *)
  && forallb (fun '(k, ts) => lnat_eqb (sp_dedupe (sp_ifaces g ifs k)) (sp_dedupe (flat_map (sp_flat g ifs) ts)))
             (c_cdecl c)
  && all2 obs_eqb (c_iter c) its
  && all2 (fun o it => obsb_eqb o (map (fun x => memb x it) nodes)) (c_contains c) its
  && all2 (fun o it => obsb_eqb o (map (fun x => memb x it) (twin_nodes ifs))) (c_ctwin c) its
  && all2 (fun o it => is_some_true (sp_flat_ok g ifs it) o) (c_flat c) its
  && all2 (fun o od => is_some_true (sp_flat_exact g ifs od) o) (c_flat c) (c_decls c)
  && all2 (fun row a => all2 (fun o b => obs_eqb o (sp_sub g a b)) row its) (c_sub c) its
  && all2 (fun row a => all2 (fun o b => obs_eqb o (sp_add g a b) || obs_eqb o (sp_add_worded g a b)) row its) (c_add c) its
  && all2 (fun '(x, o) a => is_some_true (fun r => nodupb r && same_set r (x :: a)) o) (c_radd c) its
  (* a bare interface is a legal operand: the results are declarations of the expected interfaces *)
  && all2 (fun '(x, ra, rs, rr) a =>
             (res_spec_ok g ifs ra (sp_add g a [x]) || res_spec_ok g ifs ra (sp_add_worded g a [x]))
             && res_spec_ok g ifs rs (sp_sub g a [x])
             && let '(isd, it, _, _) := rr in
                isd && is_some_true (fun r => res_spec_ok g ifs rr r && nodupb r && same_set r (x :: a)) it)
          (c_bare c) its
  && all2 (fun '(d, r, p) '(d', r', p') => obs_eqb d d' && Bool.eqb r r' && obs_eqb p p')
          (c_inst c) (sp_inst g ifs (c_cls c) (c_ops c))
  && (let lv := fst (fold_left (sp_inst_step g ifs (c_cls c)) (c_ops c) ([], [])) in
      obsb_eqb (c_ptwin c) (map (fun x => memb x (sp_dp g ifs (lv ++ [c_cls c]))) (twin_nodes ifs))).
