(* Tie for C03.  One case = a hierarchy built with real InterfaceClass / implementer objects
   (specifications numbered by creation order, 0 = Interface), observed in one or more phases
   (a new phase after every __bases__ reassignment).  A phase carries the observed __bases__
   graph, a rank of every node (a topological depth computed by the harness; [wfb] re-checks
   it) and, for every specification: __sro__, __iro__, ro.ro(S, strict=False),
   ro.ro(S, strict=True) (None = InconsistentResolutionOrderError), ro.ro(S, use_legacy_ro=True)
   and ro.is_consistent(S).

   check_model : Model/Ro.v (the object of the theorems of Properties/C03.v) answers the same.
   check_spec  : the observations satisfy the property, judged with Spec/C3.v only (textbook C3,
                 reachability by search, positions by index) — no model function is used. *)
From Coq Require Import List Arith Bool.
Import ListNotations.
From ZI Require Export Lib.Util Model.Ro Spec.C3.

(* node, __sro__, __iro__, ro non-strict, ro strict, ro legacy, is_consistent *)
Definition obs_t := (nat * list nat * list nat * list nat * option (list nat) * list nat * bool)%type.
(* __bases__ graph, ranks by node number, observations *)
Definition phase_t := (graph * list nat * list obs_t)%type.
(* root, is-interface flag by node number, phases *)
Definition case_t := (nat * list bool * list phase_t)%type.

Definition rank_of (ranks : list nat) (x : nat) : nat := nth x ranks 0.
Definition fuel_of (ranks : list nat) : nat := S (fold_right Nat.max 0 ranks).
Definition is_iface_of (kinds : list bool) (x : nat) : bool := nth x kinds false.

Definition olist_eqb (a b : option (list nat)) : bool := option_eqb lnat_eqb a b.

(* ---- what the model says *)
Definition ok_mro (r : rres) : option (list nat) :=
  match r with ROk m _ => Some m | _ => None end.

(* Some None = raised, Some (Some m) = order, None = the model ran out of fuel (never: proved) *)
Definition strict_out (r : rres) : option (option (list nat)) :=
  match r with RRaise => Some None | ROk m _ => Some (Some m) | RFuel => None end.

Definition model_node (root : nat) (kinds : list bool) (g : graph) (fuel : nat) (x : nat) :=
  let sro := fresh_sro fuel root g x in
  (x, sro, iro_of (is_iface_of kinds) sro,
   ok_mro (ro false false fuel g x), strict_out (ro true false fuel g x),
   ok_mro (ro false true fuel g x), is_consistent fuel g x).

Definition model_out (c : case_t) :=
  let '(root, kinds, phases) := c in
  map (fun ph : phase_t => let '(g, ranks, obs) := ph in
         map (fun o : obs_t => let '(x, _, _, _, _, _, _) := o in
                model_node root kinds g (fuel_of ranks) x) obs) phases.

Definition node_model_ok (root : nat) (kinds : list bool) (g : graph) (fuel : nat) (o : obs_t) : bool :=
  let '(x, sro, iro, ro_ns, ro_st, ro_leg, consi) := o in
  let '(_, m_sro, m_iro, m_ns, m_st, m_leg, m_consi) := model_node root kinds g fuel x in
  lnat_eqb m_sro sro && lnat_eqb m_iro iro
  && olist_eqb m_ns (Some ro_ns)
  && option_eqb olist_eqb m_st (Some ro_st)
  && olist_eqb m_leg (Some ro_leg)
  && option_eqb Bool.eqb m_consi (Some consi).

(* every node of the graph is observed exactly once, in graph order *)
Definition covers (g : graph) (obs : list obs_t) : bool :=
  lnat_eqb (map fst g) (map (fun o : obs_t => let '(x, _, _, _, _, _, _) := o in x) obs).

Definition phase_model_ok (root : nat) (kinds : list bool) (ph : phase_t) : bool :=
  let '(g, ranks, obs) := ph in
  wfb (rank_of ranks) g && lnat_eqb (bases g root) [] && covers g obs
  && forallb (node_model_ok root kinds g (fuel_of ranks)) obs.

Definition check_model (c : case_t) : bool :=
  let '(root, kinds, phases) := c in forallb (phase_model_ok root kinds) phases.

(* ---- the property, judged from scratch *)
Definition node_spec_ok (root : nat) (kinds : list bool) (g : graph) (fuel : nat) (o : obs_t) : bool :=
  let '(x, sro, iro, ro_ns, ro_st, ro_leg, consi) := o in
  let B := bases g in
  let Br := rooted root B in
  (* __sro__ : starts with the spec, each ancestor once, before its bases, Interface last *)
  valid_linb Br (S fuel) root x sro
  (* __iro__ : the interfaces of __sro__, same order *)
  && lnat_eqb iro (filter (is_iface_of kinds) sro)
  (* __sro__ is the C3 linearization whenever there is one (Interface under everything) *)
  && match c3_lin Br (S fuel) x with Some l => lnat_eqb sro l | None => true end
  (* ro.ro on the declared bases: always a valid linearization; the C3 one when it exists;
     strict raises and is_consistent is False exactly when it does not *)
  && linb B fuel x ro_ns && linb B fuel x ro_leg
  && match c3_lin B fuel x with
     | Some l => lnat_eqb ro_ns l && olist_eqb ro_st (Some l) && consi
     | None => olist_eqb ro_st None && negb consi
     end.

Definition phase_spec_ok (root : nat) (kinds : list bool) (ph : phase_t) : bool :=
  let '(g, ranks, obs) := ph in
  wfb (rank_of ranks) g && covers g obs && forallb (node_spec_ok root kinds g (fuel_of ranks)) obs.

Definition check_spec (c : case_t) : bool :=
  let '(root, kinds, phases) := c in forallb (phase_spec_ok root kinds) phases.
