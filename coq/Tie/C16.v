(* Tie for C16: one case = a world (specification graph, objects), the unhashable component
   identities, and a history; every step carries what the implementation answered: the return
   value, the events passed to ``notify`` during the call, the four registered*() listings, the
   counters of rebuildUtilityRegistryFromLocalCache(), and the answers of a few query calls.

   check_model : Model/Components.v (the object of the theorems) gives the same answers.
   check_spec  : the implementation's raw answers satisfy the property statement, judged from the
                 ledger of Spec/Components.v alone (spec_step, events_ok, q_* oracles) -- the
                 model's algorithm (stores, counting cache, registries) is not consulted. *)
From Coq Require Import List Arith Bool.
Import ListNotations.
From ZI Require Export Lib.Util Model.Ro Model.Adapter Model.Lookup Model.RegSys Model.Components
  Model.ComponentsSys Spec.Components.

(* (of Model/RegSys.v only [fresh_ro], the resolution order of a __bases__ graph, is used) *)

(* the world of a case: spec i has bases (nth i g) and is an interface iff (nth i ifaces) *)
Definition mk_world (g : graph) (ifaces : list bool) : world :=
  let n := length g in
  let tbl := map (fun x => fresh_sro (S n) 0 g x) (seq 0 n) in
  mkW (fun x => nth x tbl []) (fun x => nth x ifaces false).

(* what a component returns when called (mirrors c16_driver.oracle_call) *)
Definition call16 (v : value) (os : list nat) : option nat :=
  let s := vid v + fold_right Nat.add 0 os in
  if Nat.eqb (s mod 3) 0 then None
  else Some (vid v * 100 + fold_left (fun c o => c * 10 + (o mod 10)) os 0).

(* a query with the implementation's answer *)
Inductive cq :=
| QUtil (p : spec) (n : name) (ans : option nat)
| QUtilsFor (p : spec) (ans : list (name * nat))                 (* sorted by name *)
| QAllUtils (p : spec) (ans : list (nat * nat))                  (* (identity, class), in the order returned *)
| QAdapter (o : cobj) (p : spec) (n : name) (ans : option nat)
| QMulti (os : list cobj) (p : spec) (n : name) (ans : option nat)
| QGetAdapters (os : list cobj) (p : spec) (ans : list (name * nat))   (* sorted by name *)
| QSubscribers (os : list cobj) (p : spec) (results called : list nat)
| QHandle (os : list cobj) (called : list nat).

Record sobs := mkObs {
  s_exc : bool;        (* an unexpected exception / malformed record was seen at this step *)
  s_on : nat;          (* the object whose listings / probe are reported (the one acted upon) *)
  s_ret : ret;
  s_events : list event;
  s_lu : list regrec; s_la : list regrec; s_ls : list regrec; s_lh : list regrec;
  s_probe : nat * nat * nat * nat;
  s_queries : list (nat * cq)          (* (object asked, query with its answer) *)
}.

(* graph, interface flags, unhashable component identities, history with observations.  A
   history starts with object 0 (no bases); SNew adds objects, SSetBases re-bases them. *)
Definition case_t := (graph * list bool * list nat * list (sop * sobs))%type.

Definition hashable_of (unh : list nat) (v : value) : bool := negb (mem (vid v) unh).

(* ---- canonical encodings *)
Definition enc_ov (v : option value) : list nat := match v with None => [0] | Some x => [1; vid x; veq x] end.
Definition enc_rec (r : regrec) : list nat :=
  match r with
  | RU p n c i f => [0; p; n; vid c; veq c; i; match f with None => 0 | Some x => S x end]
  | RA q p n f i => 1 :: length q :: q ++ [p; n; vid f; veq f; i]
  | RS q p f i => 2 :: length q :: q ++ [p] ++ enc_ov f ++ [i]
  | RH q f i => 3 :: length q :: q ++ enc_ov f ++ [i]
  end.
Definition enc_ev (e : event) : list nat :=
  match e with Registered r => 1 :: enc_rec r | Unregistered r => 0 :: enc_rec r end.
Definition canon (l : list regrec) : list (list nat) :=
  map fst (sort_by_key (map (fun r => (enc_rec r, tt)) l)).

Definition ret_eqb (a b : ret) : bool :=
  match a, b with
  | RNone, RNone => true | RTypeError, RTypeError => true
  | RBool x, RBool y => Bool.eqb x y
  | RDict (a1, a2, a3, a4), RDict (b1, b2, b3, b4) => Nat.eqb a1 b1 && Nat.eqb a2 b2 && Nat.eqb a3 b3 && Nat.eqb a4 b4
  | _, _ => false
  end.
Definition event_eqb (a b : event) : bool := list_eqb Nat.eqb (enc_ev a) (enc_ev b).
Definition probe_eqb (a b : nat * nat * nat * nat) : bool :=
  let '(a1, a2, a3, a4) := a in let '(b1, b2, b3, b4) := b in
  Nat.eqb a1 b1 && Nat.eqb a2 b2 && Nat.eqb a3 b3 && Nat.eqb a4 b4.
Definition pairs_eqb (a b : list (nat * nat)) : bool :=
  list_eqb (fun x y => Nat.eqb (fst x) (fst y) && Nat.eqb (snd x) (snd y)) a b.
Definition sort_pairs (l : list (nat * nat)) : list (nat * nat) :=
  map (fun kv => (hd 0 (fst kv), snd kv)) (sort_by_key (map (fun nv => ([fst nv], snd nv)) l)).

Section Answers.
  Variable W : world.
  Variable hashable : value -> bool.

  (* ---- the model's answer to a query put to object r *)
  Definition model_query (S : csys) (rq : nat * cq) : nat * cq :=
    let r := fst rq in
    (r, match snd rq with
        | QUtil p n _ => QUtil p n (option_map vid (sys_queryUtility W S r p n))
        | QUtilsFor p _ => QUtilsFor p (sort_pairs (map (fun nv => (fst nv, vid (snd nv))) (sys_getUtilitiesFor W S r p)))
        | QAllUtils p _ => QAllUtils p (map (fun v => (vid v, veq v)) (sys_getAllUtilitiesRegisteredFor W S r p))
        | QAdapter o p n _ => QAdapter o p n (sys_queryMultiAdapter W call16 S r [o] p n)
        | QMulti os p n _ => QMulti os p n (sys_queryMultiAdapter W call16 S r os p n)
        | QGetAdapters os p _ => QGetAdapters os p (sort_pairs (sys_getAdapters W call16 S r os p))
        | QSubscribers os p _ _ =>
            let '(res, called) := sys_subscribers W call16 S r os p in QSubscribers os p res (map vid called)
        | QHandle os _ => QHandle os (map vid (sys_handle W S r os))
        end).

  Definition cobj_eqb (a b : cobj) : bool := Nat.eqb (fst a) (fst b) && Nat.eqb (snd a) (snd b).
  Definition cq_eqb (a b : cq) : bool :=
    match a, b with
    | QUtil p n x, QUtil p' n' y => Nat.eqb p p' && Nat.eqb n n' && onat_eqb x y
    | QUtilsFor p x, QUtilsFor p' y => Nat.eqb p p' && pairs_eqb x y
    | QAllUtils p x, QAllUtils p' y => Nat.eqb p p' && pairs_eqb x y
    | QAdapter o p n x, QAdapter o' p' n' y => cobj_eqb o o' && Nat.eqb p p' && Nat.eqb n n' && onat_eqb x y
    | QMulti os p n x, QMulti os' p' n' y => list_eqb cobj_eqb os os' && Nat.eqb p p' && Nat.eqb n n' && onat_eqb x y
    | QGetAdapters os p x, QGetAdapters os' p' y => list_eqb cobj_eqb os os' && Nat.eqb p p' && pairs_eqb x y
    | QSubscribers os p r c, QSubscribers os' p' r' c' =>
        list_eqb cobj_eqb os os' && Nat.eqb p p' && list_eqb Nat.eqb r r' && list_eqb Nat.eqb c c'
    | QHandle os c, QHandle os' c' => list_eqb cobj_eqb os os' && list_eqb Nat.eqb c c'
    | _, _ => false
    end.
  Definition rq_eqb (a b : nat * cq) : bool := Nat.eqb (fst a) (fst b) && cq_eqb (snd a) (snd b).

  (* everything the model says about one step *)
  Definition model_step (S : csys) (o : sop) (ob : sobs) : csys * sobs :=
    let x := sys_step W hashable S o in
    let S' := fst (fst x) in
    let st' := comp S' (s_on ob) in
    (S', mkObs false (s_on ob) (snd (fst x)) (snd x)
               (registeredUtilities st') (registeredAdapters st')
               (registeredSubscriptionAdapters st') (registeredHandlers st')
               (probe st') (map (model_query S') (s_queries ob))).

  Definition llnat_eq := list_eqb (list_eqb Nat.eqb).

  (* the object reported must be the one acted upon (the new one for SNew) *)
  Definition on_ok (n : nat) (o : sop) (ob : sobs) : bool :=
    match o with
    | SNew _ => Nat.eqb (s_on ob) n
    | SSetBases r _ | SOp r _ | STamper r _ | SRebuild r => Nat.eqb (s_on ob) r
    end.

  Definition sobs_agree (m ob : sobs) : bool :=
    negb (s_exc ob) && ret_eqb (s_ret m) (s_ret ob)
    && list_eqb event_eqb (s_events m) (s_events ob)
    && llnat_eq (canon (s_lu m)) (canon (s_lu ob)) && llnat_eq (canon (s_la m)) (canon (s_la ob))
    && llnat_eq (canon (s_ls m)) (canon (s_ls ob)) && llnat_eq (canon (s_lh m)) (canon (s_lh ob))
    && probe_eqb (s_probe m) (s_probe ob)
    && list_eqb rq_eqb (s_queries m) (s_queries ob).

  Fixpoint run_model (S : csys) (h : list (sop * sobs)) : list sobs :=
    match h with
    | [] => []
    | (o, ob) :: h' => let '(S', m) := model_step S o ob in m :: run_model S' h'
    end.

  (* ---- the Spec oracle on the implementation's answers: one ledger per object and the current
     __bases__; the chain of an object is the C3 order of the __bases__ graph (RegSys.fresh_ro) *)
  Definition lsys := (list ledger * list (list nat))%type.
  Definition lsys_init : lsys := ([lempty], [[]]).
  Definition ledger_at (S : lsys) (r : nat) : ledger := nth r (fst S) lempty.
  Definition lchain (S : lsys) (r : nat) : list ledger :=
    map (ledger_at S) (fresh_ro (map (fun bs => mkRS empty_reg empty_caches bs [] [] [] [] Push) (snd S)) r).

  Definition lsys_step (S : lsys) (o : sop) : lsys :=
    match o with
    | SNew bs => (fst S ++ [lempty], snd S ++ [bs])
    | SSetBases r bs => (fst S, set_nth (snd S) r bs)
    | SOp r o' => (set_nth (fst S) r (o_ledger (spec_step (ledger_at S r) o')),
                   match o' with Reinit => set_nth (snd S) r [] | _ => snd S end)
    | STamper _ _ | SRebuild _ => S          (* no registration is added or removed *)
    end.

  Definition spec_query (tolF13 : bool) (S : lsys) (rq : nat * cq) : bool :=
    let Ls := lchain S (fst rq) in
    match snd rq with
    | QUtil p n a => q_queryUtility W Ls p n a
    | QUtilsFor p a => q_getUtilitiesFor W Ls p a
    | QAllUtils p a => q_getAllUtilities W tolF13 Ls p a
    | QAdapter o p n a => q_queryMultiAdapter W call16 Ls [o] p n a
    | QMulti os p n a => q_queryMultiAdapter W call16 Ls os p n a
    | QGetAdapters os p a => q_getAdapters W call16 Ls os p a
    | QSubscribers os p r c => q_subscribers W call16 Ls os p r c
    | QHandle os c => q_handle W Ls os c
    end.

  (* return value and events the property demands of a step *)
  Definition step_ret_events_ok (tolF9 tolF11 : bool) (S : lsys) (o : sop) (ob : sobs) : bool :=
    match o with
    | SNew _ | SSetBases _ _ => ret_eqb (s_ret ob) RNone && match s_events ob with [] => true | _ => false end
    | SOp r o' => ret_eqb (s_ret ob) (o_ret (spec_step (ledger_at S r) o'))
                  && events_ok_tolerant tolF9 tolF11 (ledger_at S r) o' (s_events ob)
    | STamper _ _ => ret_eqb (s_ret ob) RNone && match s_events ob with [] => true | _ => false end
                     && match s_queries ob with [] => true | _ => false end
    | SRebuild r =>
        (* the repair call reports one verdict per listed utility and emits nothing; that it did
           repair is judged by the probe and the queries of this very step *)
        match s_ret ob, s_events ob with
        | RDict (nr, dr, ns, ds), [] =>
            Nat.eqb (nr + dr) (length (l_u (ledger_at S r))) && Nat.eqb (ns + ds) (length (l_u (ledger_at S r)))
        | _, _ => false
        end
    end.

  Definition spec_step_diag (tolF9 tolF11 tolF13 : bool) (S : lsys) (o : sop) (ob : sobs) : list bool :=
    let S' := lsys_step S o in
    let L' := ledger_at S' (s_on ob) in
    [negb (s_exc ob) && on_ok (length (fst S)) o ob; step_ret_events_ok tolF9 tolF11 S o ob;
     llnat_eq (canon (s_lu ob)) (canon (map rec_u (l_u L')));
     llnat_eq (canon (s_la ob)) (canon (map rec_a (l_a L')));
     llnat_eq (canon (s_ls ob)) (canon (map rec_s (l_s L')));
     llnat_eq (canon (s_lh ob)) (canon (map rec_h (l_h L')));
     match o with STamper _ _ => true | _ => q_probe L' (s_probe ob) end]
    ++ map (spec_query tolF13 S') (s_queries ob).

  Definition spec_step_ok (tolF9 tolF11 tolF13 : bool) (S : lsys) (o : sop) (ob : sobs) : bool :=
    forallb (fun b => b) (spec_step_diag tolF9 tolF11 tolF13 S o ob).

  Fixpoint run_spec (tolF9 tolF11 tolF13 : bool) (S : lsys) (h : list (sop * sobs)) : bool :=
    match h with
    | [] => true
    | (o, ob) :: h' => spec_step_ok tolF9 tolF11 tolF13 S o ob && run_spec tolF9 tolF11 tolF13 (lsys_step S o) h'
    end.

  Fixpoint first_spec_bad (i : nat) (S : lsys) (h : list (sop * sobs)) : option (nat * list bool) :=
    match h with
    | [] => None
    | (o, ob) :: h' => if spec_step_ok false false false S o ob then first_spec_bad (Datatypes.S i) (lsys_step S o) h'
                       else Some (i, spec_step_diag false false false S o ob)
    end.
End Answers.

Definition model_all (c : case_t) : list sobs :=
  let '(g, ifs, unh, h) := c in run_model (mk_world g ifs) (hashable_of unh) sys_init h.

Fixpoint first_bad (i : nat) (ms : list sobs) (h : list (sop * sobs)) : option (nat * sobs) :=
  match ms, h with
  | m :: ms', (_, ob) :: h' => if sobs_agree m ob then first_bad (S i) ms' h' else Some (i, m)
  | _, _ => None
  end.

(* diagnostics: the first step where model and implementation differ, with the model's answers *)
Definition model_out (c : case_t) : option (nat * sobs) :=
  let '(_, _, _, h) := c in first_bad 0 (model_all c) h.

Definition check_model (c : case_t) : bool :=
  match model_out c with None => true | Some _ => false end.

Definition check_spec_tol (tolF9 tolF11 tolF13 : bool) (c : case_t) : bool :=
  let '(g, ifs, _, h) := c in run_spec (mk_world g ifs) tolF9 tolF11 tolF13 lsys_init h.

Definition check_spec (c : case_t) : bool := check_spec_tol false false false c.

(* diagnostics: first step violating the Spec, with the truth value of each conjunct
   (no-exception/right object, return+events, four listings, probe, then one per query) *)
Definition spec_out (c : case_t) : option (nat * list bool) :=
  let '(g, ifs, _, h) := c in first_spec_bad (mk_world g ifs) 0 lsys_init h.
