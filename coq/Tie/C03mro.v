(* Second tie for C03: validates the Spec itself (Spec/C3.v, rooted textbook C3) against
   independent oracles.  A case is a hierarchy plus, for some nodes, what the oracle answered:
     - CPython's own type.mro() on an identically shaped hierarchy of real classes
       (object <-> root; None = TypeError "Cannot create a consistent MRO");
     - zope.interface run with ZOPE_INTERFACE_STRICT_IRO=1: the __sro__ of every specification
       that could be created, None for the first one whose creation raised
       InconsistentResolutionOrderError.
   Both must equal [c3_lin (rooted root (bases g))].  check_model = check_spec here: there is
   no model involved, the oracle and the Spec either agree or not. *)
From Coq Require Import List Arith Bool.
Import ListNotations.
From ZI Require Export Lib.Util Model.Ro Spec.C3.

(* root, graph, ranks, (node, oracle answer) *)
Definition case_t := (nat * graph * list nat * list (nat * option (list nat)))%type.

Definition rank_of (ranks : list nat) (x : nat) : nat := nth x ranks 0.
Definition fuel_of (ranks : list nat) : nat := S (S (fold_right Nat.max 0 ranks)).

Definition model_out (c : case_t) :=
  let '(root, g, ranks, obs) := c in
  map (fun o : nat * option (list nat) => (fst o, c3_lin (rooted root (bases g)) (fuel_of ranks) (fst o))) obs.

Definition check_spec (c : case_t) : bool :=
  let '(root, g, ranks, obs) := c in
  wfb (rank_of ranks) g &&
  forallb (fun o : nat * option (list nat) =>
             option_eqb lnat_eqb (c3_lin (rooted root (bases g)) (fuel_of ranks) (fst o)) (snd o)) obs.

Definition check_model := check_spec.
