(* Tie for C15.  A case = an interface DAG with direct attribute tables, tagged values and
   invariants, a history (rebasing / get / setTaggedValue), what every get of the history
   answered, and a final snapshot of every accessor on every interface.
   check_model : Model/Attrs.v (memo, cached orders, names(all) recursing over bases,
                 namesAndDescriptions(all) by reversed update ...) answers the same.
   check_spec  : the observations satisfy the property statement, judged from the input alone:
                 current bases -> Ro.fresh_sro -> "first interface of the order that defines it".
                 No memo, no cached order, no recursion over bases, no dict update. *)
From Coq Require Import List Arith Bool.
Import ListNotations.
From ZI Require Export Lib.Util Model.Ro Model.Attrs.

(* a history step: an operation of the model, or "observe every accessor on interface x now" *)
Inductive top := TOp (o : op) | TSnap (x : node).

Record input := mkIn {
  i_n : nat;                                   (* interfaces are 1..n, 0 is Interface *)
  i_graph : graph;                             (* initial __bases__, with (0, []) *)
  i_attrs : list (node * list (name * desc));  (* direct attribute tables *)
  i_tags : list (node * list (tag * tval));    (* direct tagged values at creation (tag 0 = 'invariants') *)
  i_failing : list nat;                        (* invariants that raise Invalid *)
  i_ops : list top;
  i_names : list name;                         (* sorted universe of names asked *)
  i_tagsU : list tag;                          (* sorted universe of tags asked *)
  i_nodes : list node                          (* interfaces observed, in this order *)
}.

Record nobs := mkNobs {
  o_iro : list node;
  o_gets : list (option nat * option nat * option nat * bool);  (* per name: I[n] / get / queryDescriptionFor / in *)
  o_iter : list name;                          (* sorted *)
  o_names : list name;                         (* names(all=True), sorted *)
  o_nad : list (name * desc);                  (* namesAndDescriptions(all=True), sorted *)
  o_tagq : list (option tval * option tval);   (* per tag: queryTaggedValue(tag, sentinel) (None = sentinel came back) /
                                                  getTaggedValue (None = KeyError); Some TNone = the value None *)
  o_tags : list tag;                           (* getTaggedValueTags, sorted *)
  o_v1_ran : list nat; o_v1_exc : option nat;  (* validateInvariants(ob): called, whose Invalid came out *)
  o_v2_ran : list nat; o_v2_errs : list nat; o_v2_raised : bool   (* validateInvariants(ob, []) *)
}.

(* input, "no unexpected exception", answers of the OGet ops, observations of the TSnap steps,
   final snapshot per node of i_nodes *)
Definition case_t := (input * bool * list (option nat) * list nobs * list nobs)%type.

(* ---------------------------------------------------------------- helpers *)
Definition alookup {V} (l : list (nat * list V)) (x : nat) : list V :=
  match dget l x with Some v => v | None => [] end.

Fixpoint insert_nat (x : nat) (l : list nat) : list nat :=
  match l with [] => [x] | y :: t => if Nat.leb x y then x :: l else y :: insert_nat x t end.
Definition sort_nat (l : list nat) : list nat := fold_right insert_nat [] l.

Fixpoint insert_p (x : nat * nat) (l : list (nat * nat)) : list (nat * nat) :=
  match l with [] => [x] | y :: t => if Nat.leb (fst x) (fst y) then x :: l else y :: insert_p x t end.
Definition sort_p (l : list (nat * nat)) : list (nat * nat) := fold_right insert_p [] l.

Definition onat_eqb := option_eqb Nat.eqb.
Definition pair_eqb (a b : nat * nat) := Nat.eqb (fst a) (fst b) && Nat.eqb (snd a) (snd b).
Definition tval_eqb (a b : tval) : bool :=
  match a, b with
  | TV x, TV y => Nat.eqb x y
  | TInvs x, TInvs y => lnat_eqb x y
  | TNone, TNone => true
  | _, _ => false
  end.
Definition otval_eqb := option_eqb tval_eqb.
Definition get4_eqb (a b : option nat * option nat * option nat * bool) : bool :=
  let '(a1, a2, a3, a4) := a in let '(b1, b2, b3, b4) := b in
  onat_eqb a1 b1 && onat_eqb a2 b2 && onat_eqb a3 b3 && Bool.eqb a4 b4.
Definition tq_eqb (a b : option tval * option tval) : bool :=
  otval_eqb (fst a) (fst b) && otval_eqb (snd a) (snd b).

Definition nobs_eqb (a b : nobs) : bool :=
  lnat_eqb (o_iro a) (o_iro b) && list_eqb get4_eqb (o_gets a) (o_gets b) &&
  lnat_eqb (o_iter a) (o_iter b) && lnat_eqb (o_names a) (o_names b) &&
  list_eqb pair_eqb (o_nad a) (o_nad b) && list_eqb tq_eqb (o_tagq a) (o_tagq b) &&
  lnat_eqb (o_tags a) (o_tags b) &&
  lnat_eqb (o_v1_ran a) (o_v1_ran b) && onat_eqb (o_v1_exc a) (o_v1_exc b) &&
  lnat_eqb (o_v2_ran a) (o_v2_ran b) && lnat_eqb (o_v2_errs a) (o_v2_errs b) &&
  Bool.eqb (o_v2_raised a) (o_v2_raised b).

Definition fuel_of (i : input) : nat := S (S (i_n i)).
Definition fails_of (i : input) : nat -> bool := fun k => mem_nat k (i_failing i).

(* ---------------------------------------------------------------- the model's answers *)
Definition world_of (i : input) : world := mkWorld (fuel_of i) (alookup (i_attrs i)).

Fixpoint snap_gets (w : world) (s : state) (x : node) (names : list name)
  : list (option nat * option nat * option nat * bool) * state :=
  match names with
  | [] => ([], s)
  | n :: r =>
      let '(a, s1) := getitem w s x n in
      let '(b, s2) := get w s1 x n in
      let '(c, s3) := query_description_for w s2 x n in
      let '(d, s4) := contains w s3 x n in
      let '(l, s5) := snap_gets w s4 x r in
      ((a, b, c, d) :: l, s5)
  end.

Definition node_obs (i : input) (w : world) (s : state) (x : node) : nobs * state :=
  let '(gets, s') := snap_gets w s x (i_names i) in
  let v1 := validate (fails_of i) s' x None in
  let v2 := validate (fails_of i) s' x (Some []) in
  (mkNobs (st_iro s' x) gets
          (sort_nat (iter w s' x))
          (sort_nat (names_all w (w_fuel w) (st_graph s') x))
          (sort_p (nad_all w s' x))
          (map (fun t => (query_tagged s' x t, get_tagged s' x t)) (i_tagsU i))
          (sort_nat (tagged_tags s' x))
          (v_ran v1) (match v_exc v1 with VRaisedInv k => Some k | _ => None end)
          (v_ran v2) (match v_errors v2 with Some e => e | None => [] end)
          (match v_exc v2 with VRaisedErrors _ => true | _ => false end),
   s').

Fixpoint snapshot (i : input) (w : world) (s : state) (nodes : list node) : list nobs :=
  match nodes with
  | [] => []
  | x :: r => let '(o, s') := node_obs i w s x in o :: snapshot i w s' r
  end.

(* the history of the model, collecting what every OGet and every TSnap answered *)
Fixpoint run_hist (i : input) (w : world) (s : state) (ops : list top)
  : list (option nat) * list nobs * state :=
  match ops with
  | [] => ([], [], s)
  | TOp (OGet x n) :: r =>
      let '(a, s') := get w s x n in
      let '(gets, snaps, s'') := run_hist i w s' r in (a :: gets, snaps, s'')
  | TOp o :: r => run_hist i w (step w s o) r
  | TSnap x :: r =>
      let '(o, s') := node_obs i w s x in
      let '(gets, snaps, s'') := run_hist i w s' r in (gets, o :: snaps, s'')
  end.

Definition model_out (c : case_t) : list (option nat) * list nobs * list nobs :=
  let '(i, _, _, _, _) := c in
  let w := world_of i in
  let '(gets, snaps, s) := run_hist i w (init w (i_graph i) (alookup (i_tags i))) (i_ops i) in
  (gets, snaps, snapshot i w s (i_nodes i)).

Definition check_model (c : case_t) : bool :=
  let '(i, ok, gets, snaps, snap) := c in
  let w := world_of i in
  let '(mgets, msnaps, s) := run_hist i w (init w (i_graph i) (alookup (i_tags i))) (i_ops i) in
  ok && list_eqb onat_eqb mgets gets && list_eqb nobs_eqb msnaps snaps
  && list_eqb nobs_eqb (snapshot i w s (i_nodes i)) snap
  (* the recursion bound of the model exceeds the depth of the final graph *)
  && forallb (deep (fuel_of i) (st_graph s)) (i_nodes i).

(* ---------------------------------------------------------------- the Spec oracle *)
(* direct tagged values as a journal, newest first *)
Definition journal := list (node * tag * tval).

Definition j_direct (j : journal) (i : node) (t : tag) : option tval :=
  match find (fun e => Nat.eqb (fst (fst e)) i && Nat.eqb (snd (fst e)) t) j with
  | Some e => Some (snd e)
  | None => None
  end.

Definition j_init (tg : list (node * list (tag * tval))) : journal :=
  flat_map (fun e => map (fun tv => (fst e, fst tv, snd tv)) (snd e)) tg.

(* the description defined by the first interface of [iro] defining [n] *)
Definition spec_get (i : input) (iro : list node) (n : name) : option desc :=
  hd_error (flat_map (fun x => match dget (alookup (i_attrs i) x) n with Some d => [d] | None => [] end) iro).

Definition spec_tag (j : journal) (iro : list node) (t : tag) : option tval :=
  hd_error (flat_map (fun x => match j_direct j x t with Some v => [v] | None => [] end) iro).

Definition is_some {A} (o : option A) : bool := match o with Some _ => true | None => false end.

Fixpoint upto_first (p : nat -> bool) (l : list nat) : list nat * option nat :=
  match l with
  | [] => ([], None)
  | k :: r => if p k then ([k], Some k) else let '(a, b) := upto_first p r in (k :: a, b)
  end.

Definition spec_node (i : input) (g : graph) (j : journal) (x : node) (o : nobs) : bool :=
  let iro := fresh_sro (fuel_of i) 0 g x in
  let expect := map (spec_get i iro) (i_names i) in
  let present := filter (fun n => is_some (spec_get i iro n)) (i_names i) in
  let texpect := map (spec_tag j iro) (i_tagsU i) in
  let invs := flat_map (fun y => match j_direct j y 0 with Some (TInvs l) => l | _ => [] end) iro in
  let '(ran1, exc1) := upto_first (fails_of i) invs in
  let errs := filter (fails_of i) invs in
  (* I[n], get, queryDescriptionFor all give the first definition along the order; `in` says whether there is one *)
  list_eqb get4_eqb (o_gets o) (map (fun e => (e, e, e, is_some e)) expect)
  (* iter / names(all) list exactly the names with a definition *)
  && lnat_eqb (o_iter o) present && lnat_eqb (o_names o) present
  (* namesAndDescriptions(all) maps each of them to that definition *)
  && list_eqb pair_eqb (o_nad o)
       (flat_map (fun n => match spec_get i iro n with Some d => [(n, d)] | None => [] end) (i_names i))
  (* tagged values: first along the order; the tags are those that resolve *)
  && list_eqb tq_eqb (o_tagq o) (map (fun e => (e, e)) texpect)
  && lnat_eqb (o_tags o) (filter (fun t => is_some (spec_tag j iro t)) (i_tagsU i))
  (* invariants *)
  && lnat_eqb (o_v1_ran o) ran1 && onat_eqb (o_v1_exc o) exc1
  && lnat_eqb (o_v2_ran o) invs && lnat_eqb (o_v2_errs o) errs
  && Bool.eqb (o_v2_raised o) (match errs with [] => false | _ => true end).

(* follow the history: only the bases and the tagged values; judge every get and every
   mid-history observation at its own time *)
Fixpoint spec_history (i : input) (g : graph) (j : journal) (ops : list top)
         (gets : list (option nat)) (snaps : list nobs) : bool * graph * journal :=
  match ops with
  | [] => (match gets, snaps with [], [] => true | _, _ => false end, g, j)
  | TOp (OSetBases x bs) :: r => spec_history i ((x, bs) :: g) j r gets snaps
  | TOp (OSetTag x t v) :: r => spec_history i g ((x, t, v) :: j) r gets snaps
  | TOp (OGet x n) :: r =>
      match gets with
      | [] => (false, g, j)
      | a :: gets' =>
          let '(ok, g', j') := spec_history i g j r gets' snaps in
          (onat_eqb a (spec_get i (fresh_sro (fuel_of i) 0 g x) n) && ok, g', j')
      end
  | TSnap x :: r =>
      match snaps with
      | [] => (false, g, j)
      | o :: snaps' =>
          let '(ok, g', j') := spec_history i g j r gets snaps' in
          (spec_node i g j x o && ok, g', j')
      end
  end.

Fixpoint forall2b {A B} (f : A -> B -> bool) (l1 : list A) (l2 : list B) : bool :=
  match l1, l2 with
  | [], [] => true
  | a :: r1, b :: r2 => f a b && forall2b f r1 r2
  | _, _ => false
  end.

Definition check_spec (c : case_t) : bool :=
  let '(i, ok, gets, snaps, snap) := c in
  let '(okh, g, j) := spec_history i (i_graph i) (j_init (i_tags i)) (i_ops i) gets snaps in
  ok && okh && forall2b (spec_node i g j) (i_nodes i) snap
  (* the universes asked are complete, so "exactly the names / tags" is meaningful *)
  && forallb (fun e => forallb (fun nd => mem_nat (fst nd) (i_names i)) (snd e)) (i_attrs i)
  && forallb (fun e => mem_nat (snd (fst e)) (i_tagsU i)) j.
