(* Tie for C10.  One case = the rows the driver extracted from one API program executed in ONE mode
   ([uc] = true: C optimizations, false: PURE_PYTHON).  A row is the abstract input of one twin
   kernel, probed from the live objects independently of the function under test, together with
   the observed outcome (objects numbered by identity within the row).

   check_model : the model written from THIS mode's text (Model/CTwins.v, Model/Order.v) gives
                 the observed outcome;
   check_spec  : the property — the model written from the OTHER text gives the observed outcome,
                 on every input where the equivalence theorems say the two agree (the inputs outside,
                 where a [_refuted] theorem exists, are judged by the cross-mode comparison of
                 harness/props/c10.py); a [RDiff] row records that the traces of the two
                 implementations differ at that op (replay of a differential witness). *)
From Coq Require Import List NArith Bool ZArith Arith.
Import ListNotations.
From ZI Require Export Lib.Str Lib.Util Model.Order Model.CTwins.

Inductive xoperand := XOp (o : operand) | XNamed (id : nat) (name module : pyname).

Inductive row :=
| RProvidedBy (uc : bool) (d : obj_d) (out out_gos : probe)
| RImplementedBy (uc : bool) (d : cls_d) (out : probe)
| RExtends (uc : bool) (slot : nat) (hashable member : bool) (out : nat)
| ROsdGet (uc : bool) (inst : bool) (prov fallback out : probe)
| RCpbGet (uc : bool) (cls_set same_cls inst : bool) (self : nat) (implements : option nat) (out : probe)
| RHash (uc : bool) (tuple_h h1 h2 : Z)
| RHashFail (uc : bool) (o1 o2 : nat)
| RCmp (uc : bool) (a b : xoperand) (rab rba : list N)
| RDiff (op : nat).

Definition case_t := list row.

Definition probe_eqb := res_eqb Nat.eqb.

(* ---- providedBy / getObjectSpecification *)
Definition m_providedBy (uc : bool) (d : obj_d) : probe * probe :=
  if uc then (c_providedBy d, c_getObjectSpecification d)
  else (py_providedBy d, py_getObjectSpecification d).

(* ---- implementedBy: the fast-path answers are checked; the slow paths are Python code shared by
   both implementations and produce a value the description cannot name *)
Definition impl_ok (m : impl_out) (out : probe) : bool :=
  match m with
  | IRet v => probe_eqb (Ok v) out
  | IRaise e => match out with Raise _ => true | Ok _ => false end
  | _ => true
  end.
Definition m_implementedBy (uc : bool) (d : cls_d) : impl_out :=
  if uc then c_implementedBy d else py_implementedBy d.

(* ---- isOrExtends *)
Definition ext_slot (slot : nat) (member : bool) : option ival :=
  match slot with
  | 0 => None
  | 1 => Some IvNone
  | _ => Some (IvDict (if member then [1] else []))
  end.
Definition ext_code (r : res bool) : nat :=
  match r with
  | Ok true => 1 | Ok false => 0
  | Raise EAttr => 2 | Raise EType => 3 | Raise ESys => 4 | Raise (EOther _) => 5
  end.
Definition m_extends (uc : bool) (slot : nat) (hashable member : bool) : nat :=
  let k := mkK 1 (if hashable then None else Some EType) in
  ext_code (if uc then c_SB_extends (ext_slot slot member) k else py_isOrExtends (ext_slot slot member) k).

(* ---- descriptors *)
Definition m_osd (uc : bool) (inst : bool) (prov fallback : probe) : probe :=
  let d := mkOsdD (negb inst) prov fallback fallback in
  if uc then c_OSD_descr_get d else py_osd_get d.
Definition m_cpb (uc : bool) (cls_set same_cls inst : bool) (self : nat) (implements : option nat) : probe :=
  let d := mkCpbD self cls_set same_cls (negb inst) implements in
  if uc then c_CPB_descr_get d else py_cpb_get d.

(* ---- hash: two successive hash() calls of an interface whose key hashes to [th] *)
Definition m_hash (uc : bool) (th : Z) : list (res Z) :=
  if uc then c_hash_run (Ok th) 2 (mkCH true true 0) else py_hash_run (Ok th) 2 (mkPH true true None).
Definition resZ_eqb := res_eqb Z.eqb.
(* two successive hash() calls of a bare InterfaceBase whose name cannot be hashed (TypeError) *)
Definition exc_code (e : exc) : nat :=
  match e with EAttr => 2 | EType => 3 | ESys => 4 | EOther _ => 5 end.
Definition m_hash_fail (uc : bool) : list nat :=
  map (fun r => match r with Ok _ => 1 | Raise e => exc_code e end)
      (if uc then c_hash_run (Raise EType) 2 (mkCH true true 0)
       else py_hash_run (Raise EType) 2 (mkPH true true None)).

(* ---- comparison rows *)
Definition xcode (r : xres) : N := match r with XBool true => 1 | XBool false => 0 | XTypeErr => 2 end%N.

(* [spec OP named]: the specification's own method decides (it never answers NotImplemented for an
   operand that has both attributes); Implements keeps identity == / != *)
Definition spec_vs_named (uc : bool) (a : operand) (n2 m2 : pyname) (o : op) : N :=
  let n1 := VStr (oname a) in
  let m1 := VStr (omodule a) in
  match okind_of a with
  | KIface => xcode (if uc then c_richcompare_x o n1 m1 n2 m2 else py_method_x o n1 m1 n2 m2)
  | _ => match o with
         | OpEq => 0%N
         | OpNe => 1%N
         | _ => xcode (py_method_x o n1 m1 n2 m2)
         end
  end.

Definition is_spec_operand (a : operand) : bool :=
  match okind_of a with KIface | KImpl => true | _ => false end.

Definition m_cmp_row (uc : bool) (a b : xoperand) : option (list N) :=
  match a, b with
  | XOp x, XOp y => Some (binop_row uc x y)
  | XOp x, XNamed _ n m => if is_spec_operand x then Some (map (spec_vs_named uc x n m) all_ops) else None
  | XNamed _ n m, XOp y =>
      (* the foreign object's own methods answer NotImplemented: reflected method of the spec *)
      if is_spec_operand y then Some (map (fun o => spec_vs_named uc y n m (swap_op o)) all_ops) else None
  | _, _ => None
  end.

Definition cmp_ok (uc : bool) (a b : xoperand) (rab rba : list N) : bool :=
  match m_cmp_row uc a b, m_cmp_row uc b a with
  | Some x, Some y => lN_eqb x rab && lN_eqb y rba
  | _, _ => true
  end.

(* the deciding pair of names is comparable (the hypothesis of richcompare_x_eq_py) *)
Definition xnamed_regular (a b : xoperand) : bool :=
  let chk (x : operand) (n m : pyname) :=
    let n1 := VStr (oname x) in
    let m1 := VStr (omodule x) in
    match (if pyname_eqb n1 n then pyname_cmp m1 m else pyname_cmp n1 n) with Some _ => true | None => false end in
  match a, b with
  | XOp x, XNamed _ n m => chk x n m
  | XNamed _ n m, XOp y => chk y n m
  | _, _ => true
  end.

Definition model_row (uc : bool) (r : row) : bool :=
  match r with
  | RProvidedBy _ d out out_gos =>
      let '(p, g) := m_providedBy uc d in probe_eqb p out && probe_eqb g out_gos
  | RImplementedBy _ d out => impl_ok (m_implementedBy uc d) out
  | RExtends _ slot hashable member out => Nat.eqb (m_extends uc slot hashable member) out
  | ROsdGet _ inst prov fallback out => probe_eqb (m_osd uc inst prov fallback) out
  | RCpbGet _ cls_set same_cls inst self implements out =>
      probe_eqb (m_cpb uc cls_set same_cls inst self implements) out
  | RHash _ th h1 h2 => list_eqb resZ_eqb (m_hash uc th) [Ok h1; Ok h2]
  | RHashFail _ o1 o2 => lnat_eqb (m_hash_fail uc) [o1; o2]
  | RCmp _ a b rab rba => cmp_ok uc a b rab rba
  | RDiff _ => true
  end.

Definition row_uc (r : row) : bool :=
  match r with
  | RProvidedBy uc _ _ _ | RImplementedBy uc _ _ | RExtends uc _ _ _ _ | ROsdGet uc _ _ _ _
  | RCpbGet uc _ _ _ _ _ _ | RHash uc _ _ _ | RHashFail uc _ _ | RCmp uc _ _ _ _ => uc
  | RDiff _ => true
  end.

(* the inputs covered by an equivalence theorem of Properties/C10.v *)
Definition row_regular (r : row) : bool :=
  match r with
  | RProvidedBy _ d _ _ => pb_regular d
  | RImplementedBy _ d _ => cls_regular d
  | RCmp _ a b _ _ => xnamed_regular a b
  | _ => true
  end.

Definition check_model_row (r : row) : bool := model_row (row_uc r) r.
Definition check_spec_row (r : row) : bool :=
  match r with
  | RDiff _ => false
  | _ => if row_regular r then model_row (negb (row_uc r)) r else true
  end.

Definition check_model (c : case_t) : bool := forallb check_model_row c.
Definition check_spec (c : case_t) : bool := forallb check_spec_row c.

(* diagnostics: the indices of the rows each check rejects *)
Definition model_out (c : case_t) : list nat * list nat :=
  let idx f := map fst (filter (fun p => negb (f (snd p))) (combine (seq 0 (length c)) c)) in
  (idx check_model_row, idx check_spec_row).
