(* Tie for C05 (lookup caches are transparent).
   A case = the observed specification graph (first known bases of every node), interface flags,
   the history as operations of Model/CacheSys.v, the implementation's answer to every
   operation in the FULL run, and for the probed lookups the answer the implementation gave on a
   fresh world that had run only the mutations before the probe (no earlier lookup). *)
From Coq Require Import List Arith NArith Bool.
Import ListNotations.
From ZI Require Export Tie.RegCommon Model.CacheSys.
From ZI Require Import Proofs.CacheSys.

(* observed answers are binary numbers: unary literals of a few thousand make the case files slow to check *)
Definition case_t := (graph * list bool * list cop * list (list N) * list (nat * list N))%type.

(* crun_fast = crun (Proofs/CacheSys.v crun_fast_eq, re-stated below): the world is recomputed
   only when the graph changes *)
Definition model_out (c : case_t) : list (list nat) :=
  let '(g, ifs, ops, _, _) := c in crun_fast call (mkCS g ifs []) ops.

Lemma model_out_is_crun g ifs ops obs er :
  model_out (g, ifs, ops, obs, er) = crun call (mkCS g ifs []) ops.
Proof. apply crun_fast_eq. Qed.

(* The separator RegSys.step puts between the results and the called subscribers is the unary
   number 999999; the model's answers are cut at 10001 before they are converted to binary numbers
   (every genuine number in an answer is below 10000) and the harness writes 10001 for the
   separator in the observations. *)
Definition norm1 (x : nat) : N := N.of_nat (if Nat.ltb 10000 x then 10001 else x).

Definition llN_eqb := list_eqb (list_eqb N.eqb).

(* the model's answers = the implementation's answers (full run) *)
Definition check_model (c : case_t) : bool :=
  let '(_, _, _, obs, _) := c in llN_eqb (map (map norm1) (model_out c)) obs.

(* the property itself, judged on the implementation's observations only: the answer of every
   probed lookup in the full run equals its answer after the same mutations with no earlier lookup *)
Definition check_spec (c : case_t) : bool :=
  let '(_, _, _, obs, erased) := c in
  forallb (fun ia => list_eqb N.eqb (nth (fst ia) obs [77777%N]) (snd ia)) erased.
