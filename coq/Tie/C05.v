(* Tie for C05 (lookup caches are transparent).
   A case = the observed specification graph (first known bases of every node), interface flags,
   the history as operations of Model/CacheSys.v, the implementation's answer to every
   operation in the FULL run, and for the probed lookups the answer the implementation gave on a
   fresh world that had run only the mutations before the probe (no earlier lookup). *)
From Coq Require Import List Arith Bool.
Import ListNotations.
From ZI Require Export Tie.RegCommon Model.CacheSys.

Definition case_t := (graph * list bool * list cop * list (list nat) * list (nat * list nat))%type.

Definition model_out (c : case_t) : list (list nat) :=
  let '(g, ifs, ops, _, _) := c in crun call (mkCS g ifs []) ops.

(* The separator RegSys.step puts between the results and the called subscribers is the unary
   number 999999; a case file full of such literals does not fit in memory once evaluated, so the
   harness writes 10001 for it in the observations and the model's answers are normalised the same
   way before comparing (every genuine number in an answer is below 10000). *)
Definition norm1 (x : nat) : nat := if Nat.ltb 10000 x then 10001 else x.

(* the model's answers = the implementation's answers (full run) *)
Definition check_model (c : case_t) : bool :=
  let '(_, _, _, obs, _) := c in llnat_eqb (map (map norm1) (model_out c)) obs.

(* the property itself, judged on the implementation's observations only: the answer of every
   probed lookup in the full run equals its answer after the same mutations with no earlier lookup *)
Definition check_spec (c : case_t) : bool :=
  let '(_, _, _, obs, erased) := c in
  forallb (fun ia => list_eqb Nat.eqb (nth (fst ia) obs [777777]) (snd ia)) erased.
