(* Vocabulary of the kernel that harness/translate/super_kernel.py regenerates from
   declarations.py / adapter.py into coq/Gen/SuperKernel.v: one small total function per Python
   construct the translator accepts.  Hand-written, read once; everything else in the generated
   file is the source's own control flow.  Executable definitions only. *)
From Coq Require Import List Arith Bool ZArith.
Import ListNotations.
From ZI Require Import Model.Ro Model.Adapter Model.Lookup Model.Super.

(* a super object: __thisclass__, __self_class__, __self__ (an instance number) *)
Record psuper := mkPS { ps_thisclass : cls; ps_self_class : cls; ps_self : nat }.

(* ---- tuples of classes *)
Definition py_mro (E : env) (c : cls) : option (list cls) := mro_of E c.       (* c.__mro__ *)
Definition py_index (l : list cls) (x : cls) : option Z :=                      (* l.index(x) *)
  option_map Z.of_nat (index_of x l).
(* Python indices: a negative one counts from the end *)
Definition norm_index (len : nat) (i : Z) : option nat :=
  if (i <? 0)%Z then (if (Z.of_nat len + i <? 0)%Z then None else Some (Z.to_nat (Z.of_nat len + i)))
  else Some (Z.to_nat i).
Definition py_item (l : list cls) (i : Z) : option cls :=                       (* l[i] *)
  match norm_index (length l) i with Some k => nth_error l k | None => None end.
Definition py_slice_from (l : list cls) (i : Z) : list cls :=                   (* l[i:] *)
  match norm_index (length l) i with Some k => skipn k l | None => l end.

(* ---- specifications.  implementedBy(c) for a class c is [RCls c] (created on demand) *)
Definition get_super_cache (st : state) (s : sref) : option (list (cls * nat)) :=   (* s._super_cache *)
  match s with RCls c => nget (st_cache st) c | _ => None end.
Definition set_super_cache (st : state) (s : sref) (d : list (cls * nat)) : state := (* s._super_cache = d *)
  match s with
  | RCls c => mkSt (st_decl st) (st_synth st) (nset (st_cache st) c d) (st_regs st)
  | _ => st
  end.
Definition del_super_cache (st : state) (s : sref) : state :=      (* try: del s._super_cache ... *)
  match s with RCls c => drop_cache st c | _ => st end.
(* d[k] = v for the dictionary d that IS s._super_cache *)
Definition store_super_cache (st : state) (s : sref) (k : cls) (v : sref) : state :=
  match s, v with
  | RCls c, RSynth n => mkSt (st_decl st) (st_synth st) (nset (st_cache st) c (nset (cache_of st c) k n)) (st_regs st)
  | _, _ => st
  end.

Definition spec_inherit (st : state) (s : sref) : bool :=           (* s.inherit is not None *)
  match s with
  | RCls c => inherit (st_decl st) c
  | RSynth n => match nth_error (st_synth st) n with Some y => sy_inherit y | None => true end
  | _ => true
  end.
Definition spec_declared (st : state) (s : sref) : list iface * list cls :=    (* s.declared *)
  match s with
  | RCls c => (declared (st_decl st) c, dspecs (st_decl st) c)
  | RSynth n => match nth_error (st_synth st) n with Some y => (sy_declared y, sy_dspecs y) | None => ([], []) end
  | _ => ([], [])
  end.

(* Implements.named(name, *bases): a new specification object; class attributes inherit = None
   is "not None" only after assignment - the model's default flag is irrelevant once assigned *)
Definition classes_of (bases : list sref) : list cls :=
  flat_map (fun r => match r with RCls c => [c] | _ => [] end) bases.
Definition alloc_implements (st : state) (bases : list sref) : state * sref :=
  (mkSt (st_decl st) (st_synth st ++ [mkSynth (classes_of bases) false [] []]) (st_cache st) (st_regs st),
   RSynth (length (st_synth st))).

Fixpoint update_nth {A} (l : list A) (n : nat) (f : A -> A) : list A :=
  match l, n with
  | [], _ => []
  | x :: t, 0 => f x :: t
  | x :: t, S k => x :: update_nth t k f
  end.

Definition set_spec_inherit (st : state) (s : sref) (b : bool) : state :=       (* s.inherit = ... *)
  match s with
  | RSynth n => mkSt (st_decl st)
                     (update_nth (st_synth st) n (fun y => mkSynth (sy_bases y) b (sy_declared y) (sy_dspecs y)))
                     (st_cache st) (st_regs st)
  | _ => st
  end.
Definition set_spec_declared (st : state) (s : sref) (d : list iface * list cls) : state := (* s.declared = ... *)
  match s with
  | RSynth n => mkSt (st_decl st)
                     (update_nth (st_synth st) n (fun y => mkSynth (sy_bases y) (sy_inherit y) (fst d) (snd d)))
                     (st_cache st) (st_regs st)
  | _ => st
  end.

(* ---- arguments of providedBy / implementedBy *)
(* proxies bound to an instance or to a class take the translated path; an unbound proxy
   (__self_class__ None) leaves it through an AttributeError into the untranslated remainder *)
Definition is_super_arg (a : arg) : bool :=
  match a with ASuper _ _ | ASuperC _ _ => true | AObj _ | AUnbound _ => false end.
Definition psuper_of (E : env) (a : arg) : psuper :=
  match a with
  | ASuper C j => mkPS C (obj_cls E j) j
  | ASuperC C T => mkPS C T (cls_ident T)
  | AObj j => mkPS (obj_cls E j) (obj_cls E j) j
  | AUnbound C => mkPS C C none_ident
  end.
(* the parts of implementedBy / providedBy after the ``super`` branch (not translated) *)
Definition implementedBy_rest (E : env) (st : state) (a : arg) : state * option sref :=
  match a with AUnbound _ => (st, Some REmpty) | _ => (st, None) end.
Definition providedBy_rest (E : env) (st : state) (a : arg) : state * option sref :=
  match a with
  | AObj j => (st, Some (provided_by_instance E j))
  | AUnbound _ => (st, Some REmpty)
  | _ => (st, None)
  end.

(* ---- adapter.py: objects handed to adapter_hook / queryMultiAdapter *)
Definition is_super_obj (o : obj) : bool :=                       (* isinstance(o, super) *)
  match o_super_of o with Some _ => true | None => false end.
Definition obj_self (o : obj) : obj :=                            (* o.__self__ *)
  match o_super_of o with Some u => mkObj (o_provides o) u None | None => o end.
(* what a lookup answers as a Python value: the factory or None *)
Definition res_opt (r : res value) : option value := match r with RVal v => Some v | _ => None end.
