(* Several Components objects connected by __bases__: transcription of
   registry.py Components.__init__(name, bases) / _getBases / _setBases
     (``self.adapters.__bases__ = tuple(base.adapters for base in bases)`` and the same for
      ``self.utilities``: the two underlying registries are re-based in parallel)
   on top of Model/Components.v (one [cstate] per object: local bookkeeping and the STORAGE of its
   two registries) and Model/RegSys.v (the registries' resolution order [fresh_ro] over
   __bases__).

   The query methods of an object consult the registries of its current base chain, nearest first.
   They are modelled as the uncached walkers of Model/Adapter.v over the storages of
   [chain S r] = RegSys.fresh_ro of the current __bases__ graph; that the real registries (with
   their lookup caches, stored ``ro`` attributes and change propagation) answer exactly so is the
   subject of C05 (cache transparency) and C06 (lookups use the current chain), and is compared
   with the implementation on every run by the tie, re-basing included.

   Restriction (hypothesis [sys_wf] of the theorems, respected by the generator): re-__init__ of an
   object that is still listed in another object's __bases__ is not modelled (the other object
   would keep consulting the abandoned registry objects).
   Executable definitions only. *)
From Coq Require Import List Arith Bool.
Import ListNotations.
From ZI Require Import Model.Ro Model.Adapter Model.Lookup Model.RegSys Model.Components.

Record csys := mkSys { s_comps : list cstate; s_bases : list (list nat) }.

(* a history starts with one object without bases (number 0) *)
Definition sys_init : csys := mkSys [cinit] [[]].

(* corruption behind the object's back (to exercise the emergency repair method) *)
Inductive tamper :=
| TUnreg (p : spec) (n : name)          (* c.utilities.unregister((), p, n) *)
| TUnsub (p : spec) (v : value).        (* c.utilities.unsubscribe((), p, v) *)

Inductive sop :=
| SNew (bs : list nat)                  (* Components('c<k>', bases=...), numbered in creation order *)
| SSetBases (r : nat) (bs : list nat)   (* c.__bases__ = ... *)
| SOp (r : nat) (o : cop)               (* one of the eight mutators / re-__init__ on object r *)
| STamper (r : nat) (t : tamper)
| SRebuild (r : nat).                   (* c.rebuildUtilityRegistryFromLocalCache(rebuild=True) *)

Fixpoint set_nth {A} (l : list A) (r : nat) (x : A) : list A :=
  match l, r with
  | [], _ => []
  | _ :: l', 0 => x :: l'
  | y :: l', S r' => y :: set_nth l' r' x
  end.

Definition comp (S : csys) (r : nat) : cstate := nth r (s_comps S) cinit.

(* the registries' __bases__ as a RegSys system (only the bases matter for the order) *)
Definition bases_view (S : csys) : sys :=
  map (fun bs => mkRS empty_reg empty_caches bs [] [] [] [] Push) (s_bases S).
Definition chain (S : csys) (r : nat) : list nat := fresh_ro (bases_view S) r.

Section Sys.
  Variable W : world.
  Variable hashable : value -> bool.

  Definition sys_step (S : csys) (o : sop) : csys * ret * list event :=
    match o with
    | SNew bs => (mkSys (s_comps S ++ [cinit]) (s_bases S ++ [bs]), RNone, [])
    | SSetBases r bs => (mkSys (s_comps S) (set_nth (s_bases S) r bs), RNone, [])
    | SOp r o' =>
        let x := cstep W hashable (comp S r) o' in
        (mkSys (set_nth (s_comps S) r (st_of x))
               (match o' with Reinit => set_nth (s_bases S) r [] | _ => s_bases S end),
         ret_of x, evs_of x)
    | STamper r t =>
        let st := comp S r in
        let u := match t with
                 | TUnreg p n => unregister W (c_utils st) [] p n None
                 | TUnsub p v => unsubscribe W (c_utils st) [] (Some p) (Some v)
                 end in
        (mkSys (set_nth (s_comps S) r (with_utils st u)) (s_bases S), RNone, [])
    | SRebuild r =>
        let x := rebuildUtilityRegistry W true (comp S r) in
        (mkSys (set_nth (s_comps S) r (fst x)) (s_bases S), RDict (snd x), [])
    end.

  Definition sys_final (ops : list sop) : csys :=
    fold_left (fun S o => fst (fst (sys_step S o))) ops sys_init.

  (* ---- query methods of object r: walkers over the storages of its current chain *)
  Variable call : value -> list nat -> option nat.

  Definition u_regs (S : csys) (r : nat) : list reg := map (fun j => c_utils (comp S j)) (chain S r).
  Definition a_regs (S : csys) (r : nat) : list reg := map (fun j => c_adapters (comp S j)) (chain S r).

  Definition sys_queryUtility (S : csys) (r : nat) (p : spec) (n : name) : option value :=
    uncached_lookup W (u_regs S r) [] p n.
  Definition sys_getUtilitiesFor (S : csys) (r : nat) (p : spec) : list (name * value) :=
    uncached_lookupAll W (u_regs S r) [] p.
  Definition sys_getAllUtilitiesRegisteredFor (S : csys) (r : nat) (p : spec) : list value :=
    uncached_subscriptions W (u_regs S r) [] (Some p).
  Definition sys_queryMultiAdapter (S : csys) (r : nat) (os : list cobj) (p : spec) (n : name) : option nat :=
    match uncached_lookup W (a_regs S r) (map fst os) p n with
    | Some f => call f (map snd os)
    | None => None
    end.
  Definition sys_getAdapters (S : csys) (r : nat) (os : list cobj) (p : spec) : list (name * nat) :=
    flat_map (fun nf => match call (snd nf) (map snd os) with Some x => [(fst nf, x)] | None => [] end)
             (uncached_lookupAll W (a_regs S r) (map fst os) p).
  Definition sys_subscribers (S : csys) (r : nat) (os : list cobj) (p : spec) : list nat * list value :=
    let subs := uncached_subscriptions W (a_regs S r) (map fst os) (Some p) in
    (flat_map (fun s => match call s (map snd os) with Some x => [x] | None => [] end) subs, subs).
  Definition sys_handle (S : csys) (r : nat) (os : list cobj) : list value :=
    uncached_subscriptions W (a_regs S r) (map fst os) None.
End Sys.

(* the operations addressed to object i *)
Definition proj (i : nat) (ops : list sop) : list cop :=
  flat_map (fun o => match o with SOp r c => if Nat.eqb r i then [c] else [] | _ => [] end) ops.

(* (tampering and the repair call are outside the well-formed histories of the theorems) *)

(* well-formed histories: objects exist when they are used, __bases__ name earlier objects
   (hence no cycles), and an object that others still list as a base is not re-initialised.
   [n] = number of objects so far, [bs] = their current __bases__ *)
Fixpoint sys_wf_from (n : nat) (bs : list (list nat)) (ops : list sop) : bool :=
  match ops with
  | [] => true
  | SNew b :: ops' => forallb (fun x => Nat.ltb x n) b && sys_wf_from (S n) (bs ++ [b]) ops'
  | SSetBases r b :: ops' =>
      Nat.ltb r n && forallb (fun x => Nat.ltb x r) b && sys_wf_from n (set_nth bs r b) ops'
  | SOp r Reinit :: ops' =>
      Nat.ltb r n && negb (existsb (fun b => existsb (Nat.eqb r) b) bs) && sys_wf_from n (set_nth bs r []) ops'
  | SOp r _ :: ops' => Nat.ltb r n && sys_wf_from n bs ops'
  | STamper _ _ :: _ | SRebuild _ :: _ => false
  end.
Definition sys_wf (ops : list sop) : bool := sys_wf_from 1 [[]] ops.
