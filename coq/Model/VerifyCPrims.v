(* Vocabulary for Gen/VerifyC.v (harness/translate/verify_c.py): the data semantics of the C functions
   VB_clear / LB_clear / _generations_tuple / verify_changed / _verify of
   _zope_interface_coptimizations.c, over Model/RegSys.v.  The C object additionally distinguishes a NULL
   slot from a filled one: a C-level state is the system plus, for the lookup object being operated on,
   whether _verify_ro / _verify_generations are NULL.  Executable definitions only. *)
From Coq Require Import List Arith Bool.
Import ListNotations.
From ZI Require Import Model.Ro Model.Adapter Model.Lookup Model.RegSys Model.RegPrim.

Record cst := mkCst { c_sys : sys; c_null_ro : bool; c_null_gens : bool }.

Definition pc_lift (f : sys -> sys) (st : cst) : cst := mkCst (f (c_sys st)) (c_null_ro st) (c_null_gens st).
(* Py_CLEAR(self->_verify_ro) / Py_CLEAR(self->_verify_generations) *)
Definition pc_clear_slot_ro (st : cst) : cst := mkCst (c_sys st) true (c_null_gens st).
Definition pc_clear_slot_gens (st : cst) : cst := mkCst (c_sys st) (c_null_ro st) true.
(* Py_XSETREF(self->_verify_ro, v) / Py_XSETREF(self->_verify_generations, v) *)
Definition p_store_verify_ro (s : sys) (r : nat) (l : list nat) : sys :=
  upd s r (fun x => mkRS (rs_reg x) (rs_caches x) (rs_bases x) (rs_ro x) (rs_subs x) l (rs_vgen x) (rs_flavour x)).
Definition pc_store_ro (st : cst) (r : nat) (l : list nat) : cst :=
  mkCst (p_store_verify_ro (c_sys st) r l) false (c_null_gens st).
Definition pc_store_gens (st : cst) (r : nat) (g : list nat) : cst :=
  mkCst (p_set_verify_gens (c_sys st) r g) (c_null_ro st) false.
(* self->_verify_ro / self->_verify_generations (read under a non-NULL test) *)
Definition pc_slot_ro (st : cst) (r : nat) : list nat := rs_vro (get (c_sys st) r).
Definition pc_slot_gens (st : cst) (r : nat) : list nat := rs_vgen (get (c_sys st) r).
(* getattr(getattr(self, '_registry'), 'ro') ; tuple(x) keeps the elements *)
Definition pc_registry_ro (st : cst) (r : nat) : list nat := rs_ro (get (c_sys st) r).
(* PyTuple_GetSlice(t, a, b) *)
Definition p_slice (l : list nat) (a b : nat) : list nat := firstn (b - a) (skipn a l).
(* getattr(x, '_generation') *)
Definition pc_generation (st : cst) (x : nat) : nat := generation (rs_reg (get (c_sys st) x)).
(* PyTuple_New(l) filled at every index i < l with f(item i) *)
Definition p_tuple_map (f : nat -> nat) (l : list nat) : list nat := map f l.
