(* A system of adapter registries connected by __bases__: transcription of
   BaseAdapterRegistry.__init__ / _setBases / _refresh_ro / changed,
   AdapterRegistry (push invalidation: _v_subregistries, _setBases, _refresh_ro, changed),
   VerifyingAdapterRegistry + VerifyingBase (changed / _verify: generation snapshots) and
   VerifyingAdapterLookup.changed, on top of Model/Adapter.v (storage, uncached lookups) and
   Model/Lookup.v (caches, entry points).  The specification world [W] is static here.
   Executable definitions only. *)
From Coq Require Import List Arith Bool.
Import ListNotations.
From ZI Require Import Model.Ro Model.Adapter Model.Lookup.

Inductive flavour := Push | Verifying.

Record rstate := mkRS {
  rs_reg : reg;
  rs_caches : caches;
  rs_bases : list nat;      (* __bases__ (registry numbers) *)
  rs_ro : list nat;         (* the cached ``ro`` attribute, self first *)
  rs_subs : list nat;       (* _v_subregistries (Push flavour only) *)
  rs_vro : list nat;        (* _verify_ro (Verifying flavour) *)
  rs_vgen : list nat;       (* _verify_generations *)
  rs_flavour : flavour
}.

Definition sys := list rstate.

Definition dummy_rs : rstate := mkRS empty_reg empty_caches [] [] [] [] [] Push.
Definition get (s : sys) (r : nat) : rstate := nth r s dummy_rs.

Fixpoint set (s : sys) (r : nat) (x : rstate) : sys :=
  match s, r with
  | [], _ => []
  | _ :: s', 0 => x :: s'
  | y :: s', S r' => y :: set s' r' x
  end.

Definition upd (s : sys) (r : nat) (f : rstate -> rstate) : sys := set s r (f (get s r)).

Definition reg_graph (s : sys) : graph :=
  combine (seq 0 (length s)) (map rs_bases s).

(* ro.ro(registry): plain C3 over the registries' __bases__ (non-strict; no root fix-up) *)
Definition fresh_ro (s : sys) (r : nat) : list nat :=
  match Ro.ro false false (S (length s)) (reg_graph s) r with
  | ROk m _ => m
  | _ => [r]
  end.

Definition gens (s : sys) (l : list nat) : list nat := map (fun r => generation (rs_reg (get s r))) l.

(* BaseAdapterRegistry._refresh_ro, AdapterRegistry._refresh_ro (recurses into sub-registries) *)
Fixpoint refresh_ro (fuel : nat) (s : sys) (r : nat) : sys :=
  let x := get s r in
  let s1 := set s r (mkRS (rs_reg x) (rs_caches x) (rs_bases x) (fresh_ro s r) (rs_subs x)
                          (rs_vro x) (rs_vgen x) (rs_flavour x)) in
  match fuel with
  | 0 => s1
  | S f => match rs_flavour x with
           | Push => fold_left (fun acc sub => refresh_ro f acc sub) (rs_subs x) s1
           | Verifying => s1
           end
  end.

(* the lookup object's changed(): drop caches; the verifying flavour snapshots ro[1:] and the
   generations; VerifyingAdapterLookup.changed always refreshes the registry's ro first, so the
   snapshot is taken over a current order.  [from_verify] = called with None (failed
   verification); kept for documentation, both callers behave alike. *)
Definition lookup_changed (from_verify : bool) (s : sys) (r : nat) : sys :=
  let x := get s r in
  match rs_flavour x with
  | Push => set s r (mkRS (rs_reg x) empty_caches (rs_bases x) (rs_ro x) (rs_subs x) (rs_vro x) (rs_vgen x) Push)
  | Verifying =>
      let s0 := refresh_ro 0 s r in
      let x0 := get s0 r in
      let vro := tl (rs_ro x0) in
      set s0 r (mkRS (rs_reg x0) empty_caches (rs_bases x0) (rs_ro x0) (rs_subs x0) vro (gens s0 vro) Verifying)
  end.

Definition bump (x : rstate) : rstate :=
  mkRS (changed (rs_reg x)) (rs_caches x) (rs_bases x) (rs_ro x) (rs_subs x) (rs_vro x) (rs_vgen x) (rs_flavour x).

(* registry.changed(orig) when the registry's own generation was ALREADY bumped by the storage
   operation (Model/Adapter.v mutators bump it): lookup.changed, then sub-registries' changed *)
Fixpoint sub_changed (fuel : nat) (s : sys) (r : nat) : sys :=
  (* BaseAdapterRegistry.changed for a sub-registry: bump + lookup.changed, then recurse *)
  let s1 := lookup_changed false (upd s r bump) r in
  match fuel with
  | 0 => s1
  | S f => match rs_flavour (get s1 r) with
           | Push => fold_left (fun acc sub => sub_changed f acc sub) (rs_subs (get s1 r)) s1
           | Verifying => s1
           end
  end.

Definition after_bump (s : sys) (r : nat) : sys :=
  let s1 := lookup_changed false s r in
  match rs_flavour (get s1 r) with
  | Push => fold_left (fun acc sub => sub_changed (length s) acc sub) (rs_subs (get s1 r)) s1
  | Verifying => s1
  end.

(* apply a storage mutator of Model/Adapter.v to registry r; if it changed anything
   (generation bumped) run the invalidation *)
Definition mutate (s : sys) (r : nat) (f : reg -> reg) : sys :=
  let x := get s r in
  let g' := f (rs_reg x) in
  if Nat.eqb (generation g') (generation (rs_reg x)) then s
  else after_bump (set s r (mkRS g' (rs_caches x) (rs_bases x) (rs_ro x) (rs_subs x) (rs_vro x)
                                 (rs_vgen x) (rs_flavour x))) r.

Definition remove_nat (x : nat) (l : list nat) : list nat := filter (fun y => negb (Nat.eqb x y)) l.

(* _setBases: sub-registry bookkeeping (Push), __bases__, _refresh_ro, changed(self) *)
Definition set_bases (s : sys) (r : nat) (bs : list nat) : sys :=
  let x := get s r in
  let old := rs_bases x in
  let s1 := match rs_flavour x with
            | Push =>
                let sa := fold_left (fun acc b => if mem b bs then acc
                                                  else upd acc b (fun y => mkRS (rs_reg y) (rs_caches y) (rs_bases y) (rs_ro y)
                                                                                (remove_nat r (rs_subs y)) (rs_vro y) (rs_vgen y) (rs_flavour y)))
                                    old s in
                fold_left (fun acc b => if mem b old then acc
                                        else upd acc b (fun y => mkRS (rs_reg y) (rs_caches y) (rs_bases y) (rs_ro y)
                                                                      (if mem r (rs_subs y) then rs_subs y else rs_subs y ++ [r])
                                                                      (rs_vro y) (rs_vgen y) (rs_flavour y)))
                          bs sa
            | Verifying => s
            end in
  let s2 := upd s1 r (fun y => mkRS (rs_reg y) (rs_caches y) bs (rs_ro y) (rs_subs y) (rs_vro y) (rs_vgen y) (rs_flavour y)) in
  let s3 := refresh_ro (length s) s2 r in
  after_bump (upd s3 r bump) r.

(* a new registry appended at index [length s] *)
Definition new_reg (s : sys) (fl : flavour) (bs : list nat) : sys :=
  let s0 := s ++ [mkRS empty_reg empty_caches [] [] [] [] [] fl] in
  set_bases s0 (length s) bs.

(* VerifyingBase._verify, run before every lookup entry point of a verifying registry *)
Definition verify (s : sys) (r : nat) : sys :=
  let x := get s r in
  match rs_flavour x with
  | Push => s
  | Verifying => if lspec_eqb (gens s (rs_vro x)) (rs_vgen x) then s else lookup_changed true s r
  end.

(* ---- canonical encodings of answers as lists of numbers *)
Fixpoint lex_leb (a b : list nat) : bool :=
  match a, b with
  | [], _ => true
  | _ :: _, [] => false
  | x :: a', y :: b' => if Nat.ltb x y then true else if Nat.ltb y x then false else lex_leb a' b'
  end.

(* stable insertion sort of (key, payload) pairs by key *)
Fixpoint ins_sorted {A} (x : list nat * A) (l : list (list nat * A)) : list (list nat * A) :=
  match l with
  | [] => [x]
  | y :: l' => if lex_leb (fst y) (fst x) then y :: ins_sorted x l' else x :: l
  end.
Definition sort_by_key {A} (l : list (list nat * A)) : list (list nat * A) :=
  fold_left (fun acc x => ins_sorted x acc) l [].

Definition enc_res_value (r : res value) : list nat :=
  match r with RVal v => [1; vid v] | RDefault => [0] | RValueError => [2] end.
Definition enc_res_nat (r : res nat) : list nat :=
  match r with RVal n => [1; n] | RDefault => [0] | RValueError => [2] end.
Definition enc_pairs (l : list (name * value)) : list nat :=
  flat_map (fun kv => fst kv ++ [snd kv]) (sort_by_key (map (fun nv => ([fst nv], vid (snd nv))) l)).
Definition enc_names (l : list name) : list nat :=
  flat_map (fun kv => fst kv) (sort_by_key (map (fun n => ([n], tt)) l)).
Definition enc_akey (k : akey) : list nat :=
  let '(r, p, n) := k in length r :: r ++ [p; n].
Definition enc_skey (k : skey) : list nat :=
  length (fst k) :: fst k ++ [match snd k with None => 0 | Some p => S p end].
Definition enc_allregs (l : list (akey * value)) : list nat :=
  flat_map (fun kv => fst kv ++ [snd kv]) (sort_by_key (map (fun kv => (enc_akey (fst kv), vid (snd kv))) l)).
Definition enc_allsubs (l : list (skey * value)) : list nat :=
  flat_map (fun kv => fst kv ++ [snd kv]) (sort_by_key (map (fun kv => (enc_skey (fst kv), vid (snd kv))) l)).

(* ---- operations of a history and their observable answers *)
Inductive rop :=
| ONewReg (fl : flavour) (bs : list nat)
| OSetRegBases (r : nat) (bs : list nat)
| ORegister (r : nat) (req : list (option spec)) (p : spec) (n : name) (v : option value)
| OUnregister (r : nat) (req : list (option spec)) (p : spec) (n : name) (v : option value)
| OSubscribe (r : nat) (req : list (option spec)) (p : option spec) (v : value)
| OUnsubscribe (r : nat) (req : list (option spec)) (p : option spec) (v : option value)
| ORebuild (r : nat)
| QLookup (r : nat) (req : list spec) (p : spec) (n : name_arg)
| QLookup1 (r : nat) (req : spec) (p : spec) (n : name_arg)
| QLookupAll (r : nat) (req : list spec) (p : spec)
| QNames (r : nat) (req : list spec) (p : spec)
| QSubscriptions (r : nat) (req : list spec) (p : option spec)
| QRegistered (r : nat) (req : list (option spec)) (p : spec) (n : name)
| QSubscribed (r : nat) (req : list (option spec)) (p : option spec) (v : value)
| QAllRegistrations (r : nat)
| QAllSubscriptions (r : nat)
| QQueryAdapter (r : nat) (o : obj) (p : spec) (n : name_arg)
| QAdapterHook (r : nat) (o : obj) (p : spec) (n : name_arg)
| QQueryMultiAdapter (r : nat) (os : list obj) (p : spec) (n : name_arg)
| QSubscribers (r : nat) (os : list obj) (p : option spec).

Section Run.
  Variable W : world.
  Variable call : value -> list nat -> option nat.

  Definition ro_regs (s : sys) (r : nat) : list reg := map (fun i => rs_reg (get s i)) (rs_ro (get s r)).

  Definition set_caches (x : rstate) (c : caches) : rstate :=
    mkRS (rs_reg x) c (rs_bases x) (rs_ro x) (rs_subs x) (rs_vro x) (rs_vgen x) (rs_flavour x).

  (* run a lookup entry point of registry r: verify first, thread the caches *)
  Definition with_lookup {A} (s : sys) (r : nat)
             (f : (list spec -> spec -> name -> option value) ->
                  (list spec -> spec -> list (name * value)) ->
                  (list spec -> option spec -> list value) -> caches -> caches * A) : sys * A :=
    let s1 := verify s r in
    let regs := ro_regs s1 r in
    let '(c', a) := f (uncached_lookup W regs) (uncached_lookupAll W regs) (uncached_subscriptions W regs)
                      (rs_caches (get s1 r)) in
    (upd s1 r (fun x => set_caches x c'), a).

  Definition step (s : sys) (o : rop) : sys * list nat :=
    match o with
    | ONewReg fl bs => (new_reg s fl bs, [])
    | OSetRegBases r bs => (set_bases s r bs, [])
    | ORegister r req p n v => (mutate s r (fun g => register W g req p n v), [])
    | OUnregister r req p n v => (mutate s r (fun g => unregister W g req p n v), [])
    | OSubscribe r req p v => (mutate s r (fun g => subscribe W g req p v), [])
    | OUnsubscribe r req p v => (mutate s r (fun g => unsubscribe W g req p v), [])
    | ORebuild r =>
        (* rebuild() = __init__(bases) (fresh lookup object, generation keeps counting because
           _generation is an instance attribute once bumped) + replay; each replayed call runs
           changed().  Observable effect on storage: Model/Adapter.rebuild; caches end empty. *)
        let x := get s r in
        let s1 := set s r (mkRS (rebuild W (rs_reg x)) (rs_caches x) (rs_bases x) (rs_ro x)
                                (rs_subs x)      (* __init__ keeps an existing _v_subregistries *)
                                (rs_vro x) (rs_vgen x) (rs_flavour x)) in
        (after_bump s1 r, [])
    | QLookup r req p n =>
        let '(s', a) := with_lookup s r (fun ul _ _ c => lookup ul c req p n) in (s', enc_res_value a)
    | QLookup1 r req p n =>
        let '(s', a) := with_lookup s r (fun ul _ _ c => lookup1 ul c req p n) in (s', enc_res_value a)
    | QLookupAll r req p =>
        let '(s', a) := with_lookup s r (fun _ ua _ c => lookupAll ua c req p) in (s', enc_pairs a)
    | QNames r req p =>
        let '(s', a) := with_lookup s r (fun _ ua _ c => names ua c req p) in (s', enc_names a)
    | QSubscriptions r req p =>
        let '(s', a) := with_lookup s r (fun _ _ us c => subscriptions us c req p) in (s', map vid a)
    | QRegistered r req p n =>
        (s, match registered (rs_reg (get s r)) req p n with Some v => [vid v] | None => [] end)
    | QSubscribed r req p v => (s, [if subscribed (rs_reg (get s r)) req p v then 1 else 0])
    | QAllRegistrations r => (s, enc_allregs (allRegistrations (rs_reg (get s r))))
    | QAllSubscriptions r => (s, enc_allsubs (allSubscriptions (rs_reg (get s r))))
    | QQueryAdapter r o p n | QAdapterHook r o p n =>
        let '(s', a) := with_lookup s r (fun ul _ _ c => adapter_hook ul call c p o n) in (s', enc_res_nat a)
    | QQueryMultiAdapter r os p n =>
        let '(s', a) := with_lookup s r (fun ul _ _ c => queryMultiAdapter ul call c os p n) in (s', enc_res_nat a)
    | QSubscribers r os p =>
        let '(s', a) := with_lookup s r (fun _ _ us c => subscribers us call c os p) in
        (s', fst a ++ [999999] ++ map vid (snd a))
    end.

  (* a history: answers of every operation, in order *)
  Fixpoint run (s : sys) (ops : list rop) : list (list nat) :=
    match ops with
    | [] => []
    | o :: ops' => let '(s', a) := step s o in a :: run s' ops'
    end.

  Definition final (s : sys) (ops : list rop) : sys := fold_left (fun s o => fst (step s o)) ops s.
End Run.
