(* A small Python statement language and its interpreter, used to give meaning to the kernels that
   harness/translate/adapt_py.py regenerates from interface.py (InterfaceBase.__call__,
   InterfaceBase.__adapt__, InterfaceClass._call_conform) into Gen/AdaptPy.v.

   The translator only emits *data* (terms of [stmt]); what the data means is fixed here, over the
   vocabulary of Model/Adapt.v: the behaviours of the object, the hooks and the overridden methods
   are inputs, the result is the log of external steps and how the function ended.
   Hand-written and trusted like Model/Adapt.v; no proofs in this file. *)
From Coq Require Import List Bool Arith String.
Import ListNotations.
From ZI Require Import Model.Adapt.

(* the bases InterfaceClass.__new__ gives to a custom-methods class: the class [cls] it was called
   with, and/or _InterfaceClassWithCustomMethods (which defines nothing) *)
Inductive cbase := CCls | CWcm.

(* methods called on self *)
Inductive meth := MCallConform | MAdapt | MProvidedBy.
(* exception classes named in `except` clauses *)
Inductive xclass := XAttributeError | XTypeError.

Inductive expr :=
| EVar (x : string)              (* a local variable *)
| EParam (n : nat)               (* the n-th parameter of the function *)
| ENone
| EMarker                        (* the module-level sentinel `_marker` *)
| EHooks                         (* the module-level list `adapter_hooks` *)
| EConformAttr (e : expr)        (* e.__conform__ *)
| ECall1 (f a : expr)            (* f(a) *)
| ECall2 (f a b : expr)          (* f(a, b) *)
| ESelfCall (m : meth) (a : expr)   (* self.m(a) *)
| EIs (a b : expr) | EIsNot (a b : expr)
| ENot (a : expr)
| EAnd (a b : expr) | EOr (a b : expr)   (* short-circuit; the value is that of the deciding operand *)
| ETbNext.                       (* sys.exc_info()[2].tb_next *)

Inductive stmt :=
| SAssign (x : string) (e : expr)
| SIf (c : expr) (thn els : list stmt)
| SReturn (e : expr)
| SRaiseCouldNotAdapt            (* raise TypeError("Could not adapt", obj, self) *)
| SReraise                       (* raise *)
| STry (body : list stmt) (x : xclass) (handler : list stmt)
| SFor (x : string) (it : expr) (body : list stmt).

(* values *)
Inductive pv :=
| PNone | PMarker | PSelf | PObj | PAlt
| PVal (v : nat)                 (* an adapter *)
| PBool (b : bool)
| PConform (c : conform)         (* the callable obj.__conform__ *)
| PHook (i : nat) (h : hook)     (* adapter_hooks[i] *)
| PHooks                         (* the list itself *)
| PTb.                           (* a traceback object *)

Inductive eres := EV (v : pv) | EX (r : raised) | EStuck.

Definition env := list (string * pv).

Inductive ctl :=
| CNorm (l : env)                (* fell through *)
| CRet (v : pv)
| CExc (r : raised)
| CCna                           (* TypeError("Could not adapt", obj, self) raised *)
| CStuck.                        (* outside the modelled fragment *)

Fixpoint lookup (x : string) (l : env) : option pv :=
  match l with
  | [] => None
  | (y, v) :: t => if String.eqb x y then Some v else lookup x t
  end.

(* `a is b` *)
Definition pv_is (a b : pv) : bool :=
  match a, b with
  | PNone, PNone | PMarker, PMarker | PSelf, PSelf | PObj, PObj | PAlt, PAlt | PHooks, PHooks => true
  | PVal v, PVal w => Nat.eqb v w
  | _, _ => false
  end.

Definition truth (v : pv) : bool :=
  match v with PBool b => b | PNone => false | _ => true end.

Definition of_value (a : value) : pv := match a with VObj => PObj | VVal v => PVal v end.

Definition eres_of_ares (r : res (option value)) : eres :=
  match r with
  | Ok None => EV PNone
  | Ok (Some a) => EV (of_value a)
  | Raise x => EX x
  end.

Definition xmatches (x : xclass) (r : raised) : bool :=
  match x with XAttributeError => is_attribute_error r | XTypeError => is_type_error r end.

Section Interp.
  Variable o : obj.                                   (* behaviours of obj and of the hooks *)
  Variable methods : meth -> pv -> list ev * eres.    (* self.m(a) *)
  Variable params : list pv.

  (* [cur]: the exception being handled (inside an except clause) *)
  Fixpoint eval (cur : option raised) (l : env) (e : expr) : list ev * eres :=
    match e with
    | EVar x => ([], match lookup x l with Some v => EV v | None => EStuck end)
    | EParam n => ([], match nth_error params n with Some v => EV v | None => EStuck end)
    | ENone => ([], EV PNone)
    | EMarker => ([], EV PMarker)
    | EHooks => ([], EV PHooks)
    | EConformAttr a =>
        match eval cur l a with
        | (lg, EV PObj) =>
            (lg ++ [EvGetConform],
             match getattr_conform (conf o) with
             | Ok None => EV PNone
             | Ok (Some _) => EV (PConform (conf o))
             | Raise r => EX r
             end)
        | (lg, EV _) => (lg, EStuck)
        | r => r
        end
    | ECall1 f a =>
        match eval cur l f with
        | (lf, EV vf) =>
            match eval cur l a with
            | (la, EV va) =>
                match vf, va with
                | PConform c, PSelf =>
                    (lf ++ la ++ [EvCallConform],
                     match apply_conform c with
                     | Ok None => EV PNone
                     | Ok (Some v) => EV (PVal v)
                     | Raise r => EX r
                     end)
                | _, _ => (lf ++ la, EStuck)
                end
            | (la, r) => (lf ++ la, r)
            end
        | r => r
        end
    | ECall2 f a b =>
        match eval cur l f with
        | (lf, EV vf) =>
            match eval cur l a with
            | (la, EV va) =>
                match eval cur l b with
                | (lb, EV vb) =>
                    match vf, va, vb with
                    | PHook i h, PSelf, PObj =>
                        (lf ++ la ++ lb ++ [EvHook i], eres_of_ares (call_hook h))
                    | _, _, _ => (lf ++ la ++ lb, EStuck)
                    end
                | (lb, r) => (lf ++ la ++ lb, r)
                end
            | (la, r) => (lf ++ la, r)
            end
        | r => r
        end
    | ESelfCall m a =>
        match eval cur l a with
        | (la, EV va) => let (lm, r) := methods m va in (la ++ lm, r)
        | r => r
        end
    | EIs a b =>
        match eval cur l a with
        | (la, EV va) =>
            match eval cur l b with
            | (lb, EV vb) => (la ++ lb, EV (PBool (pv_is va vb)))
            | (lb, r) => (la ++ lb, r)
            end
        | r => r
        end
    | EIsNot a b =>
        match eval cur l a with
        | (la, EV va) =>
            match eval cur l b with
            | (lb, EV vb) => (la ++ lb, EV (PBool (negb (pv_is va vb))))
            | (lb, r) => (la ++ lb, r)
            end
        | r => r
        end
    | ENot a =>
        match eval cur l a with
        | (la, EV va) => (la, EV (PBool (negb (truth va))))
        | r => r
        end
    | EAnd a b =>
        match eval cur l a with
        | (la, EV va) =>
            if truth va then let (lb, r) := eval cur l b in (la ++ lb, r) else (la, EV va)
        | r => r
        end
    | EOr a b =>
        match eval cur l a with
        | (la, EV va) =>
            if truth va then (la, EV va) else let (lb, r) := eval cur l b in (la ++ lb, r)
        | r => r
        end
    | ETbNext =>
        ([], match cur with
             | Some r => EV (if tb_single r then PNone else PTb)
             | None => EStuck
             end)
    end.

  (* a block of statements, given the interpreter of one statement *)
  Definition block (ex : option raised -> env -> stmt -> list ev * ctl) :=
    fix go (cur : option raised) (l : env) (ss : list stmt) : list ev * ctl :=
      match ss with
      | [] => ([], CNorm l)
      | s :: rest =>
          match ex cur l s with
          | (l1, CNorm l') => let (l2, c) := go cur l' rest in (l1 ++ l2, c)
          | r => r
          end
      end.

  (* `for x in adapter_hooks: body` from position i *)
  Definition for_hooks (run_body : env -> list ev * ctl) (x : string) :=
    fix loop (i : nat) (hs : list hook) (l : env) : list ev * ctl :=
      match hs with
      | [] => ([], CNorm l)
      | h :: t =>
          match run_body ((x, PHook i h) :: l) with
          | (l1, CNorm l') => let (l2, c) := loop (S i) t l' in (l1 ++ l2, c)
          | r => r
          end
      end.

  Fixpoint exec (cur : option raised) (l : env) (s : stmt) : list ev * ctl :=
    match s with
    | SAssign x e =>
        match eval cur l e with
        | (lg, EV v) => (lg, CNorm ((x, v) :: l))
        | (lg, EX r) => (lg, CExc r)
        | (lg, EStuck) => (lg, CStuck)
        end
    | SIf c thn els =>
        match eval cur l c with
        | (lg, EV v) =>
            let (l2, r) := block exec cur l (if truth v then thn else els) in (lg ++ l2, r)
        | (lg, EX r) => (lg, CExc r)
        | (lg, EStuck) => (lg, CStuck)
        end
    | SReturn e =>
        match eval cur l e with
        | (lg, EV v) => (lg, CRet v)
        | (lg, EX r) => (lg, CExc r)
        | (lg, EStuck) => (lg, CStuck)
        end
    | SRaiseCouldNotAdapt => ([], CCna)
    | SReraise => ([], match cur with Some r => CExc r | None => CStuck end)
    | STry body x handler =>
        match block exec cur l body with
        | (lg, CExc r) =>
            if xmatches x r then
              let (l2, c) := block exec (Some r) l handler in (lg ++ l2, c)
            else (lg, CExc r)
        | r => r
        end
    | SFor x it body =>
        match eval cur l it with
        | (lg, EV PHooks) =>
            let (l2, c) := for_hooks (fun l' => block exec cur l' body) x 0 (hooks o) l in (lg ++ l2, c)
        | (lg, EV _) => (lg, CStuck)
        | (lg, EX r) => (lg, CExc r)
        | (lg, EStuck) => (lg, CStuck)
        end
    end.

  (* run a function body; falling off the end returns None *)
  Definition run_fn (body : list stmt) : list ev * ctl :=
    match block exec None [] body with
    | (lg, CNorm _) => (lg, CRet PNone)
    | r => r
    end.
End Interp.

(* how a function ended, as a method result seen by its caller *)
Definition eres_of_ctl (c : ctl) : eres :=
  match c with
  | CRet v => EV v
  | CExc r => EX r
  | CNorm _ => EV PNone
  | CCna | CStuck => EStuck
  end.

Definition no_methods (m : meth) (a : pv) : list ev * eres := ([], EStuck).
