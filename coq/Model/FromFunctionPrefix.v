(* FROZEN COPY (not regenerated): the output of harness/translate/fromfunction.py on
   zope/interface/interface.py as it was BEFORE the fix "fromFunction locates *args/**kw after
   keyword-only parameters" (parent of /repo commit 790c89b): ``argno = na`` instead of
   ``argno = na + code.co_kwonlyargcount``.  Used only by the Example
   C18_prefix_formula_refuted in Properties/C18.v, which shows that the property theorem
   depends on the fix. *)
From Coq Require Import List ZArith Bool.
Import ListNotations.
From ZI Require Import Model.PyFunc.

Definition fromFunction_prefix (co : code) : result method :=
  let f_positional := (@nil name) in
  let f_required := (@nil name) in
  let f_optional := (@nil (name * dflt)) in
  let f_varargs := (@None name) in
  let f_kwargs := (@None name) in
  let f_tagged := (@nil (name * dflt)) in
  let v_defaults := (fn_defaults co) in
  let v_na := ((Z.of_nat (co_argcount co)) - (Z.of_nat (fn_imlevel co)))%Z in
  let v_names := (py_slice (co_varnames co) (Some (Z.of_nat (fn_imlevel co))) None) in
  let v_opt := (@nil (name * dflt)) in
  let v_defaults_count := (py_len v_defaults) in
  rbind (if (negb (negb (v_defaults_count =? 0)%Z)) then
    let v_defaults_count := (0)%Z in
    Ok (v_defaults_count)
  else
    Ok (v_defaults_count))
  (fun v_defaults_count =>
  let v_nr := (v_na - v_defaults_count)%Z in
  rbind (if (v_nr <? (0)%Z)%Z then
    let v_defaults := (py_slice v_defaults (Some (- v_nr)%Z) None) in
    let v_nr := (0)%Z in
    Ok (v_defaults, v_nr)
  else
    Ok (v_defaults, v_nr))
  (fun '(v_defaults, v_nr) =>
  let v_opt := (dict_update v_opt (dict_of_pairs (py_zip (py_slice v_names (Some v_nr) None) v_defaults))) in
  let f_positional := (py_slice v_names None (Some v_na)) in
  let f_required := (py_slice v_names None (Some v_nr)) in
  let f_optional := v_opt in
  let v_argno := v_na in
  rbind (if (has_varargs co) then
    rbind (py_index v_names v_argno) (fun t_item =>
    let f_varargs := Some t_item in
    let v_argno := (v_argno + (1)%Z)%Z in
    Ok (f_varargs, v_argno))
  else
    let f_varargs := (@None name) in
    Ok (f_varargs, v_argno))
  (fun '(f_varargs, v_argno) =>
  rbind (if (has_varkw co) then
    rbind (py_index v_names v_argno) (fun t_item =>
    let f_kwargs := Some t_item in
    Ok (f_kwargs))
  else
    let f_kwargs := (@None name) in
    Ok (f_kwargs))
  (fun f_kwargs =>
  let f_tagged := (dict_update f_tagged (fn_dict co)) in
  Ok (mkMethod f_positional f_required f_optional f_varargs f_kwargs f_tagged))))).

