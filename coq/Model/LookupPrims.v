(* Vocabulary of the GENERATED cache-layer kernels (coq/Gen/LookupPy.v from adapter.py,
   coq/Gen/LookupC.v from _zope_interface_coptimizations.c).

   The abstraction the translators apply (it is the one of Model/Lookup.v, stated in its header):
   the nested dictionaries  _cache[provided]{[name]}[key],  _mcache[provided][required],
   _scache[provided][required]  are the flat finite maps of the [caches] record.  A (sub-)dictionary
   of _cache is a [handle]: the dictionary _cache[provided] itself is (provided, 0) - it holds the
   entries of the empty name - and _cache[provided][name] for a true (non-empty) name is
   (provided, name).  "Get the sub-dictionary, create it when missing" is therefore the handle
   constructor, and creating an empty dictionary is not observable.
   Executable definitions only. *)
From Coq Require Import List Arith Bool.
Import ListNotations.
From ZI Require Import Model.Ro Model.Adapter Model.Lookup Model.CLookup.

Definition handle := (spec * Adapter.name)%type.
Definition h_top (p : spec) : handle := (p, 0).                                (* _cache[provided] *)
Definition h_named (h : handle) (n : Adapter.name) : handle := (fst h, n).     (* _cache[provided][name] *)

Definition h_get (c : caches) (h : handle) (k : ckey) : option (option value) :=
  aget cache_key_eqb (c_cache c) (fst h, snd h, k).
Definition h_set (c : caches) (h : handle) (k : ckey) (r : option value) : caches :=
  mkC (aset cache_key_eqb (c_cache c) (fst h, snd h, k) r) (c_mcache c) (c_scache c) (c_required c).

Definition m_get (c : caches) (p : spec) (req : list spec) : option (list (Adapter.name * value)) :=
  aget mkey_eqb (c_mcache c) (p, req).
Definition m_set (c : caches) (p : spec) (req : list spec) (r : list (Adapter.name * value)) : caches :=
  mkC (c_cache c) (aset mkey_eqb (c_mcache c) (p, req) r) (c_scache c) (c_required c).

Definition s_get (c : caches) (p : option spec) (req : list spec) : option (list value) :=
  aget sckey_eqb (c_scache c) (p, req).
Definition s_set (c : caches) (p : option spec) (req : list spec) (r : list value) : caches :=
  mkC (c_cache c) (c_mcache c) (aset sckey_eqb (c_scache c) (p, req) r) (c_required c).

(* dict.clear() on the three caches; the _required bookkeeping *)
Definition clear_caches (c : caches) : caches := mkC [] [] [] (c_required c).
Definition set_required (c : caches) (l : list spec) : caches := mkC (c_cache c) (c_mcache c) (c_scache c) l.

(* truth value of a string: '' is false *)
Definition str_truthy (n : Adapter.name) : bool := negb (Nat.eqb n 0).

(* ---- C side: tests on the optional name argument (NULL = absent) *)
Definition c_present (name : option name_arg) : bool := match name with Some _ => true | None => false end.
Definition c_is_unicode (name : option name_arg) : bool := match name with Some (NStr _) => true | _ => false end.
(* PyObject_IsTrue(name).  For a non-string the model has no truth value; the FALSY reading is the
   adversarial one (such a name shares the dictionary of the empty name) and is what
   Model/CLookup.c_getcache fixes for that unreachable case. *)
Definition c_is_true (name : option name_arg) : bool :=
  match name with Some (NStr n) => str_truthy n | _ => false end.

(* ---- the METH_VARARGS wrappers of the C lookup classes: LB_x parses (args, kwds) and calls the core
   function; VB_x (VerifyingBase) must run _verify(self) first.  [w_args]: for each parameter of the core
   function (after self) the index of the Python-level argument passed for it. *)
Inductive c_core := CoreLookup | CoreLookup1 | CoreAdapterHook | CoreLookupAll | CoreSubscriptions.
Record c_wrapper := mkWrap { w_verify : bool; w_core : c_core; w_args : list nat }.
