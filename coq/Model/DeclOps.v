(* Shared vocabulary of the C01 model (Model/Decl.v) and of the abstract ledger
   (Spec/Provided.v): the static interface DAG with "x and everything x extends", and the
   operations a history is made of.  Executable definitions only.

   Interfaces, classes and instances are numbered by creation order.  Interface [i]'s direct
   bases are [nth i g []]; interface 0 is ``zope.interface.Interface`` itself (see [implied_by]).  [ups g x] is the working definition of "the set of interfaces x isOrExtends"
   = the interface members of x.__sro__ (C02/C03 are about that equality); it is proved equal
   to graph reachability in Proofs/Decl.v ([ups_iff_reach]). *)
From Coq Require Import List Arith Bool.
Import ListNotations.
From ZI Require Import Lib.Util.

Definition iface := nat.
Definition cls := nat.
Definition obj := nat.
Definition igraph := list (list iface).

Definition ibases (g : igraph) (i : iface) : list iface := nth i g [].

Fixpoint up (g : igraph) (fuel : nat) (x : iface) : list iface :=
  x :: match fuel with
       | 0 => []
       | S f => flat_map (up g f) (ibases g x)
       end.

(* x and everything it extends *)
Definition ups (g : igraph) (x : iface) : list iface := up g (length g) x.

(* the flattened set of a list of directly named interfaces *)
Definition closure (g : igraph) (l : list iface) : list iface := flat_map (ups g) l.

(* InterfaceClass.isOrExtends / extends(strict=False): x is y or extends it *)
Definition ext (g : igraph) (x y : iface) : bool := mem_nat y (ups g x).

(* extends(strict=True) *)
Definition ext_strict (g : igraph) (x y : iface) : bool := negb (Nat.eqb x y) && ext g x y.

(* bases are created before the interface that names them *)
Definition wf_igraph (g : igraph) : Prop := forall i b, In b (ibases g i) -> b < i.

Definition wf_igraphb (g : igraph) : bool :=
  forallb (fun p => forallb (fun b => Nat.ltb b (fst p)) (snd p)) (combine (seq 0 (length g)) g).

(* Interface 0 of every graph is ``zope.interface.Interface`` itself: every other interface
   extends it (the generator gives it as base to the interfaces that name no base), and every
   specification implies it, whatever is declared. *)
Definition implied_by (fl : list iface) (x : iface) : bool := Nat.eqb x 0 || mem_nat x fl.
(* what is not implied yet: the strip of Declaration._add_interfaces_to_cls *)
Definition keepnew (fl : list iface) (l : list iface) : list iface :=
  filter (fun x => negb (implied_by fl x)) l.
(* the elision of _classImplements_ordered: the same, except that ``Interface`` itself is let
   through while nothing is declared (``x is Interface and not spec.declared``) *)
Definition celide (fl decl l : list iface) : list iface :=
  filter (fun x => negb (implied_by fl x) || (Nat.eqb x 0 && match decl with [] => true | _ => false end)) l.

(* keep the first occurrence of every element (the ``seen`` loops of
   _classImplements_ordered and Specification.interfaces) *)
Fixpoint dedup (l : list nat) : list nat :=
  match l with
  | [] => []
  | x :: t => x :: filter (fun y => negb (Nat.eqb y x)) (dedup t)
  end.

(* replace position n (no-op past the end) *)
Fixpoint upd {A} (l : list A) (n : nat) (x : A) : list A :=
  match l, n with
  | [], _ => []
  | _ :: t, 0 => x :: t
  | h :: t, S n' => h :: upd t n' x
  end.

(* the target of an object-level declaration: an instance or a class object *)
Inductive target := TInst (o : obj) | TCls (c : cls).

(* An argument of a declaration call: an interface, or a declaration OBJECT that _normalizeargs
   expands into the interfaces it names at the moment of the call: the Declaration returned by
   directlyProvidedBy(t), or the Provides / ClassProvides specification providedBy(t) returns for a
   t that has its own ``__provides__``.  (Nested tuples / lists of arguments are flattened by
   _normalizeargs in order; the driver nests the arguments at random, the model sees the flat
   sequence.  Implements objects as arguments stay live nodes of the specification graph and
   are not modelled.) *)
Inductive arg := AI (i : iface) | ADirectlyProvidedBy (t : target) | AProvidedBy (t : target).

(* One step of a history.  [NewClass bases meta] creates class number (#classes so far) — a class's
   bases never change afterwards; [meta = None]: the metaclass is ``type``; [meta = Some l]: the
   class is created with a custom metaclass (fixed during the history, possibly derived from other
   metaclasses) whose specification implementedBy(metaclass) names the interfaces l directly;
   [builtin = true]: the class is a built-in (immutable) type such as ``int``: its specification lives in
   BuiltinImplementationSpecifications, neither it nor its instances can take ``__provides__``;
   [old = Some l]: the class body has an old-style ``__implemented__ = <interfaces>`` attribute (a single
   interface, a tuple, nested: l is what _normalizeargs makes of it): the first implementedBy(cls) turns it
   into a specification with declared = l and inherit = None (nothing is inherited from the bases); [NewInstance c] creates instance number (#instances so far).
   The nine declaration calls; decorators are applied as calls ([Implementer c l] is
   implementer applied to l and then to class c, [Provider t l] likewise). *)
Inductive op :=
| NewClass (bases : list cls) (meta : option (list iface)) (builtin : bool) (old : option (list iface))
| NewInstance (c : cls)
| DropInstance (o : obj)
| Implementer (c : cls) (l : list arg)
| ImplementerOnly (c : cls) (l : list arg)
| ClassImplements (c : cls) (l : list arg)
| ClassImplementsOnly (c : cls) (l : list arg)
| ClassImplementsFirst (c : cls) (x : iface)
| DirectlyProvides (t : target) (l : list arg)
| AlsoProvides (t : target) (l : list arg)
| NoLongerProvides (t : target) (x : iface)
| Provider (t : target) (l : list arg).
