(* C01 model: transcription of the declaration machinery of
   src/zope/interface/declarations.py (and its C twins in _zope_interface_coptimizations.c).
   Executable definitions only; proofs are in Proofs/Decl.v.

   State
     classes : per class (numbered by creation) its Python bases (never reassigned), and its
               ``__implemented__`` specification: [c_decl] = Implements.declared,
               [c_inherit] = (Implements.inherit is not None); the specification's __bases__ are
               always  declared + [implementedBy(b) for b in cls.__bases__] (if inherit), which is
               what _classImplements_ordered assigns, so they are not stored separately;
               [c_cprov] = what _add_interfaces_to_cls kept of the interface arguments of the class's
               own ``__provides__`` (ClassProvides(cls, metaclass, *args)); [c_meta] = the interfaces
               implementedBy(metaclass) names directly (None: the metaclass is ``type``).
     insts   : per instance its class, whether it is still alive, and its ``__provides__``:
               [Some kept] = a Provides specification whose __bases__ are kept + (implementedBy(cls),)
               — [kept] is what Declaration._add_interfaces_to_cls left of the arguments WHEN THE
               SPECIFICATION WAS BUILT; [None] = no instance ``__provides__`` (the class's
               ClassProvides descriptor answers with implementedBy(cls)).
     cache   : the InstanceDeclarations dictionary, (cls, *interfaces) -> the shared Provides
               specification.  A Provides never changes after construction, so the model stores
               its value ([kept]) instead of an object identity.

   What a specification "implies" is taken as reachability (interface members of __sro__ =
   reachable set, the subject of C02/C03): [cdirect] collects the interfaces named directly
   along the inherit chain and [closure] adds everything they extend.

   Simplifications (each checked by the tie, which runs lazy/weak real code against this model):
   * implementedBy(cls) is created lazily by the code (first query or declaration); the model
     creates it with the class.  A lazily created specification is declared=(), inherit=cls,
     bases = the bases' specifications, i.e. exactly the model's initial record, whenever it
     is created; the tie queries only at a generated subset of steps so that late creation
     is exercised.
   * InstanceDeclarations is a WeakValueDictionary: an entry dies with its last holder.
     The model never lets entries die of weakness; they leave only through the eviction of
     Provides.changed.  (With eviction every cached entry is "fresh" — equal to what a rebuild
     would give, theorem [cache_fresh] — so death is unobservable; [DropInstance] exists so
     that the tie exercises it.)
   * Eviction: assigning ``spec.__bases__`` of class c's specification (every class-level
     declaration call does, twice for the *only* forms) runs Specification.changed, which
     notifies the dependents transitively: the specifications of the classes that currently
     inherit from c ([depends]) and the Provides specifications of their instances;
     Provides.changed (originally_changed is not self) deletes the cache entry if it is that
     object.  Every cached specification is alive and subscribed, so the net effect is:
     all entries whose class depends on c leave the cache.  [ev = false] gives the code before
     the fix (no Provides.changed), used for C01_stale_cache_refuted_without_eviction.
   * Omitted: ``Interface`` itself as a declared interface (the root special case of
     Implements objects (live class specifications) as arguments of declaration calls, super() objects, old-style __implemented__, builtin types,
     declarations on a metaclass during the history, moduleProvides. *)
From Coq Require Import List Arith Bool.
Import ListNotations.
From ZI Require Import Lib.Util.
From ZI Require Export Model.DeclOps.

Record crec := mkC { c_bases : list cls; c_decl : list iface; c_inherit : bool; c_cprov : list iface;
                     c_meta : option (list iface); c_builtin : bool;
                     c_plain : list iface }.   (* the elements of ``declared`` that are interfaces themselves: the *only*
                                                  forms do not normalise, a Declaration argument stays one opaque element
                                                  (its interfaces are in c_decl; ``iface.extends(b)`` never holds for it) *)
(* the interfaces implementedBy(type(cls)) names directly *)
Definition meta_direct (r : crec) : list iface := match c_meta r with Some l => l | None => [] end.
Record irec := mkI { i_cls : cls; i_live : bool; i_prov : option (list iface) }.
Definition ckey := (cls * list iface)%type.
Record state := mkS { classes : list crec; insts : list irec; cache : list (ckey * list iface) }.

Definition init : state := mkS [] [] [].

(* interfaces named directly by implementedBy(c) and by the specifications it inherits from:
   the interface leaves of the specification graph below implementedBy(c) *)
Fixpoint cdirect_f (cs : list crec) (fuel : nat) (c : cls) : list iface :=
  match fuel with
  | 0 => []
  | S f => match nth_error cs c with
           | None => []
           | Some r => c_decl r ++ (if c_inherit r then flat_map (cdirect_f cs f) (c_bases r) else [])
           end
  end.
Definition cdirect (st : state) (c : cls) : list iface := cdirect_f (classes st) (S c) c.

(* implementedBy(c).flattened() (without the root) *)
Definition cflat (g : igraph) (st : state) (c : cls) : list iface := closure g (cdirect st c).

(* implementedBy(d) is (transitively) subscribed to implementedBy(c): d is c or inherits from it *)
Fixpoint depends_f (cs : list crec) (fuel : nat) (d c : cls) : bool :=
  Nat.eqb d c ||
  match fuel with
  | 0 => false
  | S f => match nth_error cs d with
           | None => false
           | Some r => c_inherit r && existsb (fun b => depends_f cs f b c) (c_bases r)
           end
  end.
Definition depends (st : state) (d c : cls) : bool := depends_f (classes st) (S d) d c.

Definition key_eqb (k k' : ckey) : bool := Nat.eqb (fst k) (fst k') && lnat_eqb (snd k) (snd k').

Fixpoint cache_get (k : ckey) (ca : list (ckey * list iface)) : option (list iface) :=
  match ca with
  | [] => None
  | (k', v) :: t => if key_eqb k k' then Some v else cache_get k t
  end.

(* Provides.changed for every notified specification *)
Definition evict (ev : bool) (cs : list crec) (c : cls) (ca : list (ckey * list iface)) :=
  if ev then filter (fun e => negb (depends_f cs (S (fst (fst e))) (fst (fst e)) c)) ca else ca.

(* ``spec.__bases__ = ...`` on implementedBy(c), with the record the caller prepared *)
Definition set_class (ev : bool) (st : state) (c : cls) (r' : crec) : state :=
  mkS (upd (classes st) c r') (insts st) (evict ev (classes st) c (cache st)).

(* declarations.py:_classImplements_ordered *)
Definition class_ordered (ev : bool) (g : igraph) (st : state) (c : cls) (before after : list iface) : state :=
  match nth_error (classes st) c with
  | None => st
  | Some r =>
      let fl := cflat g st c in
      let nd := dedup (celide fl (c_decl r) before ++ c_decl r ++ celide fl (c_decl r) after) in
      let np := dedup (celide fl (c_decl r) before ++ c_plain r ++ celide fl (c_decl r) after) in
      set_class ev st c (mkC (c_bases r) nd (c_inherit r) (c_cprov r) (c_meta r) (c_builtin r) np)
  end.

(* declarations.py:classImplements — before/after split by strict ``extends`` *)
Definition class_implements (ev : bool) (g : igraph) (st : state) (c : cls) (l : list iface) : state :=
  match nth_error (classes st) c with
  | None => st
  | Some r =>
      let isbefore x := existsb (fun b => ext_strict g x b) (c_plain r) in
      class_ordered ev g st c (filter isbefore l) (filter (fun x => negb (isbefore x)) l)
  end.

(* declarations.py:classImplementsOnly — declared=(), inherit=None, __bases__=() first *)
Definition set_plain (st : state) (c : cls) (pl : list iface) : state :=
  match nth_error (classes st) c with
  | None => st
  | Some r => mkS (upd (classes st) c (mkC (c_bases r) (c_decl r) (c_inherit r) (c_cprov r) (c_meta r) (c_builtin r) pl))
                  (insts st) (cache st)
  end.

(* [l]: the interfaces the (un-normalised) arguments name; [pl]: those given as interfaces *)
Definition class_only (ev : bool) (g : igraph) (st : state) (c : cls) (l pl : list iface) : state :=
  match nth_error (classes st) c with
  | None => st
  | Some r =>
      let st1 := set_class ev st c (mkC (c_bases r) [] false (c_cprov r) (c_meta r) (c_builtin r) []) in
      set_plain (class_ordered ev g st1 c l []) c (dedup pl)
  end.

(* the Provides factory: InstanceDeclarations.get(key) or ProvidesClass(cls, *interfaces) *)
Definition provides (g : igraph) (st : state) (d : cls) (args : list iface) : state * list iface :=
  match cache_get (d, args) (cache st) with
  | Some k => (st, k)
  | None => let k := keepnew (cflat g st d) args in
            (mkS (classes st) (insts st) (((d, args), k) :: cache st), k)
  end.

(* instances of built-in types have no __dict__: ``object.__provides__ = ...`` raises
   AttributeError (the specification built for the attempt is garbage at once) *)
Definition class_builtin (st : state) (c : cls) : bool :=
  match nth_error (classes st) c with Some r => c_builtin r | None => false end.

(* directlyProvides, instance branch *)
Definition direct_inst (g : igraph) (st : state) (o : obj) (args : list iface) : state :=
  match nth_error (insts st) o with
  | Some r =>
      if i_live r && negb (class_builtin st (i_cls r)) then
        let '(st1, k) := provides g st (i_cls r) args in
        mkS (classes st1) (upd (insts st1) o (mkI (i_cls r) true (Some k))) (cache st1)
      else st
  | None => st
  end.

(* directlyProvides, class branch: object.__provides__ = ClassProvides(object, cls, *interfaces)
   with cls = the metaclass; _add_interfaces_to_cls strips what implementedBy(metaclass) implies *)
Definition direct_cls (g : igraph) (st : state) (c : cls) (args : list iface) : state :=
  match nth_error (classes st) c with
  | Some r => if c_builtin r then st   (* TypeError: cannot set attribute of immutable type *)
              else mkS (upd (classes st) c (mkC (c_bases r) (c_decl r) (c_inherit r)
                                                (keepnew (closure g (meta_direct r)) args) (c_meta r) (c_builtin r) (c_plain r)))
                       (insts st) (cache st)
  | None => st
  end.

Definition directly (g : igraph) (st : state) (t : target) (args : list iface) : state :=
  match t with
  | TInst o => direct_inst g st o args
  | TCls c => direct_cls g st c args
  end.

(* list(directlyProvidedBy(t)): Declaration(provides.__bases__[:-1]).interfaces() *)
Definition dpb (st : state) (t : target) : list iface :=
  match t with
  | TInst o => match nth_error (insts st) o with
               | Some r => match i_prov r with Some k => dedup k | None => [] end
               | None => []
               end
  | TCls c => match nth_error (classes st) c with
              | Some r => dedup (c_cprov r)
              | None => []
              end
  end.

(* the interfaces named directly in the specification providedBy(t) returns, and below it:
   instance with __provides__: kept + implementedBy(cls); instance without: implementedBy(cls)
   (ObjectSpecificationDescriptor.__get__ / ClassProvidesBase.__get__ -> _implements);
   class object: its ClassProvides = kept arguments + implementedBy(metaclass), whether or not
   implementedBy(cls) has been computed yet (before that, the metaclass's own ClassProvides
   descriptor answers with implementedBy(metaclass)) *)
Definition spec_direct (st : state) (t : target) : list iface :=
  match t with
  | TInst o => match nth_error (insts st) o with
               | Some r => match i_prov r with
                           | Some k => k ++ cdirect st (i_cls r)
                           | None => cdirect st (i_cls r)
                           end
               | None => []
               end
  | TCls c => match nth_error (classes st) c with
              | Some r => c_cprov r ++ meta_direct r
              | None => []
              end
  end.

(* _normalizeargs on the arguments of a call, in the state the call is made in:
   Declaration.__iter__ = interfaces() of the object (its directly named interfaces, each once) *)
Definition narg (st : state) (a : arg) : list iface :=
  match a with
  | AI i => [i]
  | ADirectlyProvidedBy t => dpb st t
  | AProvidedBy t => dedup (spec_direct st t)
  end.
Definition nargs (st : state) (l : list arg) : list iface := flat_map (narg st) l.
Definition plain_args (l : list arg) : list iface :=
  flat_map (fun a => match a with AI i => [i] | _ => [] end) l.

Definition step (ev : bool) (g : igraph) (st : state) (o : op) : state :=
  match o with
  | NewClass bs m bi old =>
      let n := length (classes st) in
      mkS (classes st ++ [mkC (dedup (filter (fun b => Nat.ltb b n) bs))
                              (match old with Some l => l | None => [] end)
                              (match old with Some _ => false | None => true end) [] m bi
                              (match old with Some l => l | None => [] end)]) (insts st) (cache st)
  | NewInstance c =>
      if Nat.ltb c (length (classes st))
      then mkS (classes st) (insts st ++ [mkI c true None]) (cache st)
      else st
  | DropInstance o =>
      match nth_error (insts st) o with
      | Some r => mkS (classes st) (upd (insts st) o (mkI (i_cls r) false (i_prov r))) (cache st)
      | None => st
      end
  | Implementer c l => class_implements ev g st c (nargs st l)
  | ClassImplements c l => class_implements ev g st c (nargs st l)
  | ImplementerOnly c l => class_only ev g st c (nargs st l) (plain_args l)
  | ClassImplementsOnly c l => class_only ev g st c (nargs st l) (plain_args l)
  | ClassImplementsFirst c x => class_ordered ev g st c [x] []
  | DirectlyProvides t l => directly g st t (nargs st l)
  | Provider t l => directly g st t (nargs st l)
  | AlsoProvides t l => directly g st t (dpb st t ++ nargs st l)
  | NoLongerProvides t x => directly g st t (filter (fun i => negb (ext g i x)) (dpb st t))
  end.

Definition run (ev : bool) (g : igraph) (ops : list op) : state := fold_left (step ev g) ops init.

(* ---- queries *)

(* providedBy(t).flattened() *)
Definition provided (g : igraph) (st : state) (t : target) : list iface := closure g (spec_direct st t).
(* I.providedBy(t): I in providedBy(t)._implied *)
Definition i_providedBy (g : igraph) (st : state) (t : target) (i : iface) : bool :=
  Nat.eqb i 0 || existsb (fun y => ext g y i) (spec_direct st t).   (* every specification implies Interface *)
(* implementedBy(c).flattened() and I.implementedBy(c) *)
Definition implemented (g : igraph) (st : state) (c : cls) : list iface := cflat g st c.
Definition i_implementedBy (g : igraph) (st : state) (c : cls) (i : iface) : bool :=
  Nat.eqb i 0 || existsb (fun y => ext g y i) (cdirect st c).

(* noLongerProvides raises ValueError when the interface is still provided afterwards
   (the declaration has been replaced by then); [st'] is the state after the step *)
Definition raises (g : igraph) (st' : state) (o : op) : bool :=
  match o with
  | NoLongerProvides t x => i_providedBy g st' t x
  | _ => false
  end.

(* the exception a step ends with: 0 none, 1 ValueError (noLongerProvides of something still
   provided), 2 TypeError (object-level declaration on a built-in type), 3 AttributeError
   (object-level declaration on an instance of a built-in type); [st] before, [st'] after *)
Definition exc_code (g : igraph) (st st' : state) (o : op) : nat :=
  match o with
  | DirectlyProvides t _ | AlsoProvides t _ | NoLongerProvides t _ | Provider t _ =>
      match t with
      | TCls c => if class_builtin st c then 2 else if raises g st' o then 1 else 0
      | TInst i => match nth_error (insts st) i with
                   | Some r => if class_builtin st (i_cls r) then 3 else if raises g st' o then 1 else 0
                   | None => 0
                   end
      end
  | _ => 0
  end.

(* ---- classification of the declaration calls (used to state non-interference) *)
Definition decl_class (o : op) : option cls :=
  match o with
  | Implementer c _ | ImplementerOnly c _ | ClassImplements c _ | ClassImplementsOnly c _
  | ClassImplementsFirst c _ => Some c
  | _ => None
  end.
Definition decl_target (o : op) : option target :=
  match o with
  | DirectlyProvides t _ | AlsoProvides t _ | NoLongerProvides t _ | Provider t _ => Some t
  | _ => None
  end.
(* an object-level declaration call on an instance other than o *)
Definition other_inst_decl (o : obj) (p : op) : bool :=
  match decl_target p with
  | Some (TInst o') => negb (Nat.eqb o' o)
  | _ => false
  end.

(* the arguments of a declaration call, and whether they read only o, class objects and
   interfaces (used to state history-level non-interference) *)
Definition op_args (p : op) : list arg :=
  match p with
  | Implementer _ l | ImplementerOnly _ l | ClassImplements _ l | ClassImplementsOnly _ l
  | DirectlyProvides _ l | AlsoProvides _ l | Provider _ l => l
  | _ => []
  end.
Definition arg_local (o : obj) (a : arg) : bool :=
  match a with
  | AI _ => true
  | ADirectlyProvidedBy (TInst o') | AProvidedBy (TInst o') => Nat.eqb o' o
  | _ => true
  end.
Definition op_local (o : obj) (p : op) : bool := forallb (arg_local o) (op_args p).

(* implementedBy(super(B, x)) = providedBy(super(B, x)) (declarations.py:_implementedBy_super): a
   synthesized specification whose bases are implementedBy(k) for the classes k that FOLLOW B in
   the MRO of type(x) (or of x, for super(B, cls)); [rest] is that remainder of the MRO — the
   MRO is CPython's, the history supplies it (``object`` left out).  The per-class _super_cache
   must be invisible. *)
Definition super_implemented (g : igraph) (st : state) (rest : list cls) : list iface :=
  flat_map (implemented g st) rest.
