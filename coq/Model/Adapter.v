(* Adapter registry: storage, bookkeeping and the UNCACHED lookup algorithms.
   Transcription of src/zope/interface/adapter.py
     BaseAdapterRegistry.register / unregister / registered / subscribe / unsubscribe /
       subscribed / allRegistrations / allSubscriptions / rebuild, _provided counting
     AdapterLookupBase.add_extendor / remove_extendor / init_extendors,
       _uncached_lookup / _uncached_lookupAll / _uncached_subscriptions
     module functions _lookup / _lookupAll / _subscriptions, _convert_None_to_Interface

   Abstraction (stated in the trusted base): the nested dictionaries
   {required_1 -> ... -> {provided -> {name -> value}}} are represented by the finite map from
   full keys to values they implement (association list, insertion ordered); the "if comps:"
   truthiness tests of the walkers are then redundant (an absent or empty sub-dictionary and a
   prefix with no entries both yield no result) and pruning of emptied containers is invisible.
   Executable definitions only. *)
From Coq Require Import List Arith Bool.
Import ListNotations.
From ZI Require Import Model.Ro.

Definition spec := nat.        (* specification (interface or class declaration); 0 = Interface *)
Definition name := nat.        (* adapter name; 0 is the empty string '' *)
Definition root : spec := 0.

(* a registered object: [vid] its identity (``is``), [veq] its equality class (``==``) *)
Record value := mkV { vid : nat; veq : nat }.
Definition v_is (a b : value) : bool := Nat.eqb (vid a) (vid b).
Definition v_eq (a b : value) : bool := Nat.eqb (vid a) (vid b) || Nat.eqb (veq a) (veq b).

(* the specification world a registry operates in: every spec's __sro__ and whether it is an
   interface (for __iro__) *)
Record world := mkW { w_sro : spec -> list spec; w_iface : spec -> bool }.
Definition iro (W : world) (x : spec) : list spec := filter (w_iface W) (w_sro W x).
Definition isOrExtends (W : world) (a b : spec) : bool := mem b (w_sro W a).

Definition lspec_eqb (a b : list spec) : bool :=
  (fix go (a b : list spec) : bool :=
     match a, b with
     | [], [] => true
     | x :: a', y :: b' => Nat.eqb x y && go a' b'
     | _, _ => false
     end) a b.

(* keys *)
Definition akey := (list spec * spec * name)%type.              (* required, provided, name *)
Definition skey := (list spec * option spec)%type.              (* required, provided-or-None *)

Definition akey_eqb (k1 k2 : akey) : bool :=
  let '(r1, p1, n1) := k1 in let '(r2, p2, n2) := k2 in
  lspec_eqb r1 r2 && Nat.eqb p1 p2 && Nat.eqb n1 n2.
Definition ospec_eqb (a b : option spec) : bool :=
  match a, b with None, None => true | Some x, Some y => Nat.eqb x y | _, _ => false end.
Definition skey_eqb (k1 k2 : skey) : bool :=
  lspec_eqb (fst k1) (fst k2) && ospec_eqb (snd k1) (snd k2).

(* generic association-list helpers (Python dict: insertion ordered, unique keys) *)
Section Assoc.
  Context {K V : Type} (eqb : K -> K -> bool).
  Fixpoint aget (m : list (K * V)) (k : K) : option V :=
    match m with [] => None | (k', v) :: m' => if eqb k k' then Some v else aget m' k end.
  Fixpoint aset (m : list (K * V)) (k : K) (v : V) : list (K * V) :=
    match m with
    | [] => [(k, v)]
    | (k', v') :: m' => if eqb k k' then (k', v) :: m' else (k', v') :: aset m' k v
    end.
  Fixpoint adel (m : list (K * V)) (k : K) : list (K * V) :=
    match m with
    | [] => []
    | (k', v') :: m' => if eqb k k' then m' else (k', v') :: adel m' k
    end.
End Assoc.

Record reg := mkReg {
  adapters : list (akey * value);
  subscribers : list (skey * list value);      (* leaf tuples, in subscription order *)
  provided_cnt : list (spec * nat);            (* _provided *)
  extendors : list (spec * list spec);         (* _v_lookup._extendors *)
  generation : nat                              (* _generation *)
}.

Definition empty_reg : reg := mkReg [] [] [] [] 0.

Definition conv (r : option spec) : spec := match r with None => root | Some x => x end.

(* ---- extendors *)
Definition ext_get (e : list (spec * list spec)) (i : spec) : list spec :=
  match aget Nat.eqb e i with Some l => l | None => [] end.

Definition add_extendor (W : world) (e : list (spec * list spec)) (p : spec) : list (spec * list spec) :=
  fold_left (fun e i =>
               let old := ext_get e i in
               aset Nat.eqb e i (filter (fun x => isOrExtends W p x) old ++ [p]
                                 ++ filter (fun x => negb (isOrExtends W p x)) old))
            (iro W p) e.

Definition remove_extendor (W : world) (e : list (spec * list spec)) (p : spec) : list (spec * list spec) :=
  fold_left (fun e i => aset Nat.eqb e i (filter (fun x => negb (Nat.eqb x p)) (ext_get e i)))
            (iro W p) e.

Definition cnt_get (c : list (spec * nat)) (p : spec) : nat :=
  match aget Nat.eqb c p with Some n => n | None => 0 end.

Definition changed (r : reg) : reg :=
  mkReg (adapters r) (subscribers r) (provided_cnt r) (extendors r) (S (generation r)).

(* count up; first use adds the extendor *)
Definition provide_incr (W : world) (r : reg) (p : spec) : reg :=
  let n := S (cnt_get (provided_cnt r) p) in
  mkReg (adapters r) (subscribers r) (aset Nat.eqb (provided_cnt r) p n)
        (if Nat.eqb n 1 then add_extendor W (extendors r) p else extendors r) (generation r).

(* count down by [k] (the code asserts the entry exists); reaching 0 removes entry + extendor *)
Definition provide_decr (W : world) (r : reg) (p : spec) (k : nat) : reg :=
  let n := cnt_get (provided_cnt r) p - k in
  if Nat.eqb n 0
  then mkReg (adapters r) (subscribers r) (adel Nat.eqb (provided_cnt r) p)
             (remove_extendor W (extendors r) p) (generation r)
  else mkReg (adapters r) (subscribers r) (aset Nat.eqb (provided_cnt r) p n) (extendors r) (generation r).

(* ---- BaseAdapterRegistry.unregister ; value = None means "whatever is there" *)
Definition unregister (W : world) (r : reg) (required : list (option spec)) (p : spec) (n : name)
           (v : option value) : reg :=
  let k : akey := (map conv required, p, n) in
  match aget akey_eqb (adapters r) k with
  | None => r
  | Some old =>
      match v with
      | Some v' => if v_is old v' then
                     changed (provide_decr W (mkReg (adel akey_eqb (adapters r) k) (subscribers r)
                                                    (provided_cnt r) (extendors r) (generation r)) p 1)
                   else r
      | None => changed (provide_decr W (mkReg (adel akey_eqb (adapters r) k) (subscribers r)
                                               (provided_cnt r) (extendors r) (generation r)) p 1)
      end
  end.

(* ---- BaseAdapterRegistry.register ; registering None unregisters *)
Definition register (W : world) (r : reg) (required : list (option spec)) (p : spec) (n : name)
           (v : option value) : reg :=
  match v with
  | None => unregister W r required p n None
  | Some v' =>
      let k : akey := (map conv required, p, n) in
      match aget akey_eqb (adapters r) k with
      | Some old => if v_is old v' then r        (* same object again: no-op, no generation bump *)
                    else changed (provide_incr W (mkReg (aset akey_eqb (adapters r) k v') (subscribers r)
                                                        (provided_cnt r) (extendors r) (generation r)) p)
      | None => changed (provide_incr W (mkReg (aset akey_eqb (adapters r) k v') (subscribers r)
                                               (provided_cnt r) (extendors r) (generation r)) p)
      end
  end.

Definition registered (r : reg) (required : list (option spec)) (p : spec) (n : name) : option value :=
  aget akey_eqb (adapters r) (map conv required, p, n).

(* ---- subscribe / unsubscribe / subscribed ; provided = None for handlers *)
Definition sub_leaf (r : reg) (k : skey) : list value :=
  match aget skey_eqb (subscribers r) k with Some l => l | None => [] end.

Definition subscribe (W : world) (r : reg) (required : list (option spec)) (p : option spec)
           (v : value) : reg :=
  let k : skey := (map conv required, p) in
  let r1 := mkReg (adapters r) (aset skey_eqb (subscribers r) k (sub_leaf r k ++ [v]))
                  (provided_cnt r) (extendors r) (generation r) in
  changed (match p with Some p' => provide_incr W r1 p' | None => r1 end).

Definition unsubscribe (W : world) (r : reg) (required : list (option spec)) (p : option spec)
           (v : option value) : reg :=
  let k : skey := (map conv required, p) in
  let old := sub_leaf r k in
  match old with
  | [] => r
  | _ =>
      let new := match v with
                 | None => []
                 | Some v' => filter (fun x => negb (v_eq x v')) old     (* uses != *)
                 end in
      if Nat.eqb (length new) (length old) then r
      else
        let subs := match new with
                    | [] => adel skey_eqb (subscribers r) k
                    | _ => aset skey_eqb (subscribers r) k new
                    end in
        let r1 := mkReg (adapters r) subs (provided_cnt r) (extendors r) (generation r) in
        changed (match p with
                 | Some p' => provide_decr W r1 p' (length old - length new)
                 | None => r1
                 end)
  end.

(* subscriber if subscriber in subscribers else None *)
Definition subscribed (r : reg) (required : list (option spec)) (p : option spec) (v : value) : bool :=
  existsb (fun x => v_eq x v) (sub_leaf r (map conv required, p)).

Definition allRegistrations (r : reg) : list (akey * value) := adapters r.
Definition allSubscriptions (r : reg) : list (skey * value) :=
  flat_map (fun kv => map (fun v => (fst kv, v)) (snd kv)) (subscribers r).

(* rebuild(): fresh structures, then replay registrations and subscriptions *)
Definition rebuild (W : world) (r : reg) : reg :=
  let r0 := changed (mkReg [] [] [] [] (generation r)) in   (* __init__ -> _setBases -> changed *)
  let r1 := fold_left (fun acc kv => let '(req, p, n) := fst kv in
                                     register W acc (map Some req) p n (Some (snd kv)))
                      (allRegistrations r) r0 in
  fold_left (fun acc kv => subscribe W acc (map Some (fst (fst kv))) (snd (fst kv)) (snd kv))
            (allSubscriptions r) r1.

(* ---- the walkers *)
Fixpoint first_some {A B} (f : A -> option B) (l : list A) : option B :=
  match l with
  | [] => None
  | x :: l' => match f x with Some y => Some y | None => first_some f l' end
  end.

(* _lookup(components, specs, provided=extendors, name, i, l): [prefix] = keys walked so far *)
Fixpoint lookup_walk (W : world) (m : list (akey * value)) (prefix : list spec) (specs : list spec)
         (exts : list spec) (n : name) : option value :=
  match specs with
  | [] => first_some (fun e => aget akey_eqb m (prefix, e, n)) exts
  | s :: rest => first_some (fun x => lookup_walk W m (prefix ++ [x]) rest exts n) (w_sro W s)
  end.

(* AdapterLookupBase._uncached_lookup over the registries of the resolution order *)
Definition uncached_lookup (W : world) (ro : list reg) (required : list spec) (p : spec) (n : name)
  : option value :=
  first_some (fun r => match ext_get (extendors r) p with
                       | [] => None
                       | exts => lookup_walk W (adapters r) [] required exts n
                       end) ro.

(* _lookupAll: reversed walks, dict.update (later writes win) *)
Fixpoint lookupAll_walk (W : world) (m : list (akey * value)) (prefix : list spec) (specs : list spec)
         (exts : list spec) (acc : list (name * value)) : list (name * value) :=
  match specs with
  | [] => fold_left (fun acc e =>
                       fold_left (fun acc kv => let '(r, p, n) := fst kv in
                                                if lspec_eqb r prefix && Nat.eqb p e
                                                then aset Nat.eqb acc n (snd kv) else acc) m acc)
                    (rev exts) acc
  | s :: rest => fold_left (fun acc x => lookupAll_walk W m (prefix ++ [x]) rest exts acc)
                           (rev (w_sro W s)) acc
  end.

Definition uncached_lookupAll (W : world) (ro : list reg) (required : list spec) (p : spec)
  : list (name * value) :=
  fold_left (fun acc r => match ext_get (extendors r) p with
                          | [] => acc
                          | exts => lookupAll_walk W (adapters r) [] required exts acc
                          end) (rev ro) [].

(* _subscriptions: reversed walks, result.extend(leaf under '') *)
Fixpoint subs_walk (W : world) (m : list (skey * list value)) (prefix : list spec) (specs : list spec)
         (exts : list (option spec)) : list value :=
  match specs with
  | [] => flat_map (fun e => match aget skey_eqb m (prefix, e) with Some l => l | None => [] end) (rev exts)
  | s :: rest => flat_map (fun x => subs_walk W m (prefix ++ [x]) rest exts) (rev (w_sro W s))
  end.

Definition uncached_subscriptions (W : world) (ro : list reg) (required : list spec) (p : option spec)
  : list value :=
  flat_map (fun r =>
              match p with
              | None => subs_walk W (subscribers r) [] required [None]
              | Some p' => match aget Nat.eqb (extendors r) p' with
                           | None => []                           (* "if extendors is None: continue" *)
                           | Some exts => subs_walk W (subscribers r) [] required (map Some exts)
                           end
              end) (rev ro).
