(* C10 models: the VerifyingBase twins.

   C text (src/zope/interface/_zope_interface_coptimizations.c): verify_changed, _verify,
   VB_lookup, VB_lookup1, VB_adapter_hook, VB_queryAdapter, VB_lookupAll, VB_subscriptions — each
   VB_ entry point parses its arguments, calls _verify ONCE, then the LookupBase function
   (_lookup, _lookup1, _adapter_hook, _lookupAll, _subscriptions of Model/CLookup.v).

   Python text (adapter.py): VerifyingBase.changed, _verify, _getcache (= _verify + the
   LookupBase _getcache), lookupAll, subscriptions (= _verify + the LookupBase method); lookup,
   lookup1, adapter_hook, queryAdapter are the LookupBase methods (Model/Lookup.v) with that
   _getcache — so _verify runs AFTER the "name is not a string" test, and again inside the
   self.lookup(...) that lookup1 / adapter_hook fall back to.

   Environment of one call ([venv]): the current _generation of every registry and what
   self._registry.ro[1:] is when changed() reads it.  A lazy [required] is resolved by
   tuple(required) / PySequence_Tuple, which may raise ([RqRaise]).  Executable definitions only. *)
From Coq Require Import List Arith Bool.
Import ListNotations.
From ZI Require Import Lib.Util Model.Ro Model.Adapter Model.Lookup Model.CLookup.

Record venv := mkEnv { e_gen : nat -> nat; e_ro_tail : list nat }.

(* the lookup object: LookupBase caches + the two VerifyingBase slots (None = never assigned) *)
Record vstate := mkVS { vs_c : caches; vs_vro : option (list nat); vs_vgen : option (list nat) }.

Definition with_c (s : vstate) (c : caches) : vstate := mkVS c (vs_vro s) (vs_vgen s).

Definition gens (e : venv) (ro : list nat) : list nat := map (e_gen e) ro.

(* verify_changed / VerifyingBase.changed: drop the caches, snapshot the order and its generations *)
Definition v_changed (e : venv) (s : vstate) : vstate :=
  mkVS empty_caches (Some (e_ro_tail e)) (Some (gens e (e_ro_tail e))).

(* _verify (C): with both slots set, compare the stored generations with the current ones of the
   stored order; different, or a slot unset -> changed(None) *)
Definition c_verify (e : venv) (s : vstate) : vstate :=
  match vs_vro s, vs_vgen s with
  | Some ro, Some g => if lnat_eqb g (gens e ro) then s else v_changed e s
  | _, _ => v_changed e s
  end.

(* VerifyingBase._verify: reading an unset slot raises AttributeError (None) *)
Definition py_verify (e : venv) (s : vstate) : option vstate :=
  match vs_vro s, vs_vgen s with
  | Some ro, Some g => Some (if lnat_eqb (gens e ro) g then s else v_changed e s)
  | _, _ => None
  end.

(* a possibly lazy [required] argument *)
Inductive req_arg := RqOk (l : list spec) | RqRaise (e : nat).

(* what an entry point hands back *)
Inductive vret :=
| VRet (r : cret)            (* as Model/CLookup.v: an object, ValueError, TypeError *)
| VAttrError                 (* AttributeError: _verify_ro was never assigned *)
| VReqError (e : nat).       (* resolving [required] raised e *)

Section Verifying.
  Variable u_lookup : list spec -> spec -> Adapter.name -> option value.
  Variable u_lookupAll : list spec -> spec -> list (Adapter.name * value).
  Variable u_subscriptions : list spec -> option spec -> list value.
  Variable call : value -> list nat -> option nat.

  (* ------------------------------------------------------------------ C *)

  (* VB_lookup: _verify; then _lookup: name test, PySequence_Tuple(required), cache *)
  Definition c_vb_lookup (e : venv) (s : vstate) (req : req_arg) (p : spec) (name : option name_arg) (d : darg)
    : vstate * vret :=
    let s1 := c_verify e s in
    if c_name_bad name then (s1, VRet CValueError) else
    match req with
    | RqRaise x => (s1, VReqError x)
    | RqOk l => let '(c', r) := c_lookup u_lookup (vs_c s1) l p name d in (with_c s1 c', VRet r)
    end.

  (* VB_lookup1: _verify; then _lookup1 (its miss path calls _lookup, not VB_lookup) *)
  Definition c_vb_lookup1 (e : venv) (s : vstate) (r : spec) (p : spec) (name : option name_arg) (d : darg)
    : vstate * vret :=
    let s1 := c_verify e s in
    let '(c', x) := c_lookup1 u_lookup (vs_c s1) r p name d in (with_c s1 c', VRet x).

  (* VB_adapter_hook / VB_queryAdapter: _verify; then _adapter_hook *)
  Definition c_vb_adapter_hook (e : venv) (s : vstate) (p : spec) (o : obj) (name : option name_arg) (d : darg)
    : vstate * vret :=
    let s1 := c_verify e s in
    let '(c', x) := c_adapter_hook u_lookup call (vs_c s1) p o name d in (with_c s1 c', VRet x).
  Definition c_vb_queryAdapter (e : venv) (s : vstate) (o : obj) (p : spec) (name : option name_arg) (d : darg) :=
    c_vb_adapter_hook e s p o name d.

  (* VB_lookupAll / VB_subscriptions: _verify; then resolve required; then the cache *)
  Definition c_vb_lookupAll (e : venv) (s : vstate) (req : req_arg) (p : spec)
    : vstate * (vret + list (Adapter.name * value)) :=
    let s1 := c_verify e s in
    match req with
    | RqRaise x => (s1, inl (VReqError x))
    | RqOk l => let '(c', r) := c_lookupAll u_lookupAll (vs_c s1) l p in (with_c s1 c', inr r)
    end.
  Definition c_vb_subscriptions (e : venv) (s : vstate) (req : req_arg) (p : option spec)
    : vstate * (vret + list value) :=
    let s1 := c_verify e s in
    match req with
    | RqRaise x => (s1, inl (VReqError x))
    | RqOk l => let '(c', r) := c_subscriptions u_subscriptions (vs_c s1) l p in (with_c s1 c', inr r)
    end.

  (* ------------------------------------------------------------------ Python *)

  (* LookupBase.lookup with VerifyingBase._getcache:
       if not isinstance(name, str): raise ValueError
       cache = self._getcache(provided, name)      # self._verify() first
       required = tuple(required) ... *)
  Definition py_vb_lookup (e : venv) (s : vstate) (req : req_arg) (p : spec) (name : option name_arg) (d : darg)
    : vstate * vret :=
    match cname name with
    | NotAString => (s, VRet CValueError)
    | NStr _ =>
        match py_verify e s with
        | None => (s, VAttrError)
        | Some s1 =>
            match req with
            | RqRaise x => (s1, VReqError x)
            | RqOk l => let '(c', r) := lookup u_lookup (vs_c s1) l p (cname name) in (with_c s1 c', VRet (py_ret d r))
            end
        end
    end.

  (* LookupBase.lookup1: name test, _getcache (verify), cache.get(required); a miss goes through
     self.lookup((required,), provided, name, default), which verifies again *)
  Definition py_vb_lookup1 (e : venv) (s : vstate) (r : spec) (p : spec) (name : option name_arg) (d : darg)
    : vstate * vret :=
    match cname name with
    | NotAString => (s, VRet CValueError)
    | NStr n =>
        match py_verify e s with
        | None => (s, VAttrError)
        | Some s1 =>
            match aget cache_key_eqb (c_cache (vs_c s1)) (p, n, CSingle r) with
            | Some (Some v) => (s1, VRet (py_ret d (RVal v)))
            | Some None => (s1, VRet (py_ret d RDefault))
            | None => py_vb_lookup e s1 (RqOk [r]) p name d
            end
        end
    end.

  (* LookupBase.adapter_hook: name test, providedBy(object), _getcache (verify), cache.get; a miss
     goes through self.lookup((required,), provided, name) (verifies again; default None) *)
  Definition py_vb_adapter_hook (e : venv) (s : vstate) (p : spec) (o : obj) (name : option name_arg) (d : darg)
    : vstate * vret :=
    match cname name with
    | NotAString => (s, VRet CValueError)
    | NStr n =>
        match py_verify e s with
        | None => (s, VAttrError)
        | Some s1 =>
            let required := o_provides o in
            let '(s2, factory) :=
              match aget cache_key_eqb (c_cache (vs_c s1)) (p, n, CSingle required) with
              | Some f => (s1, Some f)
              | None =>
                  match py_vb_lookup e s1 (RqOk [required]) p name DNone with
                  | (s2, VRet (CRet (PValue v))) => (s2, Some (Some v))
                  | (s2, VRet (CRet _)) => (s2, Some None)
                  | (s2, _) => (s2, None)              (* cannot happen: the name is a string, s1 is verified *)
                  end
              end in
            match factory with
            | None => (s2, VAttrError)
            | Some (Some f) => match call f [unwrap o] with
                               | Some x => (s2, VRet (py_ret_nat d (RVal x)))
                               | None => (s2, VRet (py_ret_nat d RDefault))
                               end
            | Some None => (s2, VRet (py_ret_nat d RDefault))
            end
        end
    end.
  Definition py_vb_queryAdapter (e : venv) (s : vstate) (o : obj) (p : spec) (name : option name_arg) (d : darg) :=
    py_vb_adapter_hook e s p o name d.

  (* VerifyingBase.lookupAll / subscriptions: self._verify(); then the LookupBase method
     (cache = self._mcache.get(provided) ...; required = tuple(required); ...) *)
  Definition py_vb_lookupAll (e : venv) (s : vstate) (req : req_arg) (p : spec)
    : vstate * (vret + list (Adapter.name * value)) :=
    match py_verify e s with
    | None => (s, inl VAttrError)
    | Some s1 =>
        match req with
        | RqRaise x => (s1, inl (VReqError x))
        | RqOk l => let '(c', r) := lookupAll u_lookupAll (vs_c s1) l p in (with_c s1 c', inr r)
        end
    end.
  Definition py_vb_subscriptions (e : venv) (s : vstate) (req : req_arg) (p : option spec)
    : vstate * (vret + list value) :=
    match py_verify e s with
    | None => (s, inl VAttrError)
    | Some s1 =>
        match req with
        | RqRaise x => (s1, inl (VReqError x))
        | RqOk l => let '(c', r) := subscriptions u_subscriptions (vs_c s1) l p in (with_c s1 c', inr r)
        end
    end.

  (* ------------------------------------------------------------------ programs *)

  Inductive vcall :=
  | VLookup (req : req_arg) (p : spec) (name : option name_arg) (d : darg)
  | VLookup1 (r : spec) (p : spec) (name : option name_arg) (d : darg)
  | VAdapterHook (p : spec) (o : obj) (name : option name_arg) (d : darg)
  | VQueryAdapter (o : obj) (p : spec) (name : option name_arg) (d : darg)
  | VLookupAll (req : req_arg) (p : spec)
  | VSubscriptions (req : req_arg) (p : option spec)
  | VChanged.                 (* changed(...) called from outside (the registry was mutated / re-based) *)

  Inductive vout :=
  | ORet (r : vret)
  | OAll (r : vret + list (Adapter.name * value))
  | OSubs (r : vret + list value)
  | ONone.

  Definition c_vstep (e : venv) (s : vstate) (c : vcall) : vstate * vout :=
    match c with
    | VLookup req p n d => let '(s', r) := c_vb_lookup e s req p n d in (s', ORet r)
    | VLookup1 r p n d => let '(s', x) := c_vb_lookup1 e s r p n d in (s', ORet x)
    | VAdapterHook p o n d => let '(s', x) := c_vb_adapter_hook e s p o n d in (s', ORet x)
    | VQueryAdapter o p n d => let '(s', x) := c_vb_queryAdapter e s o p n d in (s', ORet x)
    | VLookupAll req p => let '(s', x) := c_vb_lookupAll e s req p in (s', OAll x)
    | VSubscriptions req p => let '(s', x) := c_vb_subscriptions e s req p in (s', OSubs x)
    | VChanged => (v_changed e s, ONone)
    end.

  Definition py_vstep (e : venv) (s : vstate) (c : vcall) : vstate * vout :=
    match c with
    | VLookup req p n d => let '(s', r) := py_vb_lookup e s req p n d in (s', ORet r)
    | VLookup1 r p n d => let '(s', x) := py_vb_lookup1 e s r p n d in (s', ORet x)
    | VAdapterHook p o n d => let '(s', x) := py_vb_adapter_hook e s p o n d in (s', ORet x)
    | VQueryAdapter o p n d => let '(s', x) := py_vb_queryAdapter e s o p n d in (s', ORet x)
    | VLookupAll req p => let '(s', x) := py_vb_lookupAll e s req p in (s', OAll x)
    | VSubscriptions req p => let '(s', x) := py_vb_subscriptions e s req p in (s', OSubs x)
    | VChanged => (v_changed e s, ONone)
    end.

  (* a program: calls, each in the environment of its time *)
  Fixpoint c_vrun (s : vstate) (prog : list (venv * vcall)) : list vout :=
    match prog with
    | [] => []
    | (e, c) :: rest => let '(s', o) := c_vstep e s c in o :: c_vrun s' rest
    end.
  Fixpoint py_vrun (s : vstate) (prog : list (venv * vcall)) : list vout :=
    match prog with
    | [] => []
    | (e, c) :: rest => let '(s', o) := py_vstep e s c in o :: py_vrun s' rest
    end.
End Verifying.

(* generations only grow, and the order below a registry changes only together with a generation in
   it (re-basing a registry bumps its _generation) *)
Definition env_le (e e' : venv) : Prop :=
  (forall r, e_gen e r <= e_gen e' r) /\
  (gens e' (e_ro_tail e) = gens e (e_ro_tail e) -> e_ro_tail e' = e_ro_tail e).
