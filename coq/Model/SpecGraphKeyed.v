(* Finding F10, documented as a model: the dependents dictionary is keyed by == / hash, which for
   interfaces is equality of (__name__, __module__).  This variant of Model/SpecGraph.v looks keys
   up through [key] (creation number -> key); with an injective [key] it IS Model/SpecGraph.v.
   With two live specifications of equal key the second one's subscribe() only bumps the count of
   the first one's entry, and ``changed`` walks the stored key objects: the second is never told.
   Only subscribe / unsubscribe differ; everything else is reused.  No proofs in this file. *)
From Coq Require Import List Arith Bool.
Import ListNotations.
From ZI Require Import Model.Ro Model.SpecGraph.

Section Keyed.
  Variable key : node -> nat.
  Variable reorder : list node -> list node.

  Fixpoint dep_incr_k (d : node) (l : deps_t) : deps_t :=
    match l with
    | [] => [(d, 1)]
    | (y, n) :: l' => if Nat.eqb (key d) (key y) then (y, S n) :: l' else (y, n) :: dep_incr_k d l'
    end.

  Fixpoint dep_decr_k (d : node) (l : deps_t) : deps_t :=
    match l with
    | [] => []
    | (y, n) :: l' =>
        if Nat.eqb (key d) (key y) then match n with S (S k) => (y, S k) :: l' | _ => l' end
        else (y, n) :: dep_decr_k d l'
    end.

  Definition set_bases_k (x : node) (bs : list node) (st : state) : state :=
    let dp1 := fold_left (fun dp b => upd dp b (dep_decr_k x (dp b))) (bases (gr st) x) (deps st) in
    let dp2 := fold_left (fun dp b => upd dp b (dep_incr_k x (dp b))) bs dp1 in
    let g' := (x, bs) :: gr st in
    changed reorder (fuel_of g') x (mkState (live st) g' (isif st) (sro st) (implied st) dp2).

  Definition new_spec_k (x : node) (iface : bool) (bs : list node) (st : state) : state :=
    set_bases_k x bs
      (mkState (live st ++ [x]) (gr st) (upd (isif st) x iface)
               (upd (sro st) x []) (upd (implied st) x []) (deps st)).

  Definition step_k (st : state) (o : op) : state :=
    match o with
    | NewSpec x k bs => new_spec_k x k bs st
    | SetBases x bs => set_bases_k x bs st
    | Drop x => drop x st
    end.
End Keyed.
