(* The caching lookup object: transcription of LookupBase (adapter.py; C twin: LB_* / _lookup /
   _lookup1 / _adapter_hook / _lookupAll / _subscriptions in _zope_interface_coptimizations.c)
   and of AdapterLookupBase.queryMultiAdapter / names / subscribers.

   The uncached computations are parameters here (instantiated with Model/Adapter.v's
   uncached_* by the users), so that statements about the cache layer hold for any of them.
   Executable definitions only. *)
From Coq Require Import List Arith Bool.
Import ListNotations.
From ZI Require Import Model.Ro Model.Adapter.

(* key under _cache[provided][name?] : a single required spec is stored bare, otherwise the tuple *)
Inductive ckey := CSingle (s : spec) | CMulti (l : list spec).

Definition ckey_eqb (a b : ckey) : bool :=
  match a, b with
  | CSingle x, CSingle y => Nat.eqb x y
  | CMulti x, CMulti y => lspec_eqb x y
  | _, _ => false
  end.

Definition ckey_of (required : list spec) : ckey :=
  match required with [s] => CSingle s | l => CMulti l end.

Definition cache_key := (spec * name * ckey)%type.
Definition cache_key_eqb (a b : cache_key) : bool :=
  let '(p1, n1, k1) := a in let '(p2, n2, k2) := b in
  Nat.eqb p1 p2 && Nat.eqb n1 n2 && ckey_eqb k1 k2.

Definition mkey := (spec * list spec)%type.
Definition mkey_eqb (a b : mkey) : bool := Nat.eqb (fst a) (fst b) && lspec_eqb (snd a) (snd b).
Definition sckey := (option spec * list spec)%type.
Definition sckey_eqb (a b : sckey) : bool := ospec_eqb (fst a) (fst b) && lspec_eqb (snd a) (snd b).

Record caches := mkC {
  c_cache : list (cache_key * option value);          (* _cache   (a cached None is a real entry) *)
  c_mcache : list (mkey * list (name * value));       (* _mcache  *)
  c_scache : list (sckey * list value);               (* _scache  *)
  c_required : list spec                              (* _required: specs this object subscribed to *)
}.

Definition empty_caches : caches := mkC [] [] [] [].

(* LookupBase.changed + AdapterLookupBase.changed: everything is dropped *)
Definition cache_changed (c : caches) : caches := empty_caches.

Definition subscribe_required (c : caches) (required : list spec) : caches :=
  mkC (c_cache c) (c_mcache c) (c_scache c)
      (fold_left (fun acc r => if mem r acc then acc else acc ++ [r]) required (c_required c)).

(* a name argument is either a string (numbered) or not a string at all *)
Inductive name_arg := NStr (n : name) | NotAString.

(* results of the entry points *)
Inductive res (A : Type) := RVal (a : A) | RDefault | RValueError.
Arguments RVal {A} _. Arguments RDefault {A}. Arguments RValueError {A}.

Section Lookup.
  (* the uncached computations of the owning registry in its current state *)
  Variable u_lookup : list spec -> spec -> name -> option value.
  Variable u_lookupAll : list spec -> spec -> list (name * value).
  Variable u_subscriptions : list spec -> option spec -> list value.

  (* LookupBase.lookup; returns the new cache state and the result (None = default) *)
  Definition lookup (c : caches) (required : list spec) (p : spec) (n : name_arg)
    : caches * res value :=
    match n with
    | NotAString => (c, RValueError)
    | NStr n =>
        let k := (p, n, ckey_of required) in
        match aget cache_key_eqb (c_cache c) k with
        | Some (Some v) => (c, RVal v)
        | Some None => (c, RDefault)
        | None =>
            let r := u_lookup required p n in
            let c' := subscribe_required
                        (mkC (aset cache_key_eqb (c_cache c) k r) (c_mcache c) (c_scache c) (c_required c))
                        required in
            (c', match r with Some v => RVal v | None => RDefault end)
        end
    end.

  (* LookupBase.lookup1: reads the single-required cache directly *)
  Definition lookup1 (c : caches) (required : spec) (p : spec) (n : name_arg) : caches * res value :=
    match n with
    | NotAString => (c, RValueError)
    | NStr n' =>
        match aget cache_key_eqb (c_cache c) (p, n', CSingle required) with
        | Some (Some v) => (c, RVal v)
        | Some None => (c, RDefault)
        | None => lookup c [required] p n
        end
    end.

  (* objects: what they provide, and the object a super proxy stands for *)
  Record obj := mkObj { o_provides : spec; o_id : nat; o_super_of : option nat }.
  Definition unwrap (o : obj) : nat := match o_super_of o with Some u => u | None => o_id o end.

  (* what calling a registered value on (unwrapped) objects returns: None or a result id *)
  Variable call : value -> list nat -> option nat.

  (* LookupBase.adapter_hook / queryAdapter *)
  Definition adapter_hook (c : caches) (p : spec) (o : obj) (n : name_arg) : caches * res nat :=
    match n with
    | NotAString => (c, RValueError)
    | NStr n' =>
        let required := o_provides o in
        let '(c', factory) :=
          match aget cache_key_eqb (c_cache c) (p, n', CSingle required) with
          | Some f => (c, f)
          | None => match lookup c [required] p n with
                    | (c', RVal v) => (c', Some v)
                    | (c', _) => (c', None)
                    end
          end in
        match factory with
        | Some f => match call f [unwrap o] with
                    | Some r => (c', RVal r)
                    | None => (c', RDefault)
                    end
        | None => (c', RDefault)
        end
    end.

  (* AdapterLookupBase.queryMultiAdapter *)
  Definition queryMultiAdapter (c : caches) (os : list obj) (p : spec) (n : name_arg) : caches * res nat :=
    match lookup c (map o_provides os) p n with
    | (c', RVal f) => match call f (map unwrap os) with
                      | Some r => (c', RVal r)
                      | None => (c', RDefault)
                      end
    | (c', RDefault) => (c', RDefault)
    | (c', RValueError) => (c', RValueError)
    end.

  (* LookupBase.lookupAll / names *)
  Definition lookupAll (c : caches) (required : list spec) (p : spec) : caches * list (name * value) :=
    match aget mkey_eqb (c_mcache c) (p, required) with
    | Some r => (c, r)
    | None =>
        let r := u_lookupAll required p in
        (subscribe_required (mkC (c_cache c) (aset mkey_eqb (c_mcache c) (p, required) r) (c_scache c)
                                 (c_required c)) required, r)
    end.

  Definition names (c : caches) (required : list spec) (p : spec) : caches * list name :=
    let '(c', r) := lookupAll c required p in (c', map fst r).

  (* LookupBase.subscriptions / AdapterLookupBase.subscribers *)
  Definition subscriptions (c : caches) (required : list spec) (p : option spec) : caches * list value :=
    match aget sckey_eqb (c_scache c) (p, required) with
    | Some r => (c, r)
    | None =>
        let r := u_subscriptions required p in
        (subscribe_required (mkC (c_cache c) (c_mcache c) (aset sckey_eqb (c_scache c) (p, required) r)
                                 (c_required c)) required, r)
    end.

  (* handlers (provided = None): every subscription is called, nothing is returned *)
  Definition subscribers (c : caches) (os : list obj) (p : option spec) : caches * (list nat * list value) :=
    let '(c', subs) := subscriptions c (map o_provides os) p in
    let called := subs in
    match p with
    | None => (c', ([], called))
    | Some _ => (c', (flat_map (fun s => match call s (map o_id os) with Some r => [r] | None => [] end) subs,
                      called))
    end.
End Lookup.
