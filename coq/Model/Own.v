(* The ownership machine for the C lookup code (property C11).

   What is modelled (src/zope/interface/_zope_interface_coptimizations.c, functions _subcache,
   _getcache, _lookup, _lookup1, _adapter_hook, _lookupAll, _subscriptions, _generations_tuple,
   verify_changed, _verify, LB_clear/LB_changed, VB_clear): each control-flow path of a function
   is a list of EVENTS over named pointer variables (extracted from the C text on every run by
   harness/translate/cskeleton.py into Gen/CSkeleton.v).

   Heap: objects are numbers; every reference that exists is one entry (holder, object) of the
   list [refs]: a holder is an owner slot of the lookup object (_cache, _mcache, _scache,
   _verify_ro, _verify_generations), a container object (its items), "somebody else" (HExt: other
   threads, Python frames, the caller), or a local variable of the C function we execute (HVar: a
   reference the function OWNS).  An object's reference count is the number of entries that
   mention it; releasing the last one frees it ([freed]) and hands the references its items held to
   HExt (the cascade of dict_dealloc: the environment drops them, see [XDecExt]).
   A local variable also has a plain pointer value ([venv]) which may dangle.

   GIL semantics: C code is atomic between may-call-Python events.  At each such event (EMayCall;
   EDecref / ESwapSlot / EClearSlot, whose decref may run a destructor; EKeyCall = __hash__/__eq__
   of an arbitrary dictionary key, when [strict]) the ENVIRONMENT runs any finite list of steps
   [estep]: it may allocate, take and drop its own references, clear and fill owner slots
   (changed() = clear every slot and drop what the freed dictionaries held; a nested or
   concurrent lookup = alloc / set slot / add item / inc / dec), add and delete dictionary items.
   It is reference-count correct: it only drops references that exist and are not ours (HVar).

   BORROWED ITEMS, per container:
     * tuple   (EFetchTuple v t, PyTuple_GET_ITEM): tuples are immutable (nobody, the environment
               included, adds to or removes from a tuple object), so the item is owned BY t for as long
               as t exists: v may be used while WE OWN t (status SVia t), across any may-call point.  An
               item of a tuple we do not own is rejected outright.
     * dict value / list item (EFetchItem v d, PyDict_GetItem / PyList_GET_ITEM; for containers that
               live in the module state: EFetchSlot through a pseudo owner slot): the container is
               mutable, so v is good only until the next may-call point (status SFresh), however well
               the container itself is owned, unless it is INCREF'd.
   After a call of another function of the skeleton (its summary, [expand]) no tuple-item borrow is
   kept (EForget): sound, and no extracted caller needs one.

   [D] is the static ownership discipline (an abstract interpretation of one path).
   Executable definitions only; the theorems are in Proofs/Own.v. *)
From Coq Require Import List Arith Bool.
Import ListNotations.

Definition var := nat.
Definition slot := nat.
Definition obj := nat.

Inductive ev :=
| EFetchSlot (v : var) (s : slot)     (* v = self->slot                      (borrowed) *)
| EFetchItem (v d : var)              (* v = PyDict_GetItem(d, ..) hit       (borrowed from the container) *)
| EFetchTuple (v t : var)             (* v = PyTuple_GET_ITEM(t, i)          (borrowed from the immutable t) *)
| EForget                             (* every tuple-item borrow is given up (part of a call summary) *)
| ENewRef (v : var)                   (* v = call returning a new reference (a fresh or an existing object) *)
| EIncref (v : var)
| EDecref (v : var)                   (* Py_DECREF / XDECREF / CLEAR of a local; may run a destructor *)
| EMayCall                            (* arbitrary Python code runs *)
| EKeyCall                            (* __hash__ / __eq__ of a dictionary key may run *)
| EUse (v : var)                      (* the object v points to is dereferenced *)
| EStoreItem (d v : var)              (* PyDict_SetItem(d, key, v): d takes its own reference to v *)
| EStealItem (d v : var)              (* PyTuple_SET_ITEM(d, i, v): our reference moves into d *)
| EStoreSlot (s : slot) (v : var)     (* self->slot = v: our reference moves into the slot; what was
                                         there is NOT released *)
| ESwapSlot (s : slot) (v : var)      (* Py_XSETREF(self->slot, v) *)
| EClearSlot (s : slot)               (* Py_CLEAR(self->slot) *)
| EAssumeSlot (s : slot) (full : bool)(* branch condition self->slot != NULL / == NULL *)
| ECall (f : nat) (args : list (option var)) (ret : option var)
                                      (* call of another function of the skeleton: one entry per pointer
                                         parameter of the callee (None = NULL or a constant the callee never
                                         touches); replaced by its summary ([expand]) or by the callee's own
                                         events ([inline], Proofs/OwnInline.v) before anything else *)
| EMoveRef (r v : var)                (* r = v, and one reference we hold through v now belongs to r
                                         (what "return v" is to the caller once the callee is inlined) *)
| EReturn (r : option var).           (* return; a returned pointer carries our reference to the caller *)

Definition path := list ev.
Record fn := mkFn { fn_id : nat; fn_params : list var; fn_paths : list path }.

(* ------------------------------------------------------------------ heap *)
Inductive holder := HSlot (s : slot) | HItem (c : obj) | HExt | HVar (v : var) | HLeak.

Definition holder_eqb (a b : holder) : bool :=
  match a, b with
  | HSlot x, HSlot y => Nat.eqb x y
  | HItem x, HItem y => Nat.eqb x y
  | HExt, HExt => true
  | HVar x, HVar y => Nat.eqb x y
  | HLeak, HLeak => true
  | _, _ => false
  end.

Definition ref := (holder * obj)%type.
Definition ref_eqb (a b : ref) : bool := holder_eqb (fst a) (fst b) && Nat.eqb (snd a) (snd b).

Record st := mkSt {
  refs : list ref;
  freed : list obj;
  tuples : list obj;               (* the immutable containers *)
  next : obj;                      (* every object mentioned anywhere is < next *)
  venv : list (var * obj)
}.

Fixpoint mem (x : nat) (l : list nat) : bool :=
  match l with [] => false | y :: l' => Nat.eqb x y || mem x l' end.

Fixpoint lookup {A} (l : list (nat * A)) (k : nat) : option A :=
  match l with [] => None | (k', a) :: l' => if Nat.eqb k k' then Some a else lookup l' k end.

Definition has_ref (rs : list ref) (o : obj) : bool := existsb (fun p => Nat.eqb (snd p) o) rs.
Definition has (rs : list ref) (r : ref) : bool := existsb (ref_eqb r) rs.
Definition live (s : st) (o : obj) : bool := has_ref (refs s) o.

Fixpoint remove1 (r : ref) (rs : list ref) : list ref :=
  match rs with
  | [] => []
  | x :: rs' => if ref_eqb r x then rs' else x :: remove1 r rs'
  end.

Definition slot_get (s : st) (sl : slot) : option obj :=
  match find (fun p => holder_eqb (fst p) (HSlot sl)) (refs s) with
  | Some p => Some (snd p)
  | None => None
  end.

Definition set_refs (s : st) (rs : list ref) : st := mkSt rs (freed s) (tuples s) (next s) (venv s).
Definition add_ref (s : st) (r : ref) : st := set_refs s (r :: refs s).
Definition set_var (s : st) (v : var) (o : obj) : st :=
  mkSt (refs s) (freed s) (tuples s) (next s) ((v, o) :: venv s).

(* the items of a freed container are handed to the environment *)
Definition orphan (c : obj) (rs : list ref) : list ref :=
  map (fun p => if holder_eqb (fst p) (HItem c) then (HExt, snd p) else p) rs.

(* drop the reference r (which must exist); the object is freed if that was the last one *)
Definition release (s : st) (r : ref) : st :=
  let rs := remove1 r (refs s) in
  if has_ref rs (snd r) then set_refs s rs
  else mkSt (orphan (snd r) rs) (snd r :: freed s) (tuples s) (next s) (venv s).

(* a new object held by h; when it is a tuple it is born with its items (the live ones of [items]) *)
Definition alloc (s : st) (h : holder) (tup : bool) (items : list obj) : st * obj :=
  let o := next s in
  let its := filter (fun i => has_ref (refs s) i) items in
  (mkSt ((h, o) :: map (fun i => (HItem o, i)) its ++ refs s) (freed s)
        (if tup then o :: tuples s else tuples s) (S o) (venv s), o).

(* ------------------------------------------------------------------ environment *)
Inductive estep :=
| XAlloc (tup : bool) (items : list obj)  (* a new object (a tuple with these items, or not) held by the environment *)
| XIncExt (o : obj)
| XDecExt (o : obj)
| XClearSlot (s : slot)
| XSetSlot (s : slot) (o : obj)
| XAddItem (c o : obj)                    (* not on tuples *)
| XDelItem (c o : obj).                   (* not on tuples *)

Definition env_step (s : st) (x : estep) : st :=
  match x with
  | XAlloc tup items => fst (alloc s HExt tup items)
  | XIncExt o => if live s o then add_ref s (HExt, o) else s
  | XDecExt o => if has (refs s) (HExt, o) then release s (HExt, o) else s
  | XClearSlot sl => match slot_get s sl with Some o => release s (HSlot sl, o) | None => s end
  | XSetSlot sl o => match slot_get s sl with
                     | Some _ => s
                     | None => if live s o then add_ref s (HSlot sl, o) else s
                     end
  | XAddItem c o => if live s c && live s o && negb (mem c (tuples s)) then add_ref s (HItem c, o) else s
  | XDelItem c o => if has (refs s) (HItem c, o) && negb (mem c (tuples s)) then release s (HItem c, o) else s
  end.

Definition env_run (s : st) (xs : list estep) : st := fold_left env_step xs s.

(* what the rest of the world does: the k-th opportunity gets the step list [o_env k];
   the k-th choice (which item a fetch finds, which object a call returns) is [o_pick k] *)
Record oracle := mkOracle {
  o_env : nat -> list estep;
  o_pick : nat -> nat;
  o_new : nat -> bool * list obj      (* what a freshly created object is: a tuple?  its items *)
}.

(* ------------------------------------------------------------------ the thread *)
Inductive fault :=
| UseFreed (v : var)        (* dereference / incref of a freed object *)
| UseUnset (v : var)        (* dereference of a variable that was never assigned *)
| NullSlot (s : slot)       (* self->slot read while NULL *)
| OverRelease (v : var)     (* decref / hand-over of a reference the function does not hold *)
| Unexpanded.               (* an ECall event reached the machine *)

Inductive outcome :=
| Running (s : st) (k : nat)
| Done (s : st)
| Infeasible                (* a branch assumption of the path does not hold in this execution *)
| Fault (f : fault).

Definition deref (s : st) (v : var) : option obj + fault :=
  match lookup (venv s) v with
  | None => inr (UseUnset v)
  | Some o => if mem o (freed s) then inr (UseFreed v) else inl (Some o)
  end.

(* all items of container c, in reference order *)
Definition items_of (s : st) (c : obj) : list obj :=
  map snd (filter (fun p => holder_eqb (fst p) (HItem c)) (refs s)).

Definition with_obj (s : st) (v : var) (f : obj -> outcome) : outcome :=
  match deref s v with
  | inl (Some o) => f o
  | inl None => Fault (UseUnset v)
  | inr e => Fault e
  end.

(* move our reference held through v to another holder *)
Definition hand_over (s : st) (v : var) (o : obj) (h : holder) : option st :=
  if has (refs s) (HVar v, o) then Some (set_refs s ((h, o) :: remove1 (HVar v, o) (refs s))) else None.

Definition step (strict : bool) (orc : oracle) (s : st) (k : nat) (e : ev) : outcome :=
  match e with
  | EFetchSlot v sl =>
      match slot_get s sl with
      | Some o => Running (set_var s v o) k
      | None => Fault (NullSlot sl)
      end
  | EFetchItem v d =>
      with_obj s d (fun c =>
        match nth_error (items_of s c) (o_pick orc k) with
        | Some o => Running (set_var s v o) (S k)
        | None => Infeasible
        end)
  | EFetchTuple v t =>
      with_obj s t (fun c =>
        if mem c (tuples s) then
          match nth_error (items_of s c) (o_pick orc k) with
          | Some o => Running (set_var s v o) (S k)
          | None => Infeasible
          end
        else Infeasible)          (* PyTuple_GET_ITEM on something that is not a tuple: outside the model *)
  | EForget => Running s k
  | ENewRef v =>
      let o := o_pick orc k in
      if live s o
      then Running (set_var (add_ref s (HVar v, o)) v o) (S k)
      else let '(s1, o1) := alloc s (HVar v) (fst (o_new orc k)) (snd (o_new orc k)) in
           Running (set_var s1 v o1) (S k)
  | EIncref v => with_obj s v (fun o => Running (add_ref s (HVar v, o)) k)
  | EDecref v =>
      match lookup (venv s) v with
      | None => Fault (UseUnset v)
      | Some o => if has (refs s) (HVar v, o)
                  then Running (env_run (release s (HVar v, o)) (o_env orc k)) (S k)
                  else Fault (OverRelease v)
      end
  | EMayCall => Running (env_run s (o_env orc k)) (S k)
  | EKeyCall => if strict then Running (env_run s (o_env orc k)) (S k) else Running s k
  | EUse v => with_obj s v (fun _ => Running s k)
  | EStoreItem d v =>
      with_obj s d (fun c => with_obj s v (fun o => Running (add_ref s (HItem c, o)) k))
  | EStealItem d v =>
      with_obj s d (fun c =>
        match lookup (venv s) v with
        | None => Fault (UseUnset v)
        | Some o => match hand_over s v o (HItem c) with
                    | Some s' => Running s' k
                    | None => Fault (OverRelease v)
                    end
        end)
  | EStoreSlot sl v =>
      match lookup (venv s) v with
      | None => Fault (UseUnset v)
      | Some o =>
          (* the pointer that was in the slot is overwritten: its reference can never be released *)
          let s0 := match slot_get s sl with
                    | Some old => set_refs s ((HLeak, old) :: remove1 (HSlot sl, old) (refs s))
                    | None => s
                    end in
          match hand_over s0 v o (HSlot sl) with
          | Some s' => Running s' k
          | None => Fault (OverRelease v)
          end
      end
  | ESwapSlot sl v =>
      match lookup (venv s) v with
      | None => Fault (UseUnset v)
      | Some o =>
          match slot_get s sl with
          | Some old =>
              (* remove the old slot reference first so that the new one is the only HSlot entry *)
              let s0 := set_refs s ((HExt, old) :: remove1 (HSlot sl, old) (refs s)) in
              match hand_over s0 v o (HSlot sl) with
              | Some s' => Running (env_run (release s' (HExt, old)) (o_env orc k)) (S k)
              | None => Fault (OverRelease v)
              end
          | None =>
              match hand_over s v o (HSlot sl) with
              | Some s' => Running (env_run s' (o_env orc k)) (S k)
              | None => Fault (OverRelease v)
              end
          end
      end
  | EClearSlot sl =>
      match slot_get s sl with
      | Some o => Running (env_run (release s (HSlot sl, o)) (o_env orc k)) (S k)
      | None => Running (env_run s (o_env orc k)) (S k)
      end
  | EAssumeSlot sl full =>
      match slot_get s sl, full with
      | Some _, true | None, false => Running s k
      | _, _ => Infeasible
      end
  | ECall _ _ _ => Fault Unexpanded
  | EMoveRef r v =>
      match lookup (venv s) v with
      | None => Fault (UseUnset v)
      | Some o =>
          if has (refs s) (HVar v, o)
          then Running (mkSt ((HVar r, o) :: remove1 (HVar v, o) (refs s)) (freed s) (tuples s) (next s) ((r, o) :: venv s)) k
          else Fault (OverRelease v)
      end
  | EReturn r =>
      match r with
      | None => Done s
      | Some v =>
          match lookup (venv s) v with
          | None => Fault (UseUnset v)
          | Some o => match hand_over s v o HExt with
                      | Some s' => Done s'
                      | None => Fault (OverRelease v)
                      end
          end
      end
  end.

Fixpoint exec (strict : bool) (orc : oracle) (p : path) (s : st) (k : nat) : outcome :=
  match p with
  | [] => Running s k
  | e :: p' =>
      match step strict orc s k e with
      | Running s' k' => exec strict orc p' s' k'
      | out => out
      end
  end.

(* references the function holds through variable v *)
Definition own_count (s : st) (v : var) : nat :=
  length (filter (fun p => holder_eqb (fst p) (HVar v)) (refs s)).

Definition has_leak (s : st) : bool := existsb (fun p => holder_eqb (fst p) HLeak) (refs s).

(* at return: parameters still carry exactly the caller's reference, nothing else is held, nothing
   was made unreachable: every remaining reference has an owner that can release it *)
Definition balanced (params : list var) (s : st) : bool :=
  negb (has_leak s) &&
  forallb (fun p => match fst p with
                    | HVar v => mem v params && Nat.eqb (own_count s v) 1
                    | _ => true
                    end) (refs s).

(* ------------------------------------------------------------------ the discipline D *)
Inductive vstat :=
| SStale               (* unset, or a pointer that may dangle *)
| SFresh               (* borrowed, nothing ran since it was fetched *)
| SVia (t : var)       (* an item of the tuple t: good while we own t *)
| SOwned (n : nat).    (* we hold n + 1 references through this variable *)

Record dst := mkD {
  d_stat : list (var * vstat);
  d_empty : list slot;       (* slots known to be NULL since the last may-call point *)
  d_full : list slot         (* slots known to be non-NULL since the last may-call point *)
}.

Definition stat (d : dst) (v : var) : vstat :=
  match lookup (d_stat d) v with Some x => x | None => SStale end.

Definition set_stat (d : dst) (v : var) (x : vstat) : dst :=
  mkD ((v, x) :: d_stat d) (d_empty d) (d_full d).

Definition is_owned (x : vstat) : bool := match x with SOwned _ => true | _ => false end.

(* v may be dereferenced *)
Definition valid (d : dst) (v : var) : bool :=
  match stat d v with
  | SFresh | SOwned _ => true
  | SVia t => is_owned (stat d t)
  | SStale => false
  end.

Definition remove_nat (x : nat) (l : list nat) : list nat := filter (fun y => negb (Nat.eqb x y)) l.

(* arbitrary code ran: borrowed pointers may dangle, slots may have been cleared or filled *)
Definition invalidate (d : dst) : dst :=
  mkD (map (fun p => match snd p with SFresh => (fst p, SStale) | _ => p end) (d_stat d))
      [] [].

(* t stops being owned, starts being owned or is overwritten: items borrowed from it are given up *)
Definition unvia (t : var) (d : dst) : dst :=
  mkD (map (fun p => match snd p with
                     | SVia u => if Nat.eqb u t then (fst p, SStale) else p
                     | _ => p
                     end) (d_stat d))
      (d_empty d) (d_full d).

(* v is overwritten with a pointer of status x *)
Definition reassign (d : dst) (v : var) (x : vstat) : dst := set_stat (unvia v d) v x.

Definition forget (d : dst) : dst :=
  mkD (map (fun p => match snd p with SVia _ => (fst p, SStale) | _ => p end) (d_stat d)) (d_empty d) (d_full d).

(* give up one reference held through v; [after] is the status when it was the last one *)
Definition drop_one (d : dst) (v : var) (after : vstat) : option dst :=
  match stat d v with
  | SOwned 0 => Some (set_stat (unvia v d) v after)
  | SOwned (S n) => Some (set_stat d v (SOwned n))
  | _ => None
  end.

Definition dstep (strict : bool) (d : dst) (e : ev) : option dst :=
  match e with
  | EFetchSlot v s =>
      if negb (is_owned (stat d v)) && mem s (d_full d) then Some (reassign d v SFresh) else None
  | EFetchItem v c =>
      if negb (is_owned (stat d v)) && valid d c then Some (reassign d v SFresh) else None
  | EFetchTuple v t =>
      if negb (is_owned (stat d v)) && is_owned (stat d t) && negb (Nat.eqb v t)
      then Some (reassign d v (SVia t)) else None
  | EForget => Some (forget d)
  | ENewRef v =>
      if negb (is_owned (stat d v)) then Some (reassign d v (SOwned 0)) else None
  | EIncref v =>
      if valid d v then
        Some (match stat d v with
              | SOwned n => set_stat d v (SOwned (S n))
              | _ => reassign d v (SOwned 0)
              end)
      else None
  | EDecref v => option_map invalidate (drop_one d v SStale)
  | EMayCall => Some (invalidate d)
  | EKeyCall => Some (if strict then invalidate d else d)
  | EUse v => if valid d v then Some d else None
  | EStoreItem c v => if valid d c && valid d v then Some d else None
  | EStealItem c v => if valid d c && negb (Nat.eqb c v) then drop_one d v SFresh else None
  | EStoreSlot s v =>
      if mem s (d_empty d) then
        option_map (fun d1 => mkD (d_stat d1) (remove_nat s (d_empty d1)) (s :: d_full d1))
                   (drop_one d v SFresh)
      else None
  | ESwapSlot s v => option_map invalidate (drop_one d v SFresh)
  | EClearSlot s => Some (invalidate d)
  | EAssumeSlot s full =>
      Some (if full then mkD (d_stat d) (d_empty d) (s :: d_full d)
            else mkD (d_stat d) (s :: d_empty d) (d_full d))
  | ECall _ _ _ => None
  | EMoveRef r v =>
      if negb (is_owned (stat d r)) && negb (Nat.eqb r v) then
        option_map (fun d1 => reassign d1 r (SOwned 0)) (drop_one d v SStale)
      else None
  | EReturn r =>
      match r with
      | None => Some d
      | Some v => drop_one d v SStale
      end
  end.

(* the last event of a path is its only EReturn *)
Fixpoint drun (strict : bool) (d : dst) (p : path) : option dst :=
  match p with
  | [] => None
  | [EReturn r] => dstep strict d (EReturn r)
  | EReturn _ :: _ => None
  | e :: p' => match dstep strict d e with Some d' => drun strict d' p' | None => None end
  end.

Definition d_init (params : list var) : dst :=
  mkD (map (fun v => (v, SOwned 0)) params) [] [].

Definition d_final (params : list var) (d : dst) : bool :=
  forallb (fun p => let v := fst p in
                    match stat d v with
                    | SOwned n => mem v params && Nat.eqb n 0
                    | _ => negb (mem v params)
                    end) (d_stat d).

Definition nodup_nat (l : list nat) : bool :=
  (fix go l := match l with [] => true | x :: l' => negb (mem x l') && go l' end) l.

Definition D (strict : bool) (params : list var) (p : path) : bool :=
  nodup_nat params &&
  match drun strict (d_init params) p with
  | Some d => d_final params d
  | None => false
  end.

(* ------------------------------------------------------------------ calls between skeleton functions *)
(* A call is replaced by its summary: the arguments are used, arbitrary code may run (every function
   of the skeleton can call back into Python), the arguments are used again, and (on the success
   path) a new reference is returned.  That the callee itself keeps to the discipline, and in
   particular returns an owned reference, is checked on its own paths. *)
Fixpoint somes {A} (l : list (option A)) : list A :=
  match l with [] => [] | Some x :: l' => x :: somes l' | None :: l' => somes l' end.

Definition expand_ev (e : ev) : list ev :=
  match e with
  | ECall _ args ret =>
      map EUse (somes args) ++ [EMayCall; EForget] ++ map EUse (somes args) ++
      match ret with Some v => [ENewRef v] | None => [] end
  | _ => [e]
  end.
Definition expand (p : path) : path := flat_map expand_ev p.

Definition D_fn (strict : bool) (f : fn) : bool :=
  forallb (fun p => D strict (fn_params f) (expand p)) (fn_paths f).

(* which (function, path index) fail: diagnostics for the harness *)
Definition D_failures (strict : bool) (fs : list fn) : list (nat * nat) :=
  flat_map (fun f => map (fun ip => (fn_id f, fst ip))
                         (filter (fun ip => negb (D strict (fn_params f) (expand (snd ip))))
                                 (combine (seq 0 (length (fn_paths f))) (fn_paths f)))) fs.

(* ------------------------------------------------------------------ initial states *)
(* a well-formed start: parameter i points to a live object and the function holds exactly one
   reference through it (the caller's); no other local holds anything *)
Definition init_ok (params : list var) (s : st) : bool :=
  negb (has_leak s) &&
  forallb (fun p => Nat.ltb (snd p) (next s) && negb (mem (snd p) (freed s)) &&
                    match fst p with
                    | HVar v => mem v params && Nat.eqb (own_count s v) 1 &&
                                match lookup (venv s) v with Some o => Nat.eqb o (snd p) | None => false end
                    | _ => true
                    end) (refs s) &&
  forallb (fun v => Nat.eqb (own_count s v) 1) params &&
  forallb (fun o => Nat.ltb o (next s)) (freed s) &&
  forallb (fun p => Nat.ltb (snd p) (next s)) (venv s).
