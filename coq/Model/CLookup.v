(* The C twins of the lookup entry points: transcription of
     _getcache, _lookup, _lookup1, _adapter_hook, LB_queryAdapter, _lookupAll, _subscriptions
   of src/zope/interface/_zope_interface_coptimizations.c, over the same [caches] record as the
   Python-derived Model/Lookup.v.

   What the C code does differently from the Python text and is modelled here:
     * arguments [name] and [default] may be absent (NULL pointers), tested with "name && ...",
       "default_ != NULL";
     * results are object pointers: a cached / uncached "no result" is Py_None, and the caller's
       default is substituted by pointer tests ("result == Py_None && default_ != NULL");
     * _adapter_hook calls _lookup1 with Py_None as the default and then compares
       "default_ == result";
     * _getcache descends into the per-name sub-dictionary only if the name is true ('' is not).
   Reference counting (the owned references to the cache dictionaries, to __self__ of a super
   proxy ...) and allocation failures are not modelled (C11's subject); _lookup1 is written
   "if (result != NULL) {substitute default} ... if (result == NULL) {call _lookup}" in the
   source, which is the two-branch match below.
   Executable definitions only. *)
From Coq Require Import List Arith Bool.
Import ListNotations.
From ZI Require Import Model.Ro Model.Adapter Model.Lookup.

(* the objects an entry point can hand back *)
Inductive pyobj :=
| PNone                 (* Py_None *)
| PValue (v : value)    (* a registered value *)
| PDefault              (* the caller's default object when it is not None *)
| PResult (n : nat).    (* what a factory returned (not None) *)

(* the default_ argument: NULL, Py_None, or some other object *)
Inductive darg := DAbsent | DNone | DObj.

Inductive cret := CRet (o : pyobj) | CValueError | CTypeError.

Definition dflt_obj (d : darg) : pyobj := match d with DObj => PDefault | _ => PNone end.
Definition is_absent (d : darg) : bool := match d with DAbsent => true | _ => false end.
Definition is_none (o : pyobj) : bool := match o with PNone => true | _ => false end.
(* pointer comparison default_ == o (default_ not NULL) *)
Definition darg_is (d : darg) (o : pyobj) : bool :=
  match d, o with DNone, PNone => true | DObj, PDefault => true | _, _ => false end.

(* a cache entry as an object: a cached None is Py_None *)
Definition entry_obj (r : option value) : pyobj := match r with Some v => PValue v | None => PNone end.

(* name && !PyUnicode_Check(name) *)
Definition c_name_bad (name : option name_arg) : bool :=
  match name with Some NotAString => true | _ => false end.
(* the string handed to _uncached_lookup: an absent name is the default '' *)
Definition c_name_str (name : option name_arg) : Adapter.name :=
  match name with Some (NStr n) => n | _ => 0 end.

(* _getcache: the (sub-)dictionary for (provided, name); "name != NULL && PyObject_IsTrue(name)".
   In the flattened cache of Model/Lookup.v the dictionary _cache[provided] itself is (p, 0) *)
Definition c_getcache (p : spec) (name : option name_arg) : spec * Adapter.name :=
  match name with
  | Some (NStr n) => if Nat.eqb n 0 then (p, 0) else (p, n)
  | _ => (p, 0)
  end.

(* the Python signature seen through the same glasses: name='' and default=None when omitted,
   "return default" hands back that very object *)
Definition cname (name : option name_arg) : name_arg := match name with Some n => n | None => NStr 0 end.
Definition py_ret (d : darg) (r : res value) : cret :=
  match r with RVal v => CRet (PValue v) | RDefault => CRet (dflt_obj d) | RValueError => CValueError end.
Definition py_ret_nat (d : darg) (r : res nat) : cret :=
  match r with RVal n => CRet (PResult n) | RDefault => CRet (dflt_obj d) | RValueError => CValueError end.

Section CLookup.
  Variable u_lookup : list spec -> spec -> Adapter.name -> option value.
  Variable u_lookupAll : list spec -> spec -> list (Adapter.name * value).
  Variable u_subscriptions : list spec -> option spec -> list value.
  Variable call : value -> list nat -> option nat.

  (* _lookup *)
  Definition c_lookup (c : caches) (required : list spec) (p : spec) (name : option name_arg) (d : darg)
    : caches * cret :=
    if c_name_bad name then (c, CValueError) else
    let '(cp, cn) := c_getcache p name in
    let key := match required with [s] => CSingle s | _ => CMulti required end in  (* GET_SIZE == 1 *)
    let '(c', result) :=
      match aget cache_key_eqb (c_cache c) (cp, cn, key) with
      | None =>
          let r := u_lookup required p (c_name_str name) in
          (subscribe_required (mkC (aset cache_key_eqb (c_cache c) (cp, cn, key) r)
                                   (c_mcache c) (c_scache c) (c_required c)) required,
           entry_obj r)
      | Some r => (c, entry_obj r)
      end in
    if is_none result && negb (is_absent d) then (c', CRet (dflt_obj d)) else (c', CRet result).

  (* _lookup1 *)
  Definition c_lookup1 (c : caches) (required : spec) (p : spec) (name : option name_arg) (d : darg)
    : caches * cret :=
    if c_name_bad name then (c, CValueError) else
    let '(cp, cn) := c_getcache p name in
    match aget cache_key_eqb (c_cache c) (cp, cn, CSingle required) with
    | None => c_lookup c [required] p name d
    | Some r =>
        let result := entry_obj r in
        (c, CRet (if is_none result && negb (is_absent d) then dflt_obj d else result))
    end.

  (* PyObject_CallFunctionObjArgs(factory, object, NULL) *)
  Definition call_obj (f : pyobj) (args : list nat) : cret :=
    match f with
    | PValue v => match call v args with Some r => CRet (PResult r) | None => CRet PNone end
    | _ => CTypeError
    end.

  (* the tail of _adapter_hook: "if (default_ == NULL || default_ == result) return result;
     return default_" with result == Py_None *)
  Definition c_hook_finish (c : caches) (result : pyobj) (d : darg) : caches * cret :=
    if is_absent d || darg_is d result then (c, CRet result) else (c, CRet (dflt_obj d)).

  (* _adapter_hook *)
  Definition c_adapter_hook (c : caches) (p : spec) (o : obj) (name : option name_arg) (d : darg)
    : caches * cret :=
    if c_name_bad name then (c, CValueError) else
    let required := o_provides o in
    match c_lookup1 c required p name DNone with
    | (c', CRet factory) =>
        if negb (is_none factory) then
          (* PyObject_TypeCheck(object, &PySuper_Type): object = object.__self__ *)
          let object := match o_super_of o with Some u => u | None => o_id o end in
          match call_obj factory [object] with
          | CRet result => if negb (is_none result) then (c', CRet result) else c_hook_finish c' result d
          | err => (c', err)
          end
        else c_hook_finish c' factory d
    | (c', err) => (c', err)
    end.

  (* LB_queryAdapter *)
  Definition c_queryAdapter (c : caches) (o : obj) (p : spec) (name : option name_arg) (d : darg) :=
    c_adapter_hook c p o name d.

  (* _lookupAll *)
  Definition c_lookupAll (c : caches) (required : list spec) (p : spec) : caches * list (Adapter.name * value) :=
    match aget mkey_eqb (c_mcache c) (p, required) with
    | None =>
        let result := u_lookupAll required p in
        (subscribe_required (mkC (c_cache c) (aset mkey_eqb (c_mcache c) (p, required) result) (c_scache c)
                                 (c_required c)) required, result)
    | Some result => (c, result)
    end.

  (* _subscriptions *)
  Definition c_subscriptions (c : caches) (required : list spec) (p : option spec) : caches * list value :=
    match aget sckey_eqb (c_scache c) (p, required) with
    | None =>
        let result := u_subscriptions required p in
        (subscribe_required (mkC (c_cache c) (c_mcache c) (aset sckey_eqb (c_scache c) (p, required) result)
                                 (c_required c)) required, result)
    | Some result => (c, result)
    end.
End CLookup.
