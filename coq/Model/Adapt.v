(* C14 model: calling an interface, `I(obj[, alternate])`.

   Mirrors (src/zope/interface/interface.py)
     InterfaceBase.__call__, InterfaceBase.__adapt__, InterfaceClass._call_conform,
     adapter_hooks, interfacemethod, InterfaceClass.__new__ / __init_subclass__ (custom methods
     class, plain subclasses, the _CALL_CUSTOM_ADAPT and _CALL_CUSTOM_PROVIDEDBY flags)
   and (src/zope/interface/_zope_interface_coptimizations.c) IB__call__, IB__adapt__.

   Everything the code calls out to (the object's __conform__, whether the object provides the
   interface, the hooks in adapter_hooks, a custom __adapt__) is an input *behaviour*; [py_call]
   and [c_call] return the outcome of the call together with the log of the external steps
   they executed, in order.  No proofs in this file. *)
From Coq Require Import List Bool Arith.
Import ListNotations.
From ZI Require Import Lib.Util.

(* ------------------------------------------------------------------ behaviours (inputs) *)

(* a user exception instance: its class family and an identity tag *)
Inductive ekind := EAttr (* AttributeError *) | EType (* TypeError *) | EOther.
Record exn := mkExn { e_kind : ekind; e_tag : nat }.

(* What is in flight when something raises.  Exceptions raised by user code (inside a Python
   function) always carry at least two traceback entries when seen from the caller's
   try-block; the two interpreter-made ones are the missing attribute and the TypeError of a
   call that failed before any callee frame ran (traceback of length one). *)
Inductive raised :=
| User (e : exn)
| InterpAttr      (* AttributeError: object has no attribute '__conform__' *)
| InterpTE0.      (* TypeError raised by the call machinery itself, tb_next is None *)

(* obj.__conform__ :
     CAbsent        no such attribute
     CGetRaise e    reading the attribute raises e (AttributeError family or anything else)
     CGetNone       the attribute is None
     CRetNone / CRetValue v / CRaise e   a callable; conform(I) returns None / v / raises e from
                    inside a Python function (this includes TypeError "deeper")
     CTypeErr0      a callable; conform(I) fails with a bare TypeError at call depth 0
                    (unbound method of a class, wrong arity ...) *)
Inductive conform :=
| CAbsent | CGetRaise (e : exn) | CGetNone
| CRetNone | CRetValue (v : nat) | CRaise (e : exn) | CTypeErr0.

(* one entry of adapter_hooks: hook(I, obj) returns None / v / raises e *)
Inductive hook := HNone | HValue (v : nat) | HRaise (e : exn).

(* a custom __adapt__ defined with @interfacemethod: returns None / v / raises e / returns
   super().__adapt__(obj) *)
Inductive cbeh := CANone | CAValue (v : nat) | CARaise (e : exn) | CADelegate.

(* an overridden providedBy (via @interfacemethod or in a plain InterfaceClass subclass): returns
   True / False / raises e / returns super().providedBy(obj) *)
Inductive pbeh := PBTrue | PBFalse | PBRaise (e : exn) | PBDelegate.

Record obj := mkObj {
  conf : conform;
  provides : bool;            (* Specification.providedBy(I, obj), the built-in provided-check *)
  hooks : list hook;          (* contents of adapter_hooks, in list order *)
  alternate : option nat      (* second argument, if given (0 stands for Python None) *)
}.

(* One interface definition of an inheritance chain, root first.
     l_plain = false:  `class I_k(I_{k-1}): ...` whose body may define __adapt__, providedBy and/or
                       another method with @interfacemethod
     l_plain = true:   `class IC_k(type(I_{k-1})): ...` a plain subclass of the interface class
                       so far (InterfaceClass at the root) that may define the same methods, then
                       `I_k = IC_k('I_k', (I_{k-1},), {})` *)
Record lvl := mkLvl { l_adapt : option cbeh; l_prov : option pbeh; l_other : bool; l_plain : bool }.

(* ------------------------------------------------------------------ observations (outputs) *)

Inductive ev :=
| EvGetConform            (* obj.__conform__ was read *)
| EvCallConform           (* conform(I) was called *)
| EvProvided              (* the built-in provided-check ran (obj.__providedBy__ was read) *)
| EvCustomProv (level : nat) (* the providedBy override defined at chain level [level] was called *)
| EvHook (i : nat)        (* adapter_hooks[i](I, obj) was called *)
| EvCustom (level : nat). (* the custom __adapt__ defined at chain level [level] was called *)

Inductive outcome :=
| Return (v : nat) | ReturnObj | ReturnAlt
| RaiseE (r : raised)
| RaiseCouldNotAdapt.     (* TypeError("Could not adapt", obj, I) *)

Inductive res (A : Type) := Ok (a : A) | Raise (r : raised).
Arguments Ok {A} a.
Arguments Raise {A} r.

(* what an __adapt__ returns when it is not None *)
Inductive value := VObj | VVal (v : nat).

Definition is_attribute_error (r : raised) : bool :=
  match r with
  | InterpAttr => true
  | User e => match e_kind e with EAttr => true | _ => false end
  | InterpTE0 => false
  end.

Definition is_type_error (r : raised) : bool :=
  match r with
  | InterpTE0 => true
  | User e => match e_kind e with EType => true | _ => false end
  | InterpAttr => false
  end.

(* sys.exc_info()[2].tb_next is None *)
Definition tb_single (r : raised) : bool :=
  match r with InterpTE0 => true | _ => false end.

(* ------------------------------------------------------------------ the object's side *)

(* getattr(obj, '__conform__'): None, a callable (unit: its behaviour stays in [conf]) or raises *)
Definition getattr_conform (c : conform) : res (option unit) :=
  match c with
  | CAbsent => Raise InterpAttr
  | CGetRaise e => Raise (User e)
  | CGetNone => Ok None
  | CRetNone | CRetValue _ | CRaise _ | CTypeErr0 => Ok (Some tt)
  end.

(* conform(I) *)
Definition apply_conform (c : conform) : res (option nat) :=
  match c with
  | CRetNone => Ok None
  | CRetValue v => Ok (Some v)
  | CRaise e => Raise (User e)
  | CTypeErr0 => Raise InterpTE0
  | CAbsent | CGetRaise _ | CGetNone => Ok None   (* not reached: no callable was obtained *)
  end.

Definition call_hook (h : hook) : res (option value) :=
  match h with
  | HNone => Ok None
  | HValue v => Ok (Some (VVal v))
  | HRaise e => Raise (User e)
  end.

(* ------------------------------------------------------------------ interface.py *)

(* InterfaceClass._call_conform:
     try: return conform(self)
     except TypeError:
         if sys.exc_info()[2].tb_next is not None: raise
     return None *)
Definition call_conform (c : conform) : res (option nat) :=
  match apply_conform c with
  | Ok a => Ok a
  | Raise r => if is_type_error r then (if tb_single r then Ok None else Raise r) else Raise r
  end.

(* InterfaceBase.__adapt__, the loop `for hook in adapter_hooks` from position i *)
Fixpoint run_hooks (i : nat) (hs : list hook) : list ev * res (option value) :=
  match hs with
  | [] => ([], Ok None)
  | h :: t =>
      match call_hook h with
      | Raise r => ([EvHook i], Raise r)
      | Ok (Some a) => ([EvHook i], Ok (Some a))
      | Ok None => let (lg, r) := run_hooks (S i) t in (EvHook i :: lg, r)
      end
  end.

(* The class of an interface (built by InterfaceClass.__new__ / __init_subclass__):
     k_flag_own   '_CALL_CUSTOM_ADAPT' in type(I).__dict__
     k_flag_mro   getattr(type(I), '_CALL_CUSTOM_ADAPT', False)
     k_adapt      the custom __adapt__ definitions on the MRO of type(I), nearest first
     k_pflag_own  '_CALL_CUSTOM_PROVIDEDBY' in type(I).__dict__
     k_prov       the providedBy overrides on the MRO of type(I), nearest first *)
Record kls := mkKls {
  k_flag_own : bool; k_flag_mro : bool; k_adapt : list (nat * cbeh);
  k_pflag_own : bool; k_prov : list (nat * pbeh)
}.

(* InterfaceClass itself *)
Definition base_kls : kls := mkKls false false [] false [].

(* `self.providedBy(obj)` resolved along the MRO of type(self): the overrides, nearest first, and
   below them Specification.providedBy, the built-in check.  PBDelegate is
   `return super().providedBy(obj)`. *)
Fixpoint prov_mro (defs : list (nat * pbeh)) (o : obj) : list ev * res bool :=
  match defs with
  | [] => ([EvProvided], Ok (provides o))
  | (i, b) :: rest =>
      match b with
      | PBTrue => ([EvCustomProv i], Ok true)
      | PBFalse => ([EvCustomProv i], Ok false)
      | PBRaise e => ([EvCustomProv i], Raise (User e))
      | PBDelegate => let (lg, r) := prov_mro rest o in (EvCustomProv i :: lg, r)
      end
  end.

(* InterfaceBase.__adapt__:
     if self.providedBy(obj): return obj
     for hook in adapter_hooks: ...
     return None *)
Definition py_default_adapt (k : kls) (o : obj) : list ev * res (option value) :=
  let (lp, rp) := prov_mro (k_prov k) o in
  match rp with
  | Raise r => (lp, Raise r)
  | Ok true => (lp, Ok (Some VObj))
  | Ok false => let (lg, r) := run_hooks 0 (hooks o) in (lp ++ lg, r)
  end.

(* `self.__adapt__(obj)` resolved along the MRO of type(self): [defs] lists the custom
   definitions, nearest first, each with the chain level that defined it; below them sits
   InterfaceBase.__adapt__ ([base]).  CADelegate is `return super().__adapt__(obj)`. *)
Fixpoint adapt_mro (base : obj -> list ev * res (option value)) (defs : list (nat * cbeh)) (o : obj)
  : list ev * res (option value) :=
  match defs with
  | [] => base o
  | (i, b) :: rest =>
      match b with
      | CANone => ([EvCustom i], Ok None)
      | CAValue v => ([EvCustom i], Ok (Some (VVal v)))
      | CARaise e => ([EvCustom i], Raise (User e))
      | CADelegate => let (lg, r) := adapt_mro base rest o in (EvCustom i :: lg, r)
      end
  end.

Definition is_some {A} (x : option A) : bool := match x with Some _ => true | None => false end.
Definition is_nil {A} (l : list A) : bool := match l with [] => true | _ => false end.

Definition has_methods (l : lvl) : bool := is_some (l_adapt l) || is_some (l_prov l) || l_other l.

(* A new interface class for the definition [l] at chain level [i]; [cls] is the class of the base
   interface.  A class is created when the level is a plain subclass, or when the interface body
   has @interfacemethods (InterfaceClass.__new__):
     needs_custom_class = attrs.pop(INTERFACE_METHODS, None)
     if needs_custom_class:
         if '__adapt__' in needs_custom_class or getattr(cls, '_CALL_CUSTOM_ADAPT', False):
             needs_custom_class['_CALL_CUSTOM_ADAPT'] = 1
         cls = type(cls)(name + "<WithCustomMethods>", (cls,)..., needs_custom_class)
   and on every class creation InterfaceClass.__init_subclass__ runs:
     if cls.__adapt__ is not InterfaceBase.__adapt__: cls._CALL_CUSTOM_ADAPT = 1
     if cls.providedBy is not Specification.providedBy: cls._CALL_CUSTOM_PROVIDEDBY = 1
   [propagate = false]: __new__ before the fix f460281 (only the first disjunct);
   [isc = false]: no __init_subclass__ (before a1711b6 / 145bd4d). *)
Definition new_kls_gen (propagate isc : bool) (i : nat) (cls : kls) (l : lvl) : kls :=
  if l_plain l || has_methods l then
    let adapt' := match l_adapt l with Some b => (i, b) :: k_adapt cls | None => k_adapt cls end in
    let prov' := match l_prov l with Some b => (i, b) :: k_prov cls | None => k_prov cls end in
    let new_flag := negb (l_plain l) && (is_some (l_adapt l) || (propagate && k_flag_mro cls)) in
    let flag := new_flag || (isc && negb (is_nil adapt')) in
    mkKls flag (flag || k_flag_mro cls) adapt' (isc && negb (is_nil prov')) prov'
  else cls.

Fixpoint build_kls_gen (propagate isc : bool) (i : nat) (cls : kls) (chain : list lvl) : kls :=
  match chain with
  | [] => cls
  | l :: t => build_kls_gen propagate isc (S i) (new_kls_gen propagate isc i cls l) t
  end.

(* the class of the last interface of the chain (the one that is called) *)
Definition type_of_chain_gen (propagate isc : bool) (chain : list lvl) : kls :=
  build_kls_gen propagate isc 0 base_kls chain.

(* the current source: __init_subclass__ is there *)
Definition new_kls (propagate : bool) := new_kls_gen propagate true.
Definition build_kls (propagate : bool) := build_kls_gen propagate true.
Definition type_of_chain (propagate : bool) (chain : list lvl) : kls :=
  type_of_chain_gen propagate true chain.

(* tail of __call__ after self.__adapt__(obj) returned / raised *)
Definition finish (o : obj) (lg : list ev) (r : res (option value)) : list ev * outcome :=
  match r with
  | Raise x => (lg, RaiseE x)
  | Ok (Some VObj) => (lg, ReturnObj)
  | Ok (Some (VVal v)) => (lg, Return v)
  | Ok None =>
      match alternate o with
      | Some _ => (lg, ReturnAlt)
      | None => (lg, RaiseCouldNotAdapt)
      end
  end.

(* I.__adapt__(obj) called directly (same attribute lookup in both implementations; the
   bottom of the MRO is the implementation's own InterfaceBase.__adapt__) *)
Definition py_adapt (k : kls) (o : obj) : list ev * res (option value) :=
  adapt_mro (py_default_adapt k) (k_adapt k) o.

(* InterfaceBase.__call__ *)
Definition py_call (k : kls) (o : obj) : list ev * outcome :=
  (* try: conform = obj.__conform__
     except AttributeError: conform = None *)
  let conform := match getattr_conform (conf o) with
                 | Ok c => Ok c
                 | Raise r => if is_attribute_error r then Ok None else Raise r
                 end in
  match conform with
  | Raise r => ([EvGetConform], RaiseE r)
  | Ok None =>
      let (lg, r) := py_adapt k o in finish o (EvGetConform :: lg) r
  | Ok (Some _) =>
      (* adapter = self._call_conform(conform); if adapter is not None: return adapter *)
      match call_conform (conf o) with
      | Raise r => ([EvGetConform; EvCallConform], RaiseE r)
      | Ok (Some v) => ([EvGetConform; EvCallConform], Return v)
      | Ok None =>
          let (lg, r) := py_adapt k o in finish o (EvGetConform :: EvCallConform :: lg) r
      end
  end.

(* ------------------------------------------------------------------ _zope_interface_coptimizations.c *)

(* IB__adapt__: for (i = 0; i < PyList_GET_SIZE(adapter_hooks); i++) { ... }
   [n] counts the remaining iterations size - i (the hooks do not change the list in this model). *)
Fixpoint c_hook_loop (n i : nat) (hs : list hook) : list ev * res (option value) :=
  match n with
  | 0 => ([], Ok None)
  | S n' =>
      match nth_error hs i with
      | None => ([], Ok None)        (* not reached: i < l = length hs *)
      | Some h =>
          (* adapter = PyObject_CallObject(hook, args);
             if (adapter == NULL || adapter != Py_None) return adapter; *)
          match call_hook h with
          | Raise r => ([EvHook i], Raise r)
          | Ok (Some a) => ([EvHook i], Ok (Some a))
          | Ok None => let (lg, r) := c_hook_loop n' (S i) hs in (EvHook i :: lg, r)
          end
      end
  end.

(* IB__adapt__:
     if (PyDict_GetItemString(Py_TYPE(self)->tp_dict, "_CALL_CUSTOM_PROVIDEDBY"))
         implements = PyObject_IsTrue(self.providedBy(obj))
     else  implements = <inlined check: self in providedBy(obj)._implied>
     if (implements) return obj;  ... hooks ... *)
Definition c_default_adapt (k : kls) (o : obj) : list ev * res (option value) :=
  let (lp, rp) := if k_pflag_own k then prov_mro (k_prov k) o
                  else ([EvProvided], Ok (provides o)) in
  match rp with
  | Raise r => (lp, Raise r)
  | Ok true => (lp, Ok (Some VObj))
  | Ok false =>
      let (lg, r) := c_hook_loop (length (hooks o)) 0 (hooks o) in (lp ++ lg, r)
  end.

Definition c_adapt (k : kls) (o : obj) : list ev * res (option value) :=
  adapt_mro (c_default_adapt k) (k_adapt k) o.

(* IB__call__ *)
Definition c_call (k : kls) (o : obj) : list ev * outcome :=
  (* conform = PyObject_GetAttr(obj, str__conform__);
     if (conform == NULL) { if (!PyErr_ExceptionMatches(PyExc_AttributeError)) return NULL;
                            PyErr_Clear(); conform = Py_None; } *)
  match getattr_conform (conf o) with
  | Raise r =>
      if is_attribute_error r then
        let (lg, a) := if k_flag_own k then c_adapt k o else c_default_adapt k o in
        finish o (EvGetConform :: lg) a
      else ([EvGetConform], RaiseE r)
  | Ok None =>
      let (lg, a) := if k_flag_own k then c_adapt k o else c_default_adapt k o in
      finish o (EvGetConform :: lg) a
  | Ok (Some _) =>
      (* adapter = PyObject_CallMethodObjArgs(self, str_call_conform, conform, NULL);
         if (adapter == NULL || adapter != Py_None) return adapter; *)
      match call_conform (conf o) with
      | Raise r => ([EvGetConform; EvCallConform], RaiseE r)
      | Ok (Some v) => ([EvGetConform; EvCallConform], Return v)
      | Ok None =>
          (* if (PyDict_GetItemString(self->ob_type->tp_dict, "_CALL_CUSTOM_ADAPT"))
                 adapter = PyObject_CallMethodObjArgs(self, str__adapt__, obj, NULL);
             else adapter = IB__adapt__(self, obj); *)
          let (lg, a) := if k_flag_own k then c_adapt k o else c_default_adapt k o in
          finish o (EvGetConform :: EvCallConform :: lg) a
      end
  end.

(* ------------------------------------------------------------------ interface DAGs *)

(* An interface definition in a DAG of interfaces (nodes in creation order, bases by index; no base
   = Interface).  How it is created decides its class:
     HClass     `class I(B1, ..., Bn): ...`  Python first picks the metaclass: the most derived of
                type(B1) ... type(Bn) (TypeError "metaclass conflict" if none derives from all the
                others), then InterfaceClass.__new__(that class, ...) adds a custom-methods class
                on top when the body has @interfacemethods
     HCallIC    `InterfaceClass(name, (B1, ..., Bn), {})`: the class is InterfaceClass itself, whatever
                the bases' classes are: a custom __adapt__ of a base is NOT inherited
     HCallType  `type(B1)(name, (B1, ..., Bn), {})`: the class of the first base
   Which custom __adapt__ / providedBy an interface runs therefore follows the metaclass line, not
   the order of its __bases__.  A class is identified by its line: the nodes whose definition
   created a class on its MRO, nearest first. *)
Inductive how := HClass | HCallIC | HCallType.
Record node := mkNode {
  n_bases : list nat; n_how : how; n_adapt : option cbeh; n_prov : option pbeh; n_other : bool
}.

Definition node_has_methods (nd : node) : bool :=
  is_some (n_adapt nd) || is_some (n_prov nd) || n_other nd.

(* [a] is a suffix of [b]: the class with line [b] derives from (or is) the class with line [a] *)
Definition derives_from (b a : list nat) : bool :=
  Nat.leb (length a) (length b) && lnat_eqb a (skipn (length b - length a) b).

(* the most derived of the bases' classes; None = metaclass conflict *)
Definition winner (lines : list (list nat)) : option (list nat) :=
  find (fun w => forallb (fun x => derives_from w x) lines) lines.

(* the line of the class of node [i], given the lines of the earlier nodes (None = its creation failed) *)
Definition node_line (acc : list (option (list nat))) (i : nat) (nd : node) : option (list nat) :=
  let blines := match n_bases nd with
                | [] => [Some []]                        (* Interface: InterfaceClass *)
                | bs => map (fun b => nth b acc None) bs
                end in
  if forallb is_some blines then
    let ls := flat_map (fun x => match x with Some l => [l] | None => [] end) blines in
    match n_how nd with
    | HCallIC => Some []
    | HCallType => Some (hd [] ls)
    | HClass =>
        match winner ls with
        | None => None
        | Some w => Some (if node_has_methods nd then i :: w else w)
        end
    end
  else None.

Fixpoint dag_lines (acc : list (option (list nat))) (nodes : list node) : list (option (list nat)) :=
  match nodes with
  | [] => acc
  | nd :: t => dag_lines (acc ++ [node_line acc (length acc) nd]) t
  end.

(* creating the last interface of the DAG fails (metaclass conflict somewhere on the way) *)
Definition dag_conflict (nodes : list node) : bool :=
  match last (dag_lines [] nodes) None with Some _ => false | None => true end.

(* The DAG seen from its last interface, as an equivalent single-inheritance chain with the same
   level numbers: the nodes on the line of its class keep their definitions, every other node
   becomes an empty level (`class I_k(I_{k-1}): pass`, which creates no class). *)
Definition dag_line (nodes : list node) : list lvl :=
  match last (dag_lines [] nodes) None with
  | Some l =>
      map (fun p => if mem_nat (fst p) l
                    then mkLvl (n_adapt (snd p)) (n_prov (snd p)) (n_other (snd p)) false
                    else mkLvl None None false false)
          (combine (seq 0 (length nodes)) nodes)
  | None => []
  end.

(* ------------------------------------------------------------------ decidable equalities (for the tie) *)

Definition ekind_eqb (a b : ekind) : bool :=
  match a, b with EAttr, EAttr | EType, EType | EOther, EOther => true | _, _ => false end.

Definition exn_eqb (a b : exn) : bool :=
  ekind_eqb (e_kind a) (e_kind b) && Nat.eqb (e_tag a) (e_tag b).

Definition raised_eqb (a b : raised) : bool :=
  match a, b with
  | User x, User y => exn_eqb x y
  | InterpAttr, InterpAttr | InterpTE0, InterpTE0 => true
  | _, _ => false
  end.

Definition ev_eqb (a b : ev) : bool :=
  match a, b with
  | EvGetConform, EvGetConform | EvCallConform, EvCallConform | EvProvided, EvProvided => true
  | EvHook i, EvHook j => Nat.eqb i j
  | EvCustom i, EvCustom j => Nat.eqb i j
  | EvCustomProv i, EvCustomProv j => Nat.eqb i j
  | _, _ => false
  end.

Definition outcome_eqb (a b : outcome) : bool :=
  match a, b with
  | Return v, Return w => Nat.eqb v w
  | ReturnObj, ReturnObj | ReturnAlt, ReturnAlt | RaiseCouldNotAdapt, RaiseCouldNotAdapt => true
  | RaiseE x, RaiseE y => raised_eqb x y
  | _, _ => false
  end.

Definition value_eqb (a b : value) : bool :=
  match a, b with
  | VObj, VObj => true
  | VVal v, VVal w => Nat.eqb v w
  | _, _ => false
  end.

Definition ares_eqb (a b : res (option value)) : bool :=
  match a, b with
  | Ok None, Ok None => true
  | Ok (Some x), Ok (Some y) => value_eqb x y
  | Raise x, Raise y => raised_eqb x y
  | _, _ => false
  end.
