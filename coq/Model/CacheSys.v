(* Registry systems over a DYNAMIC specification world (property C05).

   Model/RegSys.v runs a history of registry operations in a static world W.  Here the state also
   carries the specification graph; the world handed to RegSys.step is recomputed from the
   current graph, and one more operation re-bases a specification:

     interface.py  Specification.__setBases   (unsubscribe from old bases, subscribe to the new
                                               ones, self.changed(self))
                   Specification.changed      (recompute __sro__/__iro__, then call
                                               dependent.changed(originally_changed) for every
                                               dependent: sub-specifications AND lookup objects)
     adapter.py    AdapterLookupBase._subscribe  (the lookup object becomes a dependent of every
                                               required spec it computed an answer for; they are
                                               remembered in _required = Lookup.c_required)
                   AdapterLookupBase.changed  (clear the three caches, unsubscribe from all)
                   VerifyingAdapterLookup.changed (refresh ro, clear, snapshot generations)

   So re-basing x reaches a lookup object iff the object subscribed to x or to a specification
   that has x among its ancestors.  The registry's generation is NOT bumped (only the lookup
   object's changed() runs): RegSys.lookup_changed without RegSys.bump.

   Class and instance declarations: classImplements / classImplementsOnly /
   classImplementsFirst end in ``spec.__bases__ = ...`` on implementedBy(cls), i.e. they are a
   re-basing of the class-specification node.  directlyProvides / alsoProvides /
   noLongerProvides give the object a different ``__provides__`` specification: the next query
   names another [o_provides] (a node of the graph), nothing else changes.

   The orders used by lookups are Ro.fresh_sro of the current graph (the cached __sro__ equal
   them: that is property C02; here it is validated by the fidelity run of the tie).
   Specifications created behind the scenes during a history (new Provides objects) are nodes of
   the initial graph that nothing mentions before their creation.
   Executable definitions only. *)
From Coq Require Import List Arith Bool.
Import ListNotations.
From ZI Require Import Model.Ro Model.Adapter Model.Lookup Model.RegSys.

Record cstate := mkCS {
  cs_g : graph;           (* spec i has bases (bases cs_g i) *)
  cs_if : list bool;      (* spec i is an interface *)
  cs_sys : sys
}.

(* the world of a graph: every spec's resolution order, computed bottom-up *)
Definition sro_of (g : graph) (x : spec) : list spec :=
  if Nat.ltb x (length g) then fresh_sro (S (length g)) 0 g x else [].

Definition world_of (g : graph) (ifs : list bool) : world :=
  let n := length g in
  let tbl := map (fun x => fresh_sro (S n) 0 g x) (seq 0 n) in
  mkW (fun x => nth x tbl []) (fun x => nth x ifs false).

(* ``x.__bases__ = bs`` on the graph *)
Definition set_spec_bases (g : graph) (x : spec) (bs : list spec) : graph :=
  map (fun e => if Nat.eqb (fst e) x then (x, bs) else e) g.

(* y is x or has x among its ancestors, looking [fuel] levels up *)
Fixpoint reachb (fuel : nat) (g : graph) (y x : node) : bool :=
  Nat.eqb y x ||
  match fuel with
  | 0 => false
  | S f => existsb (fun b => reachb f g b x) (bases g y)
  end.

(* the lookup object subscribed to x or to a descendant of x *)
Definition touched (g : graph) (x : spec) (c : caches) : bool :=
  existsb (fun y => reachb (length g) g y x) (c_required c).

(* Specification.changed reaching the lookup objects *)
Definition spec_changed (g : graph) (x : spec) (s : sys) : sys :=
  fold_left (fun acc r => if touched g x (rs_caches (get s r)) then lookup_changed false acc r else acc)
            (seq 0 (length s)) s.

Inductive cop :=
| CReg (o : rop)                                  (* any operation of Model/RegSys.v *)
| CSetSpecBases (x : spec) (bs : list spec).      (* x.__bases__ = bs (interface or declaration) *)

Section CRun.
  Variable call : value -> list nat -> option nat.

  Definition cstep (st : cstate) (o : cop) : cstate * list nat :=
    match o with
    | CReg o' =>
        let '(s', a) := step (world_of (cs_g st) (cs_if st)) call (cs_sys st) o' in
        (mkCS (cs_g st) (cs_if st) s', a)
    | CSetSpecBases x bs =>
        (mkCS (set_spec_bases (cs_g st) x bs) (cs_if st) (spec_changed (cs_g st) x (cs_sys st)), [])
    end.

  Fixpoint crun (st : cstate) (ops : list cop) : list (list nat) :=
    match ops with
    | [] => []
    | o :: ops' => let '(st', a) := cstep st o in a :: crun st' ops'
    end.

  Definition cfinal (st : cstate) (ops : list cop) : cstate :=
    fold_left (fun st o => fst (cstep st o)) ops st.
End CRun.

(* ---- classification of operations *)
Definition is_mutation (o : rop) : bool :=
  match o with
  | ONewReg _ _ | OSetRegBases _ _ | ORegister _ _ _ _ _ | OUnregister _ _ _ _ _
  | OSubscribe _ _ _ _ | OUnsubscribe _ _ _ _ | ORebuild _ => true
  | _ => false
  end.

(* the lookup family: the entry points that go through the caches *)
Definition is_lookup (o : rop) : bool :=
  match o with
  | QLookup _ _ _ _ | QLookup1 _ _ _ _ | QLookupAll _ _ _ | QNames _ _ _ | QSubscriptions _ _ _
  | QQueryAdapter _ _ _ _ | QAdapterHook _ _ _ _ | QQueryMultiAdapter _ _ _ _ | QSubscribers _ _ _ => true
  | _ => false
  end.

Definition cis_mutation (o : cop) : bool :=
  match o with CReg o' => is_mutation o' | CSetSpecBases _ _ => true end.

(* the history with every query removed: what a registry that performed no earlier lookups saw *)
Definition erase_lookups (h : list cop) : list cop := filter cis_mutation h.

(* every registry forgets what it cached (and what it subscribed to) *)
Definition drop_caches (s : sys) : sys := map (fun x => set_caches x empty_caches) s.

(* ---- well-formed operations (what the real code supports without raising / looping):
   registries are named after their creation, bases come earlier in creation order (so the
   registry graph is acyclic), no base is listed twice, and an invalidating (Push) registry has
   only invalidating bases ("An invalidating registry can only have invalidating registries as
   bases", adapter.py; a verifying base has no _addSubregistry). *)
Definition bases_ok (s : sys) (fl : flavour) (bound : nat) (bs : list nat) : bool :=
  nodup_b bs &&
  forallb (fun b => Nat.ltb b bound &&
                    match fl with
                    | Push => match rs_flavour (get s b) with Push => true | Verifying => false end
                    | Verifying => true
                    end) bs.

Definition reg_of (o : rop) : option nat :=
  match o with
  | ONewReg _ _ => None
  | OSetRegBases r _ | ORegister r _ _ _ _ | OUnregister r _ _ _ _ | OSubscribe r _ _ _
  | OUnsubscribe r _ _ _ | ORebuild r | QLookup r _ _ _ | QLookup1 r _ _ _ | QLookupAll r _ _
  | QNames r _ _ | QSubscriptions r _ _ | QRegistered r _ _ _ | QSubscribed r _ _ _
  | QAllRegistrations r | QAllSubscriptions r | QQueryAdapter r _ _ _ | QAdapterHook r _ _ _
  | QQueryMultiAdapter r _ _ _ | QSubscribers r _ _ => Some r
  end.

Definition wf_rop (s : sys) (o : rop) : bool :=
  match reg_of o with Some r => Nat.ltb r (length s) | None => true end &&
  match o with
  | ONewReg fl bs => bases_ok s fl (length s) bs
  | OSetRegBases r bs => bases_ok s (rs_flavour (get s r)) r bs
  | _ => true
  end.

Definition wf_cop (st : cstate) (o : cop) : bool :=
  match o with CReg o' => wf_rop (cs_sys st) o' | CSetSpecBases _ _ => true end.

Section WfRun.
  Variable call : value -> list nat -> option nat.
  Fixpoint wf_run (st : cstate) (ops : list cop) : bool :=
    match ops with
    | [] => true
    | o :: ops' => wf_cop st o && wf_run (fst (cstep call st o)) ops'
    end.
End WfRun.
