(* Registry systems over a DYNAMIC specification world (property C05).

   Model/RegSys.v runs a history of registry operations in a static world W.  Here the state also
   carries the specification graph; the world handed to RegSys.step is recomputed from the
   current graph, and one more operation re-bases a specification:

     interface.py  Specification.__setBases   (unsubscribe from old bases, subscribe to the new
                                               ones, self.changed(self))
                   Specification.changed      (recompute __sro__/__iro__, then call
                                               dependent.changed(originally_changed) for every
                                               dependent: sub-specifications AND lookup objects)
     adapter.py    AdapterLookupBase._subscribe  (the lookup object becomes a dependent of every
                                               required spec it computed an answer for; they are
                                               remembered in _required = Lookup.c_required)
                   AdapterLookupBase.changed  (clear the three caches, unsubscribe from all)
                   VerifyingAdapterLookup.changed (refresh ro, clear, snapshot generations)

   So re-basing x reaches a lookup object iff the object subscribed to x or to a specification
   that has x among its ancestors.  The registry's generation is NOT bumped (only the lookup
   object's changed() runs): RegSys.lookup_changed without RegSys.bump.

   Class and instance declarations: classImplements / classImplementsOnly /
   classImplementsFirst end in ``spec.__bases__ = ...`` on implementedBy(cls), i.e. they are a
   re-basing of the class-specification node.  directlyProvides / alsoProvides /
   noLongerProvides give the object a different ``__provides__`` specification: the next query
   names another [o_provides] (a node of the graph), nothing else changes.

   The orders used by lookups are Ro.fresh_sro of the current graph (the cached __sro__ equal
   them: that is property C02; here it is validated by the fidelity run of the tie).
   Specifications created behind the scenes during a history (new Provides objects) are nodes of
   the initial graph that nothing mentions before their creation.
   Executable definitions only. *)
From Coq Require Import List Arith Bool.
Import ListNotations.
From ZI Require Import Model.Ro Model.Adapter Model.Lookup Model.RegSys Spec.RegChain.

Record cstate := mkCS {
  cs_g : graph;           (* spec i has bases (bases cs_g i) *)
  cs_if : list bool;      (* spec i is an interface *)
  cs_sys : sys
}.

(* the world of a graph: every spec's resolution order, computed bottom-up *)
Definition sro_of (g : graph) (x : spec) : list spec :=
  if Nat.ltb x (length g) then fresh_sro (S (length g)) 0 g x else [].

Definition world_of (g : graph) (ifs : list bool) : world :=
  let n := length g in
  let tbl := map (fun x => fresh_sro (S n) 0 g x) (seq 0 n) in
  mkW (fun x => nth x tbl []) (fun x => nth x ifs false).

(* ``x.__bases__ = bs`` on the graph *)
Definition set_spec_bases (g : graph) (x : spec) (bs : list spec) : graph :=
  map (fun e => if Nat.eqb (fst e) x then (x, bs) else e) g.

(* y is x or has x among its ancestors, looking [fuel] levels up *)
Fixpoint reachb (fuel : nat) (g : graph) (y x : node) : bool :=
  Nat.eqb y x ||
  match fuel with
  | 0 => false
  | S f => existsb (fun b => reachb f g b x) (bases g y)
  end.

(* the lookup object subscribed to x or to a descendant of x *)
Definition touched (g : graph) (x : spec) (c : caches) : bool :=
  existsb (fun y => reachb (length g) g y x) (c_required c).

(* Specification.changed reaching the lookup objects *)
Definition spec_changed (g : graph) (x : spec) (s : sys) : sys :=
  fold_left (fun acc r => if touched g x (rs_caches (get s r)) then lookup_changed false acc r else acc)
            (seq 0 (length s)) s.

Inductive cop :=
| CReg (o : rop)                                  (* any operation of Model/RegSys.v *)
| CSetSpecBases (x : spec) (bs : list spec).      (* x.__bases__ = bs (interface or declaration) *)

Section CRun.
  Variable call : value -> list nat -> option nat.

  Definition cstep (st : cstate) (o : cop) : cstate * list nat :=
    match o with
    | CReg o' =>
        let '(s', a) := step (world_of (cs_g st) (cs_if st)) call (cs_sys st) o' in
        (mkCS (cs_g st) (cs_if st) s', a)
    | CSetSpecBases x bs =>
        (mkCS (set_spec_bases (cs_g st) x bs) (cs_if st) (spec_changed (cs_g st) x (cs_sys st)), [])
    end.

  Fixpoint crun (st : cstate) (ops : list cop) : list (list nat) :=
    match ops with
    | [] => []
    | o :: ops' => let '(st', a) := cstep st o in a :: crun st' ops'
    end.

  Definition cfinal (st : cstate) (ops : list cop) : cstate :=
    fold_left (fun st o => fst (cstep st o)) ops st.

  (* the same run, computing the world only when the graph changes (used by the tie for speed;
     Proofs/CacheSys.v crun_fast_eq: it equals crun) *)
  Fixpoint crun_w (W : world) (st : cstate) (ops : list cop) : list (list nat) :=
    match ops with
    | [] => []
    | CReg o' :: ops' =>
        let '(s', a) := step W call (cs_sys st) o' in
        a :: crun_w W (mkCS (cs_g st) (cs_if st) s') ops'
    | CSetSpecBases x bs :: ops' =>
        let g' := set_spec_bases (cs_g st) x bs in
        [] :: crun_w (world_of g' (cs_if st)) (mkCS g' (cs_if st) (spec_changed (cs_g st) x (cs_sys st))) ops'
    end.

  Definition crun_fast (st : cstate) (ops : list cop) : list (list nat) :=
    crun_w (world_of (cs_g st) (cs_if st)) st ops.
End CRun.

(* ---- classification of operations *)
Definition is_mutation (o : rop) : bool :=
  match o with
  | ONewReg _ _ | OSetRegBases _ _ | ORegister _ _ _ _ _ | OUnregister _ _ _ _ _
  | OSubscribe _ _ _ _ | OUnsubscribe _ _ _ _ | ORebuild _ => true
  | _ => false
  end.

(* the lookup family: the entry points that go through the caches *)
Definition is_lookup (o : rop) : bool :=
  match o with
  | QLookup _ _ _ _ | QLookup1 _ _ _ _ | QLookupAll _ _ _ | QNames _ _ _ | QSubscriptions _ _ _
  | QQueryAdapter _ _ _ _ | QAdapterHook _ _ _ _ | QQueryMultiAdapter _ _ _ _ | QSubscribers _ _ _ => true
  | _ => false
  end.

Definition cis_mutation (o : cop) : bool :=
  match o with CReg o' => is_mutation o' | CSetSpecBases _ _ => true end.

(* the history with every query removed: what a registry that performed no earlier lookups saw *)
Definition erase_lookups (h : list cop) : list cop := filter cis_mutation h.

(* every registry forgets what it cached (and what it subscribed to) *)
Definition drop_caches (s : sys) : sys := map (fun x => set_caches x empty_caches) s.

(* what a lookup-family operation answers when nothing is cached: the entry point run on empty
   caches over the registries [ch r] *)
Definition pure_answer (W : world) (call : value -> list nat -> option nat) (ch : nat -> list reg)
           (q : rop) : list nat :=
  match q with
  | QLookup r req p n => enc_res_value (snd (lookup (uncached_lookup W (ch r)) empty_caches req p n))
  | QLookup1 r req p n => enc_res_value (snd (lookup1 (uncached_lookup W (ch r)) empty_caches req p n))
  | QLookupAll r req p => enc_pairs (snd (lookupAll (uncached_lookupAll W (ch r)) empty_caches req p))
  | QNames r req p => enc_names (snd (names (uncached_lookupAll W (ch r)) empty_caches req p))
  | QSubscriptions r req p => map vid (snd (subscriptions (uncached_subscriptions W (ch r)) empty_caches req p))
  | QQueryAdapter r o p n | QAdapterHook r o p n =>
      enc_res_nat (snd (adapter_hook (uncached_lookup W (ch r)) call empty_caches p o n))
  | QQueryMultiAdapter r os p n =>
      enc_res_nat (snd (queryMultiAdapter (uncached_lookup W (ch r)) call empty_caches os p n))
  | QSubscribers r os p =>
      let a := snd (subscribers (uncached_subscriptions W (ch r)) call empty_caches os p) in
      fst a ++ [999999] ++ map vid (snd a)
  | _ => []
  end.


(* ---- well-formed histories: those of Spec/RegChain.v (one flavour [fl]; registries are named
   after their creation; bases come earlier in creation order, so the registry graph is acyclic;
   rebuild() is admitted since the repaired __init__ keeps the sub-registries of a push registry);
   re-basing a specification is always allowed (keeping the specification graph acyclic is the
   caller's business: the real code recurses without bound on a cycle, the model just runs out of
   fuel, and the theorems do not need it). *)
Definition cwf_op (fl : flavour) (n : nat) (o : cop) : bool :=
  match o with CReg o' => wf_op fl n o' | CSetSpecBases _ _ => true end.

Definition cn_after (n : nat) (o : cop) : nat :=
  match o with CReg o' => n_after n o' | CSetSpecBases _ _ => n end.

Fixpoint cwf_hist (fl : flavour) (n : nat) (ops : list cop) : bool :=
  match ops with
  | [] => true
  | o :: ops' => cwf_op fl n o && cwf_hist fl (cn_after n o) ops'
  end.

(* ---- well-formed MIXED histories (Spec/RegChain.mwf_op): [fls] lists the flavours of the
   existing registries; an invalidating registry has invalidating bases only, a verifying
   registry may have bases of either flavour (the persistent site manager over the global
   registry); rebuild() admitted.  [cwf_hist fl 0] is the homogeneous special case. *)
Definition cmwf_op (fls : list flavour) (o : cop) : bool :=
  match o with CReg o' => mwf_op fls o' | CSetSpecBases _ _ => true end.

Definition cfls_after (fls : list flavour) (o : cop) : list flavour :=
  match o with CReg o' => fls_after fls o' | CSetSpecBases _ _ => fls end.

Fixpoint cmwf_hist (fls : list flavour) (ops : list cop) : bool :=
  match ops with
  | [] => true
  | o :: ops' => cmwf_op fls o && cmwf_hist (cfls_after fls o) ops'
  end.
