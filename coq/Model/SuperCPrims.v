(* Vocabulary of the data-level kernel that harness/translate/super_c.py extracts from
   _zope_interface_coptimizations.c into coq/Gen/SuperC.v: the holes of the matched C templates as
   records of strings, and what a C function with those holes does, over Model/Super.v and
   Model/Lookup.v.  Anything other than the expected identifier in a hole makes the interpreter give
   an answer that is wrong on purpose (so the equality theorems of Proofs/SuperC.v fail).
   Hand-written; executable definitions only. *)
From Coq Require Import List Arith Bool String.
Import ListNotations.
From ZI Require Import Model.Ro Model.Adapter Model.Lookup Model.Super Model.SuperPrims.
Local Open Scope string_scope.

(* if (<test>(<cb_test_arg>, &<cb_test_type>)) return <cb_callee>(module, <cb_pass_arg>); placed before
   anything else touches the argument *)
Record c_branch := mkCB { cb_test_arg : string; cb_test_type : string; cb_callee : string; cb_pass_arg : string }.

(* implementedByFallback: return PyObject_CallFunctionObjArgs(fallback, <cf_pass_arg>, NULL) where
   fallback = getattr(declarations, <cf_name>) *)
Record c_fallback := mkCF { cf_name : string; cf_pass_arg : string }.

(* _adapter_hook: see the template in super_c.py *)
Record c_hook := mkCH {
  ch_prov_fn : string; ch_prov_arg : string;        (* required = <fn>(module, <arg>) *)
  ch_lookup_fn : string;                            (* factory = <fn>(self, required, provided, name, Py_None) *)
  ch_test_arg : string; ch_test_type : string;      (* if (PyObject_TypeCheck(<arg>, &<type>)) *)
  ch_attr_of : string; ch_attr : string;            (* owned_self = getattr(<of>, <attr>) *)
  ch_assigned : string;                             (* <var> = owned_self *)
  ch_call_arg : string                              (* result = factory(<arg>) *)
}.

(* every proxy is an instance of PySuper_Type, bound or not *)
Definition is_pysuper (a : arg) : bool := match a with AObj _ => false | _ => true end.

(* the C implementedBy after its super branch, on the arguments of this model *)
Definition c_implementedBy_rest (E : env) (st : state) (a : arg) : state * option sref := (st, None).
(* the C providedBy after its super branch *)
Definition c_providedBy_rest (E : env) (st : state) (a : arg) : state * option sref :=
  match a with AObj j => (st, Some (provided_by_instance E j)) | _ => (st, None) end.

Definition wrong : state -> state * option sref := fun st => (st, Some (RProv 999)).

(* the Python function reached through ``fallback`` *)
Definition interp_c_fallback (f : c_fallback) (E : env) (st : state) (a : arg) : state * option sref :=
  if (cf_name f =? "implementedByFallback") && (cf_pass_arg f =? "cls") then py_implementedBy E st a
  else wrong st.

Definition interp_c_implementedBy (b : c_branch) (f : c_fallback) (E : env) (st : state) (a : arg)
  : state * option sref :=
  if (cb_test_arg b =? "cls") && (cb_pass_arg b =? "cls") then
    if (cb_test_type b =? "PySuper_Type") && is_pysuper a then
      (if cb_callee b =? "implementedByFallback" then interp_c_fallback f E st a else wrong st)
    else c_implementedBy_rest E st a
  else wrong st.

Definition interp_c_providedBy (b : c_branch) (bi : c_branch) (f : c_fallback) (E : env) (st : state) (a : arg)
  : state * option sref :=
  if (cb_test_arg b =? "ob") && (cb_pass_arg b =? "ob") then
    if (cb_test_type b =? "PySuper_Type") && is_pysuper a then
      (if cb_callee b =? "implementedBy" then interp_c_implementedBy bi f E st a else wrong st)
    else c_providedBy_rest E st a
  else wrong st.

(* the identity the factory receives *)
Definition wrong_ident : nat := 999.
Definition hook_arg (h : c_hook) (o : obj) : nat :=
  if (ch_test_arg h =? "object") && (ch_test_type h =? "PySuper_Type") && is_super_obj o then
    (* owned_self = getattr(object, attr); <assigned> = owned_self; factory(<call_arg>) *)
    if (ch_attr_of h =? "object") && (ch_attr h =? "__self__")
       && (ch_assigned h =? "object") && (ch_call_arg h =? "object")
    then o_id (obj_self o) else wrong_ident
  else if ch_call_arg h =? "object" then o_id o else wrong_ident.

Definition interp_c_hook (h : c_hook) (ul : list spec -> spec -> name -> option value)
           (fcall : value -> list nat -> option nat) (c : caches) (p : spec) (o : obj) (n : name_arg)
  : caches * res nat :=
  match n with
  | NotAString => (c, RValueError)                       (* !PyUnicode_Check(name) -> ValueError *)
  | NStr _ =>
      if (ch_prov_fn h =? "providedBy") && (ch_prov_arg h =? "object") && (ch_lookup_fn h =? "_lookup1") then
        let '(c', r) := lookup1 ul c (o_provides o) p n in
        match res_opt r with
        | Some f => match fcall f [hook_arg h o] with
                    | Some x => (c', RVal x)             (* result != Py_None *)
                    | None => (c', RDefault)
                    end
        | None => (c', RDefault)                          (* factory == Py_None *)
        end
      else (c, RValueError)
  end.
