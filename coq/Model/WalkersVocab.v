(* Vocabulary of the generated walkers kernel (coq/Gen/WalkersKernel.v, regenerated from
   src/zope/interface/adapter.py by harness/translate/walkers.py).  The meaning of each Python
   construct the translator accepts is fixed HERE, once, independently of the source text:

     d.get(k)                    tget d k : option (trie P)      (None when the key is absent)
     ``if comps:``               otruthy pt comps                None is falsy, {} is falsy, a non-empty
                                                                 dictionary is truthy, a payload p is
                                                                 truthy iff pt p
     comps used as a dictionary  odict comps                     (after the truthiness test)
     extendors = d.get(provided) aget Nat.eqb ... : option (list spec)
     ``if not extendors``        negb (lotruthy extendors)       None and [] are falsy
     extendors used as a list    olist extendors
     byorder[order] under try/except IndexError
                                 nth_error byorder order
     result.update(comps)        dict_update result (odict comps)     (Model/Trie.v)
     result.extend(comps)        result ++ otuple comps
     comps.get(name) as a value  leaf_value (tget (odict comps) name)
   Executable definitions only. *)
From Coq Require Import List Arith Bool.
Import ListNotations.
From ZI Require Import Model.Ro Model.Adapter Model.Trie.

(* truthiness of payloads: registered values are only ever compared with ``is not None``;
   subscription leaves are tuples *)
Definition vtruthy (_ : value) : bool := true.
Definition tnonempty (l : list value) : bool := match l with [] => false | _ => true end.

Definition otruthy {P : Type} (pt : P -> bool) (o : option (trie P)) : bool :=
  match o with
  | None => false
  | Some (Leaf p) => pt p
  | Some (Node []) => false
  | Some (Node _) => true
  end.

Definition odict {P : Type} (o : option (trie P)) : trie P :=
  match o with Some t => t | None => Node [] end.

Definition otuple (o : option (trie (list value))) : list value :=
  match o with Some (Leaf l) => l | _ => [] end.

Definition lotruthy (o : option (list spec)) : bool :=
  match o with Some (_ :: _) => true | _ => false end.

Definition olist (o : option (list spec)) : list spec :=
  match o with Some l => l | None => [] end.
