(* Atomicity of cached lookups against mutators (property C11, the "answer" half).

   LookupBase.lookup / lookupAll / subscriptions (adapter.py; C twins _lookup / _lookupAll /
   _subscriptions) all have the same shape:
       cache = <the dictionary reachable from the owner slot>      (1) take a handle
       result = cache.get(key)  -> return on a hit
       result = self._uncached_xxx(...)                            (2) compute: reads the registry
       cache[key] = result                                         (3) store THROUGH THE HANDLE
   and every mutator of the registry is  write ; (extendor update) ; changed()  with changed() last
   (adapter.py register / unregister / subscribe / unsubscribe / __bases__ setter / rebuild).
   changed() does not empty the dictionary a running lookup holds a handle to: it makes the owner
   slot point to a NEW empty dictionary (C: Py_CLEAR + a fresh PyDict_New on the next use; Python:
   the outer dict is cleared, which detaches the per-provided dictionaries the handles point to).
   With Model/Lookup.v's [caches]: the new dictionary is [c_cache (cache_changed c)] = [].

   The model: any number of threads, each doing lookups in three separately scheduled steps, against
   any number of mutator steps, in any interleaving (a schedule is a list of [gstep]).  Dictionaries
   are numbered (handles); the owner slot holds a handle; detached dictionaries keep existing.
   Ghost state (does not influence the run): [g_since] = the registry states that existed since
   (and including) the moment of the last changed(); every in-flight lookup's [win] = [g_since] when
   it started plus every state created while it runs.  So "r in win" reads: r is a state the
   registry was in between the last mutation completed before the lookup started and the end of the
   lookup, i.e. the state before or after some mutation overlapping the lookup.

   Abstractions (stated in the evidence): the uncached computation reads ONE registry state (its
   linearisation point); the nested dictionaries of one cache are one handle.  For the Python walkers
   (_lookup / _lookupAll / _subscriptions, which iterate ``_extendors[provided]`` while key __hash__ /
   __eq__ or other threads may run) this needs the list handed to a running walker to be an immutable
   snapshot: add_extendor / remove_extendor must ASSIGN a new list, never mutate the old one in place.
   That is not part of this model; it is a fail-closed shape check of adapter.py on every run
   (harness/props/c11.py extendors_are_snapshots) plus a deterministic scenario in both implementations
   (a key's __hash__ mutating the registry inside a walker: the answer must be the one before or after).
   Executable definitions only; proofs in Proofs/Race.v. *)
From Coq Require Import List Arith Bool.
Import ListNotations.
From ZI Require Import Model.Adapter.

Section Race.
  Variables R K A : Type.
  Variable keqb : K -> K -> bool.
  Variable answer : R -> K -> A.          (* the uncached answer in a registry state *)

  Definition dict := list (K * A).
  Definition tid := nat.

  Inductive tstate :=
  | TIdle
  | TLooking (h : nat) (q : K) (win : list R)              (* has the handle, not yet computed *)
  | TComputed (h : nat) (q : K) (a : A) (win : list R).    (* computed, not yet stored *)

  (* a finished lookup: query, answer returned, ghost window *)
  Record result := mkRes { r_tid : tid; r_q : K; r_a : A; r_win : list R }.

  Record gst := mkGst {
    g_cur : R;                        (* the registry now *)
    g_since : list R;                 (* ghost: states since the last changed(), newest first *)
    g_owner : nat;                    (* the dictionary reachable from the owner slot *)
    g_dicts : list (nat * dict);      (* every dictionary, detached ones included *)
    g_next : nat;                     (* next fresh handle *)
    g_thr : list (tid * tstate);
    g_log : list result
  }.

  Definition dict_of (g : gst) (h : nat) : dict :=
    match aget Nat.eqb (g_dicts g) h with Some d => d | None => [] end.
  Definition thr_of (g : gst) (t : tid) : tstate :=
    match aget Nat.eqb (g_thr g) t with Some x => x | None => TIdle end.

  Inductive gstep :=
  | GStart (t : tid) (q : K)      (* thread t calls lookup(q): takes the handle, returns on a hit *)
  | GCompute (t : tid)            (* its uncached computation reads the registry *)
  | GStore (t : tid)              (* it stores through its handle and returns *)
  | GWrite (f : R -> R)           (* a mutator writes (registration, extendor update, re-basing) *)
  | GChanged.                     (* a mutator calls changed() *)

  Definition is_mutation (x : gstep) : bool :=
    match x with GWrite _ | GChanged => true | _ => false end.

  Definition set_thr (g : gst) (t : tid) (x : tstate) : gst :=
    mkGst (g_cur g) (g_since g) (g_owner g) (g_dicts g) (g_next g) (aset Nat.eqb (g_thr g) t x) (g_log g).

  Definition add_win (r : R) (x : tstate) : tstate :=
    match x with
    | TIdle => TIdle
    | TLooking h q w => TLooking h q (r :: w)
    | TComputed h q a w => TComputed h q a (r :: w)
    end.

  Definition gstep_run (g : gst) (x : gstep) : gst :=
    match x with
    | GStart t q =>
        match thr_of g t with
        | TIdle =>
            let h := g_owner g in
            match aget keqb (dict_of g h) q with
            | Some a => mkGst (g_cur g) (g_since g) (g_owner g) (g_dicts g) (g_next g) (g_thr g)
                              (mkRes t q a (g_since g) :: g_log g)
            | None => set_thr g t (TLooking h q (g_since g))
            end
        | _ => g
        end
    | GCompute t =>
        match thr_of g t with
        | TLooking h q w => set_thr g t (TComputed h q (answer (g_cur g) q) w)
        | _ => g
        end
    | GStore t =>
        match thr_of g t with
        | TComputed h q a w =>
            mkGst (g_cur g) (g_since g) (g_owner g)
                  (aset Nat.eqb (g_dicts g) h (aset keqb (dict_of g h) q a))
                  (g_next g) (aset Nat.eqb (g_thr g) t TIdle) (mkRes t q a w :: g_log g)
        | _ => g
        end
    | GWrite f =>
        let r := f (g_cur g) in
        mkGst r (r :: g_since g) (g_owner g) (g_dicts g) (g_next g)
              (map (fun p => (fst p, add_win r (snd p))) (g_thr g)) (g_log g)
    | GChanged =>
        mkGst (g_cur g) [g_cur g] (g_next g) (aset Nat.eqb (g_dicts g) (g_next g) [])
              (S (g_next g)) (g_thr g) (g_log g)
    end.

  Definition grun (g : gst) (xs : list gstep) : gst := fold_left gstep_run xs g.

  (* a start state: a registry, an empty cache, nobody running *)
  Definition g_init (r : R) : gst := mkGst r [r] 0 [(0, [])] 1 [] [].
End Race.
