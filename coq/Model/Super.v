(* C19 model: what providedBy / implementedBy answer for ``super(C, ob)`` and how registry
   adaptation treats such a proxy.

   Mirrors src/zope/interface/declarations.py
     _next_super_class                  -> [next_super_class]
     _implementedBy_super               -> [implementedBy_super]  (the per-type(ob) _super_cache,
                                           keyed by __thisclass__; a synthesized Implements whose
                                           bases are implementedBy(c) for the classes from the next
                                           one on in the MRO; inherit/declared copied from the next
                                           class's spec)
     Implements.changed                 -> [drop_cache] inside [notify]
     Specification.changed (interface.py), the walk over the dependents
                                        -> [notified] / [notify]
     implementedBy / providedBy, the ``super`` branches (Python functions; the C twins
       ``implementedBy`` / ``providedBy`` in _zope_interface_coptimizations.c test PySuper_Type
       and end in the same Python fallback)
                                        -> [py_implementedBy] [c_implementedBy] [py_providedBy]
                                           [c_providedBy]
     classImplements / classImplementsOnly / classImplementsFirst / _classImplements_ordered
                                        -> [class_implements] [class_implements_only]
                                           [class_implements_first] [ordered]
   and, from adapter.py, LookupBase.adapter_hook / queryAdapter and
   AdapterLookupBase.queryMultiAdapter through Model/Lookup.v ([adapter_hook],
   [queryMultiAdapter], whose [unwrap] is the ``object.__self__`` step) -> [adapt].

   What is abstracted (stated in the trusted base of the check):
   * the CONTENT of a specification is its flattened set: [flat_cls] reads it off the current
     declarations (declared interfaces and what they extend, plus - when the class inherits -
     what the specifications of its __bases__ contain).  That the cached __sro__/_implied of
     the real objects always equal this recomputation is property C02 (change propagation);
     the synthesized super specification has the LIVE class specifications as bases, so its
     content is recomputed from them as well ([flat_synth]).  Order inside __iro__ is not
     modelled (observations are sets).
   * a class's specification object is created lazily by implementedBy(cls); creation has no
     effect on any other object, so every class has one from the start here (no declarations,
     inherit = the class).
   * the uncached registry lookup is read at set level ([lookup_flat]): the tie only registers
     adapters with pairwise different names, so at most one registration can apply to a query
     and the order of __sro__ cannot matter.  Ordered selection is Model/Adapter.v (C04).
   Classes are numbered, class 0 is ``object``; interfaces are numbered, interface 0 is
   ``zope.interface.Interface``.  Python's MRO is the C3 linearisation: [mro_of] is
   Model/Ro.v's strict resolver over the class graph (validated against __mro__ by the tie).

   Executable definitions only; no proofs in this file. *)
From Coq Require Import List Arith Bool.
Import ListNotations.
From ZI Require Import Model.Ro Model.Adapter Model.Lookup.

Definition cls := nat.
Definition iface := nat.
Definition iroot : iface := 0.
Definition cobject : cls := 0.

(* static part of a world: class graph (class -> __bases__), interface graph (interface ->
   __bases__ without the implicit Interface), instances (class, directly provided interfaces) *)
Record env := mkEnv { e_cg : graph; e_ig : graph; e_objs : list (cls * list iface) }.

(* ---- nat-keyed dictionaries (insertion ordered association lists) *)
Section NatMap.
  Context {V : Type}.
  Fixpoint nget (m : list (nat * V)) (k : nat) : option V :=
    match m with [] => None | (k', v) :: m' => if Nat.eqb k k' then Some v else nget m' k end.
  Fixpoint nset (m : list (nat * V)) (k : nat) (v : V) : list (nat * V) :=
    match m with
    | [] => [(k, v)]
    | (k', v') :: m' => if Nat.eqb k k' then (k', v) :: m' else (k', v') :: nset m' k v
    end.
  Definition ndel (m : list (nat * V)) (k : nat) : list (nat * V) :=
    filter (fun kv => negb (Nat.eqb k (fst kv))) m.
End NatMap.

(* ---- interfaces: an interface and everything it extends (Interface itself is implied
   everywhere and added by the users) *)
Fixpoint ianc_f (fuel : nat) (ig : graph) (j : iface) : list iface :=
  j :: match fuel with
       | 0 => []
       | S f => flat_map (ianc_f f ig) (bases ig j)
       end.
Definition ianc (E : env) (j : iface) : list iface := ianc_f (S (length (e_ig E))) (e_ig E) j.

(* a.isOrExtends(b) / a.extends(b) (strict) between interfaces *)
Definition i_isOrExtends (E : env) (a b : iface) : bool := Nat.eqb b iroot || mem b (ianc E a).
Definition i_extends (E : env) (a b : iface) : bool := i_isOrExtends E a b && negb (Nat.eqb a b).

(* ---- declarations of a class: Implements.declared and Implements.inherit (is not None) *)
(* [cd_specs]: other classes' specifications among the declared items
   (``classImplements(C, implementedBy(B))``); the relative order of the two lists is not modelled *)
Record cdecl := mkCD { cd_declared : list iface; cd_specs : list cls; cd_inherit : bool }.
Definition decls := list (cls * cdecl).

Definition decl_of (d : decls) (c : cls) : cdecl :=
  match nget d c with Some x => x | None => mkCD [] [] true end.
Definition declared (d : decls) (c : cls) : list iface := cd_declared (decl_of d c).
Definition dspecs (d : decls) (c : cls) : list cls := cd_specs (decl_of d c).
Definition inherit (d : decls) (c : cls) : bool := cd_inherit (decl_of d c).

(* flattened content of implementedBy(c):
     __bases__ = declared + (implementedBy(b) for b in c.__bases__ if inherit is not None)
   where a declared item is an interface or another class's specification *)
Fixpoint flat_cls (E : env) (fuel : nat) (d : decls) (c : cls) : list iface :=
  iroot :: flat_map (ianc E) (declared d c) ++
  match fuel with
  | 0 => []
  | S f => flat_map (flat_cls E f d) (dspecs d c) ++
           (if inherit d c then flat_map (flat_cls E f d) (bases (e_cg E) c) else [])
  end.
Definition cfuel (E : env) : nat := length (e_cg E).
Definition flat (E : env) (d : decls) (c : cls) : list iface := flat_cls E (cfuel E) d c.

(* the classes whose specifications are in the __sro__ of implementedBy(c) (c itself first) *)
Fixpoint contrib_f (E : env) (fuel : nat) (d : decls) (c : cls) : list cls :=
  c :: match fuel with
       | 0 => []
       | S f => flat_map (contrib_f E f d) (dspecs d c) ++
                (if inherit d c then flat_map (contrib_f E f d) (bases (e_cg E) c) else [])
       end.
Definition contrib (E : env) (d : decls) (c : cls) : list cls := contrib_f E (cfuel E) d c.

(* ---- the synthesized Implements of _implementedBy_super *)
Record synth := mkSynth {
  sy_bases : list cls;          (* __bases__ = implementedBy(c) for these classes *)
  sy_inherit : bool;            (* copy of implemented_by_next.inherit (is not None) *)
  sy_declared : list iface;     (* copy of implemented_by_next.declared: interfaces ... *)
  sy_dspecs : list cls          (* ... and class specifications *)
}.

(* one registration of the (single) registry of a world *)
Record registration := mkR { r_req : list iface; r_prov : iface; r_name : name; r_val : value }.

Record state := mkSt {
  st_decl : decls;
  st_synth : list synth;                         (* synthesized specs, by creation order *)
  st_cache : list (cls * list (cls * nat));      (* _super_cache of implementedBy(T), if any *)
  st_regs : list registration
}.

Definition init : state := mkSt [] [] [] [].

Definition flat_synth (E : env) (st : state) (s : nat) : list iface :=
  match nth_error (st_synth st) s with
  | Some y => iroot :: flat_map (flat E (st_decl st)) (sy_bases y)
  | None => []
  end.

(* ---- change notification.  Specification.changed of implementedBy(c) runs Implements.changed
   (``del self._super_cache``) and then the same on every dependent, depth first.  The
   dependents of implementedBy(c) that own a _super_cache are the specifications of the classes
   that list c in __bases__ and still inherit (an *only* class has dropped its class bases and
   unsubscribed) and of the classes that declared implementedBy(c) itself.  Synthesized super specifications are dependents too; their ``changed``
   finds no cache to delete and their content is recomputed ([flat_synth] reads live state). *)
Definition dependents (E : env) (d : decls) (c : cls) : list cls :=
  filter (fun x => (inherit d x && mem c (bases (e_cg E) x)) || mem c (dspecs d x)) (map fst (e_cg E)).

Fixpoint notified (E : env) (d : decls) (fuel : nat) (c : cls) : list cls :=
  c :: match fuel with
       | 0 => []
       | S f => flat_map (notified E d f) (dependents E d c)
       end.

Definition drop_cache (st : state) (c : cls) : state :=
  mkSt (st_decl st) (st_synth st) (ndel (st_cache st) c) (st_regs st).

Definition notify (E : env) (st : state) (c : cls) : state :=
  fold_left drop_cache (notified E (st_decl st) (cfuel E) c) st.

(* ---- _classImplements_ordered *)
Fixpoint dedupe (l : list nat) (seen : list nat) : list nat :=
  match l with
  | [] => []
  | x :: t => if mem x seen then dedupe t seen else x :: dedupe t (x :: seen)
  end.

Definition is_nil {A} (l : list A) : bool := match l with [] => true | _ => false end.

Definition set_decl (st : state) (c : cls) (x : cdecl) : state :=
  mkSt (nset (st_decl st) c x) (st_synth st) (st_cache st) (st_regs st).

(* "if not spec.isOrExtends(x) or (x is Interface and not spec.declared)" *)
Definition elide (E : env) (d : decls) (c : cls) (xs : list iface) : list iface :=
  filter (fun x => negb (mem x (flat E d c))
                   || (Nat.eqb x iroot && is_nil (declared d c) && is_nil (dspecs d c))) xs.

(* spec.declared = before + declared + after without duplicates; spec.__bases__ = ... (which
   runs ``changed``) *)
Definition ordered (E : env) (st : state) (c : cls) (before after : list iface) : state :=
  let d := st_decl st in
  let b := elide E d c before in
  let a := elide E d c after in
  notify E (set_decl st c (mkCD (dedupe (b ++ declared d c ++ a) []) (dspecs d c) (inherit d c))) c.

(* classImplements: an interface extending something already declared goes in front *)
Definition class_implements (E : env) (st : state) (c : cls) (ifs : list iface) : state :=
  let dc := declared (st_decl st) c in
  let front x := existsb (fun b => i_extends E x b) dc in
  ordered E st c (filter front ifs) (filter (fun x => negb (front x)) ifs).

(* classImplementsOnly: declared = (), inherit = None, __bases__ = () (changed), then ordered *)
Definition class_implements_only (E : env) (st : state) (c : cls) (ifs : list iface) : state :=
  ordered E (notify E (set_decl st c (mkCD [] [] false)) c) c ifs [].

Definition class_implements_first (E : env) (st : state) (c : cls) (i : iface) : state :=
  ordered E st c [i] [].

(* classImplements(c, implementedBy(b)): the specification of b becomes a declared item unless it
   already is in the __sro__ of implementedBy(c) ("if not spec.isOrExtends(x)"); __bases__ is
   assigned either way.  Only b created before c (and c a class of the world) is modelled: declaring
   the specification of a subclass makes the specification graph cyclic, on which the real code
   recurses without bound. *)
Definition class_implements_spec (E : env) (st : state) (c b : cls) : state :=
  let d := st_decl st in
  if Nat.ltb b c && Nat.ltb c (cfuel E) then
    let sp := if mem b (contrib E d c) then dspecs d c else dspecs d c ++ [b] in
    notify E (set_decl st c (mkCD (declared d c) sp (inherit d c))) c
  else st.

(* ---- MRO and _next_super_class *)
Definition mro_of (E : env) (T : cls) : option (list cls) :=
  match resolve true (S (cfuel E)) (e_cg E) T with
  | ROk m _ => Some m
  | _ => None
  end.

Fixpoint index_of (x : nat) (l : list nat) : option nat :=      (* tuple.index *)
  match l with
  | [] => None
  | y :: t => if Nat.eqb x y then Some 0 else option_map S (index_of x t)
  end.

(* complete_mro[complete_mro.index(class_that_invoked_super) + 1]; None = ValueError/IndexError *)
Definition next_super_class (mro : list cls) (C : cls) : option cls :=
  match index_of C mro with
  | Some i => nth_error mro (S i)
  | None => None
  end.

(* ---- _implementedBy_super(sup) with sup.__self_class__ = T, sup.__thisclass__ = C.
   Result: the number of the synthesized specification, None = an exception. *)
Definition cache_of (st : state) (T : cls) : list (cls * nat) :=
  match nget (st_cache st) T with Some c => c | None => [] end.

Definition implementedBy_super (E : env) (st : state) (T C : cls) : state * option nat :=
  let cache := cache_of st T in
  (* "if cache is None: cache = implemented_by_self._super_cache = WeakKeyDictionary()" *)
  let st0 := mkSt (st_decl st) (st_synth st) (nset (st_cache st) T cache) (st_regs st) in
  match nget cache C with
  | Some s => (st0, Some s)
  | None =>
      match mro_of E T with
      | None => (st0, None)                     (* no such class can exist *)
      | Some mro =>
          match next_super_class mro C with
          | None => (st0, None)
          | Some nxt =>
              match index_of nxt mro with
              | None => (st0, None)
              | Some ix =>
                  let keep := skipn ix mro in                    (* mro[ix_next_cls:] *)
                  let d := st_decl st in
                  let new := mkSynth keep (inherit d nxt) (declared d nxt) (dspecs d nxt) in
                  let s := length (st_synth st) in
                  (mkSt d (st_synth st ++ [new]) (nset (st_cache st) T (nset cache C s)) (st_regs st),
                   Some s)
              end
          end
      end
  end.

(* ---- arguments and results of providedBy / implementedBy *)
Inductive arg :=
| AObj (j : nat)                  (* the j-th instance *)
| ASuper (C : cls) (j : nat)      (* super(C, j-th instance) *)
| ASuperC (C : cls) (T : cls)     (* super(C, T), bound to the class T: __self_class__ = __self__ = T *)
| AUnbound (C : cls).             (* super(C): __self_class__ = __self__ = None *)

Inductive sref :=
| RSynth (s : nat)                (* a synthesized super specification *)
| RCls (c : cls)                  (* implementedBy(c) *)
| RProv (j : nat)                 (* the Provides of the j-th instance *)
| REmpty.                         (* the shared empty declaration ``_empty`` *)

Definition obj_cls (E : env) (j : nat) : cls := fst (nth j (e_objs E) (cobject, [])).
Definition obj_direct (E : env) (j : nat) : list iface := snd (nth j (e_objs E) (cobject, [])).

(* Python implementedBy: "if isinstance(cls, super): return _implementedBy_super(cls)";
   an instance is neither a class nor callable -> TypeError *)
Definition py_implementedBy (E : env) (st : state) (a : arg) : state * option sref :=
  match a with
  | ASuper C j => let '(st', r) := implementedBy_super E st (obj_cls E j) C in (st', option_map RSynth r)
  (* a class-bound proxy: sup.__self_class__ is the class itself, so the very same cache entry *)
  | ASuperC C T => let '(st', r) := implementedBy_super E st T C in (st', option_map RSynth r)
  (* an unbound proxy: implementedBy(None) is _empty, which has no _super_cache; the AttributeError
     is caught by implementedBy's own handler, whose fallback path answers _empty *)
  | AUnbound _ => (st, Some REmpty)
  | AObj _ => (st, None)
  end.

(* C implementedBy: "if (PyObject_TypeCheck(cls, &PySuper_Type)) return implementedByFallback(cls)" *)
Definition c_implementedBy (E : env) (st : state) (a : arg) : state * option sref :=
  match a with
  | AObj _ => (st, None)
  | _ => py_implementedBy E st a
  end.

(* an instance: its own __provides__ when it has direct declarations, else its class's spec *)
Definition provided_by_instance (E : env) (j : nat) : sref :=
  if is_nil (obj_direct E j) then RCls (obj_cls E j) else RProv j.

(* Python providedBy: "if isinstance(ob, super): return implementedBy(ob)" *)
Definition py_providedBy (E : env) (st : state) (a : arg) : state * option sref :=
  match a with
  | AObj j => (st, Some (provided_by_instance E j))
  | _ => py_implementedBy E st a
  end.

(* C providedBy: "is_instance = PyObject_IsInstance(ob, &PySuper_Type); if (is_instance)
   return implementedBy(module, ob)" *)
Definition c_providedBy (E : env) (st : state) (a : arg) : state * option sref :=
  match a with
  | AObj j => (st, Some (provided_by_instance E j))
  | _ => c_implementedBy E st a
  end.

Definition implementedBy (uc : bool) := if uc then c_implementedBy else py_implementedBy.
Definition providedBy (uc : bool) := if uc then c_providedBy else py_providedBy.

Definition flat_ref (E : env) (st : state) (r : sref) : list iface :=
  match r with
  | RSynth s => flat_synth E st s
  | RCls c => flat E (st_decl st) c
  | RProv j => iroot :: flat_map (ianc E) (obj_direct E j) ++ flat E (st_decl st) (obj_cls E j)
  | REmpty => [iroot]
  end.

(* ---- registry adaptation.  Specifications are numbers for Model/Lookup.v: *)
Definition code_of (r : sref) : spec :=
  match r with RSynth s => 4 * s | RCls c => 4 * c + 1 | RProv j => 4 * j + 2 | REmpty => 3 end.
Definition ref_of (n : spec) : sref :=
  match n mod 4 with 0 => RSynth (n / 4) | 1 => RCls (n / 4) | 2 => RProv (n / 4) | _ => REmpty end.

Fixpoint all_mem (xs : list iface) (fs : list (list iface)) : bool :=
  match xs, fs with
  | [], [] => true
  | x :: xs', f :: fs' => mem x f && all_mem xs' fs'
  | _, _ => false
  end.

(* the registration that applies: same name, every required interface in the content of the
   corresponding specification, its provided interface is or extends the one asked for *)
Definition lookup_flat (E : env) (regs : list registration) (fs : list (list iface)) (p : iface)
           (n : name) : option value :=
  option_map r_val
    (find (fun r => Nat.eqb (r_name r) n && all_mem (r_req r) fs && i_isOrExtends E (r_prov r) p) regs).

Definition u_lookup (E : env) (st : state) (req : list spec) (p : spec) (n : name) : option value :=
  lookup_flat E (st_regs st) (map (fun s => flat_ref E st (ref_of s)) req) p n.

(* what a factory returns: a number naming the factory and the objects it was called with *)
Definition call (v : value) (os : list nat) : option nat :=
  Some (vid v * 1000 + fold_left (fun c o => c * 10 + o mod 10) os 0).

Definition proxy_id : nat := 9.      (* identity of any super proxy: never an instance number *)
(* identities handed to factories: instances 0..2, the class object T is 2 + T, 9 = anything else
   (a proxy, None) *)
Definition cls_ident (T : cls) : nat := 2 + T.
Definition none_ident : nat := 9.

(* providedBy(o) for every object, left to right, as Model/Lookup.v objects *)
Fixpoint objs_of (uc : bool) (E : env) (st : state) (args : list arg) : state * option (list obj) :=
  match args with
  | [] => (st, Some [])
  | a :: rest =>
      match providedBy uc E st a with
      | (st1, Some r) =>
          let o := match a with
                   | AObj j => mkObj (code_of r) j None
                   | ASuper _ j => mkObj (code_of r) proxy_id (Some j)     (* __self__ = j *)
                   | ASuperC _ T => mkObj (code_of r) proxy_id (Some (cls_ident T))   (* __self__ = T *)
                   | AUnbound _ => mkObj (code_of r) proxy_id (Some none_ident)      (* __self__ = None *)
                   end in
          match objs_of uc E st1 rest with
          | (st2, Some os) => (st2, Some (o :: os))
          | (st2, None) => (st2, None)
          end
      | (st1, None) => (st1, None)
      end
  end.

Inductive via := ViaQueryAdapter | ViaAdapterHook | ViaMulti.

(* registry.queryAdapter(o, p, name) / adapter_hook(p, o, name) / queryMultiAdapter(os, p, name)
   on a registry whose lookup caches are empty (their transparency is C05) *)
Definition adapt (uc : bool) (E : env) (st : state) (v : via) (args : list arg) (p : iface) (n : name)
  : state * option (res nat) :=
  match objs_of uc E st args with
  | (st', Some os) =>
      let ul := u_lookup E st' in
      match v, os with
      | ViaMulti, _ => (st', Some (snd (queryMultiAdapter ul call empty_caches os p (NStr n))))
      | _, [o] => (st', Some (snd (adapter_hook ul call empty_caches p o (NStr n))))
      | _, _ => (st', None)
      end
  | (st', None) => (st', None)
  end.

(* ---- histories *)
Inductive op :=
| OImplements (c : cls) (ifs : list iface)       (* classImplements(c, *ifs) *)
| OOnly (c : cls) (ifs : list iface)             (* classImplementsOnly(c, *ifs) *)
| OFirst (c : cls) (i : iface)                   (* classImplementsFirst(c, i) *)
| OImplSpec (c b : cls)                          (* classImplements(c, implementedBy(b)) *)
| OProvidedBy (a : arg)
| OImplementedBy (a : arg)
| ORegister (r : registration)                   (* registry.register(req, prov, name, factory) *)
| OAdapt (v : via) (args : list arg) (p : iface) (n : name).

(* an observation: 0 = exception; [1; kind; id] ++ content for a specification (kind 0 synth /
   1 class / 2 provides / 3 the empty declaration; sorted content); [2] default; [3; r] an adapter result *)
Definition sort_set (n : nat) (l : list nat) : list nat := filter (fun i => mem i l) (seq 0 n).

Definition n_ifaces (E : env) : nat := S (length (e_ig E)).

Definition obs_ref (E : env) (st : state) (r : option sref) : list nat :=
  match r with
  | None => [0]
  | Some x => [1; code_of x mod 4; code_of x / 4] ++ sort_set (n_ifaces E) (flat_ref E st x)
  end.

Definition obs_res (r : option (res nat)) : list nat :=
  match r with
  | None => [0]
  | Some RDefault => [2]
  | Some (RVal x) => [3; x]
  | Some RValueError => [4]
  end.

Definition step (uc : bool) (E : env) (st : state) (o : op) : state * list nat :=
  match o with
  | OImplements c ifs => (class_implements E st c ifs, [])
  | OOnly c ifs => (class_implements_only E st c ifs, [])
  | OFirst c i => (class_implements_first E st c i, [])
  | OImplSpec c b => (class_implements_spec E st c b, [])
  | OProvidedBy a => let '(st', r) := providedBy uc E st a in (st', obs_ref E st' r)
  | OImplementedBy a => let '(st', r) := implementedBy uc E st a in (st', obs_ref E st' r)
  | ORegister r => (mkSt (st_decl st) (st_synth st) (st_cache st) (st_regs st ++ [r]), [])
  | OAdapt v args p n => let '(st', r) := adapt uc E st v args p n in (st', obs_res r)
  end.

Definition final (uc : bool) (E : env) (ops : list op) : state :=
  fold_left (fun st o => fst (step uc E st o)) ops init.

Fixpoint run (uc : bool) (E : env) (st : state) (ops : list op) : list (list nat) :=
  match ops with
  | [] => []
  | o :: ops' => let '(st', a) := step uc E st o in a :: run uc E st' ops'
  end.

(* the content of what providedBy / implementedBy answers (None = an exception) *)
Definition answer (uc : bool) (E : env) (st : state) (a : arg) : option (list iface) :=
  let '(st', r) := providedBy uc E st a in option_map (flat_ref E st') r.
Definition answer_implementedBy (uc : bool) (E : env) (st : state) (a : arg) : option (list iface) :=
  let '(st', r) := implementedBy uc E st a in option_map (flat_ref E st') r.

(* the same state with every _super_cache deleted *)
Definition clear_caches (st : state) : state := mkSt (st_decl st) (st_synth st) [] (st_regs st).

Definition is_declaration (o : op) : bool :=
  match o with OImplements _ _ | OOnly _ _ | OFirst _ _ | OImplSpec _ _ => true | _ => false end.

(* ---- well-formedness of a world, as a boolean: class 0 is ``object`` with no bases, every
   other class lists at least one base, bases come earlier (so the graph is acyclic; [rk] is
   the identity), base lists do not repeat; the same for the interface graph *)
Definition env_ok (E : env) : bool :=
  wfb (fun x => x) (e_cg E)
  && match e_cg E with (0, []) :: _ => true | _ => false end
  && forallb (fun e => Nat.eqb (fst e) 0 || negb (is_nil (snd e))) (e_cg E)
  && lspec_eqb (map fst (e_cg E)) (seq 0 (length (e_cg E)))
  (* interfaces: bases come earlier, numbers stay within the table (Interface, number 0, has no
     entry: it is implied everywhere) *)
  && wfb (fun x => x) (e_ig E)
  && forallb (fun e => Nat.leb (fst e) (length (e_ig E))) (e_ig E).
