(* C01, lazy creation of class specifications: the layer of declarations.py:implementedBy that
   Model/Decl.v abstracts away.  Executable definitions only; proofs in Proofs/DeclLazy.v.

   The code creates implementedBy(cls) on first demand: nothing in ``cls.__dict__`` (or in
   BuiltinImplementationSpecifications) -> Implements.named(name, *[implementedBy(b) for b in
   cls.__bases__]) with inherit = cls, declared = (), creating the bases' specifications
   recursively first; the new specification is stored (``cls.__implemented__`` or the builtin
   table) and, for a type that can take attributes, ``cls.__providedBy__`` and
   ``cls.__provides__ = ClassProvides(cls, type(cls))`` are installed.

   A lazy state is a state of Model/Decl.v plus, per class, whether its specification exists
   yet ([created]).  The record of a class without specification holds what the specification
   will contain when it is created (declared = [] and inherit, or — for a class with an old-style
   ``__implemented__`` attribute — declared = those interfaces and inherit = None; no class-object
   declaration) —
   that this is so in every reachable state is a theorem (Proofs/DeclLazy.v [zinv]), as is
   that every call that changes a specification has created it first.

   Who demands a specification:
     every class-level declaration call on c                         implementedBy(c)
     directlyProvides / provider / alsoProvides / noLongerProvides on a class object c
                                       ClassProvides.__init__: self._implements = implementedBy(c)
     ... on an instance o of d         Provides(d, ..) -> _add_interfaces_to_cls -> implementedBy(d)
     the queries implementedBy(c), I.implementedBy(c)                implementedBy(c)
     providedBy(o) / I.providedBy(o), o an instance WITHOUT its own __provides__:
                                       ObjectSpecificationDescriptor.__get__ / getObjectSpecification
                                       fall through to implementedBy(type(o))
   and who does not: providedBy(cls) / I.providedBy(cls) for a class object (the ClassProvides of
   the class if it exists, else implementedBy(metaclass)), directlyProvidedBy, class and
   instance creation. *)
From Coq Require Import List Arith Bool.
Import ListNotations.
From ZI Require Import Lib.Util.
From ZI Require Export Model.Decl.

Definition zstate := (state * list bool)%type.
Definition zinit : zstate := (init, []).
Definition zcreated (fl : list bool) (c : cls) : bool := nth c fl false.

(* implementedBy(c): dict / table hit, or creation from the bases' specifications *)
Fixpoint zensure_f (cs : list crec) (fuel : nat) (fl : list bool) (c : cls) : list bool :=
  match fuel with
  | 0 => fl
  | S f =>
      if zcreated fl c then fl
      else match nth_error cs c with
           | None => fl
           | Some r =>
               (* an old-style ``__implemented__`` attribute (inherit = None) is turned into the
                  specification without looking at the bases *)
               upd (if c_inherit r then fold_left (zensure_f cs f) (c_bases r) fl else fl) c true
           end
  end.
Definition zensure (z : zstate) (c : cls) : zstate :=
  (fst z, zensure_f (classes (fst z)) (S c) (snd z) c).

(* what an EXISTING specification names directly, through the specifications it points to *)
Fixpoint zdirect_f (cs : list crec) (fl : list bool) (fuel : nat) (c : cls) : list iface :=
  match fuel with
  | 0 => []
  | S f =>
      if zcreated fl c then
        match nth_error cs c with
        | None => []
        | Some r => c_decl r ++ (if c_inherit r then flat_map (zdirect_f cs fl f) (c_bases r) else [])
        end
      else []
  end.
Definition zdirect (z : zstate) (c : cls) : list iface := zdirect_f (classes (fst z)) (snd z) (S c) c.

(* the implementedBy calls a declaration call makes before it changes anything *)
Definition pre_ensure (z : zstate) (o : op) : zstate :=
  match decl_class o with
  | Some c => zensure z c
  | None =>
      match decl_target o with
      | Some (TCls c) => zensure z c
      | Some (TInst i) => match nth_error (insts (fst z)) i with
                          | Some r => if i_live r then zensure z (i_cls r) else z
                          | None => z
                          end
      | None => z
      end
  end.

Definition zstep (ev : bool) (g : igraph) (z : zstate) (o : op) : zstate :=
  let z1 := pre_ensure z o in
  (step ev g (fst z1) o, match o with NewClass _ _ _ _ => snd z1 ++ [false] | _ => snd z1 end).

(* ---- queries: new state and answer *)
Definition zq_implemented (g : igraph) (z : zstate) (c : cls) : zstate * list iface :=
  let z' := zensure z c in (z', closure g (zdirect z' c)).

Definition zq_provided (g : igraph) (z : zstate) (t : target) : zstate * list iface :=
  match t with
  | TInst o =>
      match nth_error (insts (fst z)) o with
      | Some r => match i_prov r with
                  | Some k => (z, closure g (k ++ zdirect z (i_cls r)))
                  | None => let z' := zensure z (i_cls r) in (z', closure g (zdirect z' (i_cls r)))
                  end
      | None => (z, [])
      end
  | TCls c =>
      (z, match nth_error (classes (fst z)) c with
          | Some r => closure g ((if zcreated (snd z) c && negb (c_builtin r) then c_cprov r else []) ++ meta_direct r)
          | None => []
          end)
  end.

(* I.implementedBy(c) / I.providedBy(t): membership in _implied of the same specification *)
Definition zq_i_implementedBy (g : igraph) (z : zstate) (c : cls) (i : iface) : zstate * bool :=
  let z' := zensure z c in (z', Nat.eqb i 0 || existsb (fun y => ext g y i) (zdirect z' c)).

Definition zq_dpb (z : zstate) (t : target) : list iface :=
  match t with
  | TInst o => dpb (fst z) t
  | TCls c => match nth_error (classes (fst z)) c with
              | Some r => if zcreated (snd z) c && negb (c_builtin r) then dedup (c_cprov r) else []
              | None => []
              end
  end.

(* histories with queries in them *)
Inductive zop :=
| ZOp (o : op)
| ZQImplementedBy (c : cls)
| ZQProvidedBy (t : target)
| ZQDirectlyProvidedBy (t : target).

Definition zstep_op (g : igraph) (z : zstate) (q : zop) : zstate :=
  match q with
  | ZOp o => zstep true g z o
  | ZQImplementedBy c => fst (zq_implemented g z c)
  | ZQProvidedBy t => fst (zq_provided g z t)
  | ZQDirectlyProvidedBy _ => z
  end.
Definition zrun (g : igraph) (qs : list zop) : zstate := fold_left (zstep_op g) qs zinit.

Fixpoint ops_of (qs : list zop) : list op :=
  match qs with
  | [] => []
  | ZOp o :: t => o :: ops_of t
  | _ :: t => ops_of t
  end.
