(* Vocabulary of the C18 kernel: an abstract CPython function object (the fields that
   zope/interface/interface.py:fromFunction reads), the Method description it fills in, and
   the Python primitives the translated code uses (len, slices, indexing, zip, dict), each with
   Python's semantics including negative bounds/indices.  Executable definitions only.

   The translation of fromFunction itself is NOT here: it is regenerated from the source text
   into Gen/FromFunction.v by harness/translate/fromfunction.py on every run. *)
From Coq Require Import List ZArith Bool Arith.
Import ListNotations.
From ZI Require Import Lib.Str.

Definition name := nat.   (* identifier = index into a per-case name table *)
Definition dflt := nat.   (* default / attribute value = index into a per-case object table *)

(* What fromFunction reads of ``func``:
     func.__code__.co_argcount / co_kwonlyargcount / co_varnames,
     co_flags & CO_VARARGS, co_flags & CO_VARKEYWORDS,
     func.__defaults__ (None is read as ()), the imlevel argument, func.__dict__ *)
Record code := mkCode {
  co_argcount : nat;
  co_kwonlyargcount : nat;
  co_varnames : list name;
  has_varargs : bool;
  has_varkw : bool;
  fn_defaults : list dflt;
  fn_imlevel : nat;
  fn_dict : list (name * dflt)
}.

Definition with_imlevel (n : nat) (co : code) : code :=
  mkCode (co_argcount co) (co_kwonlyargcount co) (co_varnames co) (has_varargs co) (has_varkw co)
         (fn_defaults co) n (fn_dict co).

(* interface.py: class Method — the attributes getSignatureInfo() reports, plus the tagged
   values of Element.  Class-level initial values: positional = required = (),
   _optional = varargs = kwargs = None (optional reads as {}), no tagged values. *)
Record method := mkMethod {
  m_positional : list name;
  m_required : list name;
  m_optional : list (name * dflt);
  m_varargs : option name;
  m_kwargs : option name;
  m_tagged : list (name * dflt)
}.

(* a Python statement either completes or raises IndexError (``names[i]`` out of range) *)
Inductive result (A : Type) : Type :=
| Ok (a : A)
| IndexError.
Arguments Ok {A} a.
Arguments IndexError {A}.

Definition rbind {A B} (r : result A) (f : A -> result B) : result B :=
  match r with Ok a => f a | IndexError => IndexError end.

(* ---- Python sequence primitives (ints are Z: ``nr`` may be negative) *)
Definition py_len {A} (l : list A) : Z := Z.of_nat (length l).

(* a slice bound: negative counts from the end, then clamp into [0, len] *)
Definition norm_bound (len : nat) (i : Z) : nat :=
  if (i <? 0)%Z then Z.to_nat (Z.max 0 (Z.of_nat len + i)) else Nat.min (Z.to_nat i) len.

(* l[lo:hi] with optional bounds, step 1 *)
Definition py_slice {A} (l : list A) (lo hi : option Z) : list A :=
  let n := length l in
  let a := match lo with None => 0 | Some i => norm_bound n i end in
  let b := match hi with None => n | Some i => norm_bound n i end in
  firstn (b - a) (skipn a l).

(* l[i]; negative i counts from the end; out of range raises IndexError *)
Definition py_index {A} (l : list A) (i : Z) : result A :=
  let j := if (i <? 0)%Z then (Z.of_nat (length l) + i)%Z else i in
  if (j <? 0)%Z then IndexError
  else match nth_error l (Z.to_nat j) with Some x => Ok x | None => IndexError end.

Definition py_zip {A B} (a : list A) (b : list B) : list (A * B) := combine a b.

(* ---- dict with insertion order: association list, assignment to an existing key keeps its
   position *)
Fixpoint dict_set {V} (d : list (name * V)) (k : name) (v : V) : list (name * V) :=
  match d with
  | [] => [(k, v)]
  | (k', v') :: t => if Nat.eqb k k' then (k', v) :: t else (k', v') :: dict_set t k v
  end.

Definition dict_update {V} (d e : list (name * V)) : list (name * V) :=
  fold_left (fun acc kv => dict_set acc (fst kv) (snd kv)) e d.

Definition dict_of_pairs {V} (l : list (name * V)) : list (name * V) := dict_update [] l.

Fixpoint dict_get {V} (d : list (name * V)) (k : name) : option V :=
  match d with
  | [] => None
  | (k', v) :: t => if Nat.eqb k k' then Some v else dict_get t k
  end.

(* ---- Method.getSignatureString (interface.py), as a token list and as text.
     for v in positional: v  or  v=repr(optional[v]);  "*"+varargs;  "**"+kwargs;
     "(%s)" % ", ".join(sig)
   (``if self.varargs`` tests truthiness of the name; parameter names are never empty.) *)
Inductive tok :=
| TName (n : name)
| TNameDefault (n : name) (d : dflt)
| TStar (n : name)
| TStarStar (n : name).

Definition ostar (o : option name) : list tok := match o with Some a => [TStar a] | None => [] end.
Definition ostarstar (o : option name) : list tok := match o with Some a => [TStarStar a] | None => [] end.

Definition getSignatureString (m : method) : list tok :=
  map (fun v => match dict_get (m_optional m) v with
                | Some d => TNameDefault v d
                | None => TName v
                end) (m_positional m)
  ++ ostar (m_varargs m) ++ ostarstar (m_kwargs m).

(* text rendering given the name table and the table of repr() texts of the objects *)
Definition tbl (t : list str) (i : nat) : str := nth i t [63%N].
Definition tok_text (names reprs : list str) (t : tok) : str :=
  match t with
  | TName n => tbl names n
  | TNameDefault n d => tbl names n ++ [61%N] ++ tbl reprs d
  | TStar n => [42%N] ++ tbl names n
  | TStarStar n => [42%N; 42%N] ++ tbl names n
  end.
Fixpoint join_comma (l : list str) : str :=
  match l with
  | [] => []
  | [x] => x
  | x :: t => x ++ [44%N; 32%N] ++ join_comma t
  end.
Definition sig_text (names reprs : list str) (ts : list tok) : str :=
  [40%N] ++ join_comma (map (tok_text names reprs) ts) ++ [41%N].

(* ---- interface.py class Element: the read accessors of tagged values, on one tag.
     getTaggedValue / getDirectTaggedValue : d[tag], KeyError when absent (or no dict yet)
     queryTaggedValue / queryDirectTaggedValue (tag) : d.get(tag, None)
     the same with an explicit default object     : d.get(tag, default)
   Results are codes: an object index, or R_KEYERROR / R_DEFAULT (the default object that was
   passed came back) / R_NONE (the answer is None; [none] is the index of None in the table). *)
Definition R_KEYERROR := 1000.
Definition R_DEFAULT := 1001.
Definition R_NONE := 1003.
Definition as_none (none : nat) (v : dflt) : nat := if Nat.eqb v none then R_NONE else v.
Definition tag_reads (d : list (name * dflt)) (none : nat) (t : name) : list nat :=
  match dict_get d t with
  | Some v => [v; v; as_none none v; as_none none v; v; v]
  | None => [R_KEYERROR; R_KEYERROR; R_NONE; R_NONE; R_DEFAULT; R_DEFAULT]
  end.

(* ---- vocabulary of the REGENERATED Method.getSignatureString / Element tagged-value accessors /
   ABCInterfaceClass.__method_from_function (Gen/FromFunction.v).  A Python str built by the
   code is a list of pieces: literal text from the source, a parameter name, repr() of an object. *)
Inductive piece := PLit (s : str) | PName (n : name) | PRepr (d : dflt).
Definition pstr := list piece.
Definition piece_text (names reprs : list str) (p : piece) : str :=
  match p with PLit s => s | PName n => tbl names n | PRepr d => tbl reprs d end.
Definition pstr_text (names reprs : list str) (p : pstr) : str := flat_map (piece_text names reprs) p.

(* truth value of ``self.varargs``: None is false, a (non-empty) name is true *)
Definition oname_truth (o : option name) : bool := match o with Some _ => true | None => false end.
Definition oname_pstr (o : option name) : pstr := match o with Some n => [PName n] | None => [] end.
Definition dict_has {V} (d : list (name * V)) (k : name) : bool :=
  match dict_get d k with Some _ => true | None => false end.
(* repr(d[k]) *)
Definition py_getitem_repr (d : list (name * dflt)) (k : name) : pstr :=
  match dict_get d k with Some x => [PRepr x] | None => [] end.
(* l[-1] += x *)
Fixpoint py_last_iadd (l : list pstr) (x : pstr) : list pstr :=
  match l with [] => [] | [a] => [a ++ x] | a :: t => a :: py_last_iadd t x end.
(* sep.join(l) *)
Fixpoint py_join (sep : pstr) (l : list pstr) : pstr :=
  match l with [] => [] | [x] => x | x :: t => x ++ sep ++ py_join sep t end.
(* "pre%spost" % x *)
Definition py_format1 (pre post : str) (x : pstr) : pstr := [PLit pre] ++ x ++ [PLit post].

(* Element.__tagged_values: None until the first setTaggedValue, then a dict *)
Definition tvstate := option (list (name * dflt)).
Definition tv_truth (tv : tvstate) : bool := match tv with Some (_ :: _) => true | _ => false end.
Definition tv_is_none (tv : tvstate) : bool := match tv with None => true | Some _ => false end.
Definition tv_dict (tv : tvstate) : list (name * dflt) := match tv with Some d => d | None => [] end.
(* a Python value handed to / returned by the accessors: a table object, None, or the caller's
   default object *)
Inductive val := VObj (d : dflt) | VNone | VSentinel.
Inductive rd := RVal (v : val) | RKeyError.
Definition dict_getd (d : list (name * dflt)) (k : name) (default : val) : val :=
  match dict_get d k with Some x => VObj x | None => default end.
Definition py_getitem (d : list (name * dflt)) (k : name) : rd :=
  match dict_get d k with Some x => RVal (VObj x) | None => RKeyError end.
(* the codes the driver reports (see tag_reads) *)
Definition code_get (r : rd) : nat :=
  match r with RVal (VObj d) => d | RVal VNone => R_NONE | RVal VSentinel => R_DEFAULT | RKeyError => R_KEYERROR end.
Definition code_query (none : nat) (v : val) : nat :=
  match v with VObj d => as_none none d | VNone => R_NONE | VSentinel => R_DEFAULT end.
Definition code_query_d (v : val) : nat :=
  match v with VObj d => d | VNone => R_NONE | VSentinel => R_DEFAULT end.

(* ---- decidable equalities used by the Tie *)
Definition pair_eqb (a b : name * dflt) : bool := Nat.eqb (fst a) (fst b) && Nat.eqb (snd a) (snd b).
