(* Vocabulary of the kernel regenerated from declarations.py (coq/Gen/DeclKernel.v, written by
   harness/translate/decl.py on every run).  Executable definitions only.

   The generated functions are statement-by-statement translations of the Python text; what
   a statement does to "the heap" is expressed with the primitives below, which are the
   hand-written (trusted, validated by the tie of C01) abstraction of the object protocol:

     node      an interface, the Implements specification of a class, or implementedBy(type)
     kclsref   what a ``cls`` variable can hold: None, the metaclass ``type``, a numbered class
     kprov     a Provides / ClassProvides object: its ``__args`` and its ``__bases__``
     kstate    per class: Python bases, Implements.declared / .inherit / .__bases__ (STORED, so
               that what ``spec.__bases__ = ...`` assigns is visible) and the __bases__ of its
               ClassProvides; per instance: the __bases__ of its __provides__;
               InstanceDeclarations as an association list key -> __bases__ of the shared
               Provides; the pending exception.
     embed     the kernel state that corresponds to a state of Model/Decl.v.

   Hand-modelled, not translated (too entangled with the object protocol): implementedBy (lazy
   creation, old-style/builtin branches; the model creates specifications with the class),
   Specification.__setBases / changed (recompute + notify dependents: [p_set_bases] calls the
   TRANSLATED Provides.changed for every cached specification that depends on the class),
   Provides.__init__ (calls the TRANSLATED _add_interfaces_to_cls), ClassProvides.__init__,
   _normalizeargs (arguments are interfaces), Declaration.__sub__ / interfaces(),
   the descriptor protocol behind getattr(ob, '__provides__', None), providedBy. *)
From Coq Require Import List Arith Bool.
Import ListNotations.
From ZI Require Import Lib.Util.
From ZI Require Export Model.Decl Model.DeclLazy.

(* NM l: implementedBy(a custom metaclass), which names the interfaces l directly *)
Inductive node := NI (i : iface) | NC (c : cls) | NT | NM (l : list iface).
Definition node_eqb (a b : node) : bool :=
  match a, b with
  | NI i, NI j => Nat.eqb i j
  | NC c, NC d => Nat.eqb c d
  | NT, NT => true
  | NM l, NM m => lnat_eqb l m
  | _, _ => false
  end.
Definition lnode_eqb := list_eqb node_eqb.

Inductive kclsref := RNone | RType | RClass (c : cls) | RMeta (l : list iface).
Definition kclsref_eqb (a b : kclsref) : bool :=
  match a, b with
  | RNone, RNone => true
  | RType, RType => true
  | RClass c, RClass d => Nat.eqb c d
  | RMeta l, RMeta m => lnat_eqb l m
  | _, _ => false
  end.

Definition kkey := (kclsref * list node)%type.
Definition kprov := (kkey * list node)%type.
Inductive kgot := GNone | GImplements | GSpec (bases : list node).
Inductive korigin := OClass (c : cls) | OProv (p : kprov).

Record kcls := mkKC { kc_pybases : list cls; kc_declared : list node; kc_inherit : bool;
                      kc_bases : list node; kc_provides : list node; kc_meta : option (list iface);
                      kc_builtin : bool; kc_created : bool;
                      kc_old : option (list node) }.   (* an old-style ``__implemented__`` in the class's __dict__ *)
Record kinst := mkKI { ki_cls : cls; ki_live : bool; ki_provides : option (list node) }.
Record kstate := mkK { kclasses : list kcls; kinsts : list kinst;
                       kcache : list (kkey * list node); kexc : option nat }.

(* ---- embedding of the model's states *)
Definition spec_bases (r : crec) : list node :=
  map NI (c_decl r) ++ (if c_inherit r then map NC (dedup (c_bases r)) else []).
Definition meta_ref (m : option (list iface)) : kclsref := match m with Some l => RMeta l | None => RType end.
Definition p_implementedBy (r : kclsref) : node :=
  match r with RClass c => NC c | RMeta l => NM l | _ => NT end.
Definition embed_cls (r : crec) : kcls :=
  mkKC (c_bases r) (map NI (c_decl r)) (c_inherit r) (spec_bases r)
       (map NI (c_cprov r) ++ [p_implementedBy (meta_ref (c_meta r))]) (c_meta r) (c_builtin r) true None.
Definition embed_inst (r : irec) : kinst :=
  mkKI (i_cls r) (i_live r) (option_map (fun k => map NI k ++ [NC (i_cls r)]) (i_prov r)).
Definition embed_entry (e : ckey * list iface) : kkey * list node :=
  ((RClass (fst (fst e)), map NI (snd (fst e))), map NI (snd e) ++ [NC (fst (fst e))]).
Definition embed_exc (st : state) (x : option nat) : kstate :=
  mkK (map embed_cls (classes st)) (map embed_inst (insts st)) (map embed_entry (cache st)) x.
Definition embed (st : state) : kstate := embed_exc st None.

(* ---- embedding of the lazy states of Model/DeclLazy.v: a class without specification has no
   Implements fields and no __provides__; a built-in type never gets a __provides__ *)
Definition zembed_cls (p : crec * bool) : kcls :=
  let r := fst p in
  if snd p then
    if c_builtin r then mkKC (c_bases r) (map NI (c_decl r)) (c_inherit r) (spec_bases r) [] (c_meta r) true true None
    else embed_cls r
  else mkKC (c_bases r) [] false [] [] (c_meta r) (c_builtin r) false
            (if c_inherit r then None else Some (map NI (c_decl r))).
Definition zembed (z : zstate) (x : option nat) : kstate :=
  mkK (map zembed_cls (combine (classes (fst z)) (snd z))) (map embed_inst (insts (fst z)))
      (map embed_entry (cache (fst z))) x.

(* ---- pure helpers *)
Definition p_normalizeargs (l : list node) : list node := l.
Definition p_is_root (x : node) : bool := node_eqb x (NI 0).   (* ``x is Interface``: interface 0 *)
Definition p_truth (l : list node) : bool := match l with [] => false | _ => true end.
Definition p_in (x : node) (l : list node) : bool := existsb (node_eqb x) l.
(* iface.extends(b) (strict) *)
Definition p_extends (g : igraph) (x y : node) : bool :=
  match x, y with NI i, NI j => ext_strict g i j | _, _ => false end.
Definition p_extends_nonstrict (g : igraph) (x y : node) : bool :=
  match x, y with NI i, NI j => ext g i j | _, _ => false end.
Fixpoint kdedup (l : list node) : list node :=
  match l with
  | [] => []
  | x :: t => x :: filter (fun y => negb (node_eqb y x)) (kdedup t)
  end.

Definition spec_class (spec : node) : option cls := match spec with NC c => Some c | _ => None end.
Definition kget (s : kstate) (spec : node) : option kcls :=
  match spec with NC c => nth_error (kclasses s) c | _ => None end.
Definition kset (s : kstate) (spec : node) (f : kcls -> kcls) : kstate :=
  match spec with
  | NC c => match nth_error (kclasses s) c with
            | Some r => mkK (upd (kclasses s) c (f r)) (kinsts s) (kcache s) (kexc s)
            | None => s
            end
  | _ => s
  end.

(* ---- Implements attributes *)
Definition p_declared (s : kstate) (spec : node) : list node :=
  match kget s spec with Some r => kc_declared r | None => [] end.
Definition p_set_declared (s : kstate) (spec : node) (l : list node) : kstate :=
  kset s spec (fun r => mkKC (kc_pybases r) l (kc_inherit r) (kc_bases r) (kc_provides r) (kc_meta r) (kc_builtin r) (kc_created r) (kc_old r)).
Definition p_set_inherit_none (s : kstate) (spec : node) : kstate :=
  kset s spec (fun r => mkKC (kc_pybases r) (kc_declared r) false (kc_bases r) (kc_provides r) (kc_meta r) (kc_builtin r) (kc_created r) (kc_old r)).
Definition p_inherit_is_set (s : kstate) (spec : node) : bool :=
  match kget s spec with Some r => kc_inherit r | None => false end.
Definition p_inherit_pybases (s : kstate) (spec : node) : list kclsref :=
  match kget s spec with Some r => map RClass (kc_pybases r) | None => [] end.

(* the interfaces a specification implies, through the STORED __bases__ *)
Fixpoint kflat_f (g : igraph) (kcs : list kcls) (fuel : nat) (n : node) : list iface :=
  match n with
  | NI i => ups g i
  | NT => []
  | NM l => closure g l
  | NC c => match fuel with
            | 0 => []
            | S f => match nth_error kcs c with
                     | None => []
                     | Some r => flat_map (kflat_f g kcs f) (kc_bases r)
                     end
            end
  end.
Definition kfuel (n : node) : nat := match n with NC c => S c | _ => 0 end.
Definition p_isOrExtends (g : igraph) (s : kstate) (spec x : node) : bool :=
  match x with
  | NI i => implied_by (kflat_f g (kclasses s) (kfuel spec) spec) i   (* every specification implies Interface *)
  | _ => false
  end.

(* implementedBy(d) has implementedBy(c) below it in the stored graph *)
Fixpoint kdepends_f (kcs : list kcls) (fuel : nat) (d c : cls) : bool :=
  Nat.eqb d c ||
  match fuel with
  | 0 => false
  | S f => match nth_error kcs d with
           | None => false
           | Some r => existsb (fun n => match n with NC b => kdepends_f kcs f b c | _ => false end) (kc_bases r)
           end
  end.

(* ---- InstanceDeclarations *)
Definition kkey_eqb (a b : kkey) : bool := kclsref_eqb (fst a) (fst b) && lnode_eqb (snd a) (snd b).
Fixpoint kcache_lookup (k : kkey) (ca : list (kkey * list node)) : option (list node) :=
  match ca with
  | [] => None
  | (k', v) :: t => if kkey_eqb k k' then Some v else kcache_lookup k t
  end.
Definition p_cache_get (s : kstate) (k : kkey) : option kprov :=
  option_map (fun b => (k, b)) (kcache_lookup k (kcache s)).
Definition kcache_remove (k : kkey) (ca : list (kkey * list node)) :=
  filter (fun e => negb (kkey_eqb k (fst e))) ca.
Definition p_cache_del (s : kstate) (k : kkey) : kstate :=
  mkK (kclasses s) (kinsts s) (kcache_remove k (kcache s)) (kexc s).
Definition p_cache_set (s : kstate) (k : kkey) (v : kprov) : kstate :=
  mkK (kclasses s) (kinsts s) ((k, snd v) :: kcache_remove k (kcache s)) (kexc s).
Definition p_is_none_opt (o : option kprov) : bool := match o with None => true | Some _ => false end.
(* ``InstanceDeclarations.get(k) is self`` *)
Definition p_opt_is (o : option kprov) (v : kprov) : bool :=
  match o with
  | Some w => kkey_eqb (fst w) (fst v) && lnode_eqb (snd w) (snd v)
  | None => false
  end.
(* the value bound to ``spec`` after ``spec = InstanceDeclarations.get(..)`` / ``ProvidesClass(..)`` *)
Definition p_the (o : option kprov) : kprov := match o with Some v => v | None => ((RNone, []), []) end.
Definition p_args (v : kprov) : kkey := fst v.
Definition p_origin_is (o : korigin) (v : kprov) : bool :=
  match o with
  | OProv w => kkey_eqb (fst w) (fst v) && lnode_eqb (snd w) (snd v)
  | OClass _ => false
  end.
(* Specification.changed of a Provides: recompute its own orders; no dependents *)
Definition p_super_changed (s : kstate) (self : kprov) (o : korigin) : kstate := s.

(* ``spec.__bases__ = bases`` on an Implements: Specification.__setBases stores the bases and
   calls changed(self), which notifies the dependents transitively; the only dependents with
   an effect on the state are the cached Provides, whose (translated) ``changed`` is called
   with originally_changed = this specification *)
Definition p_set_bases (chg : igraph -> kstate -> kprov -> korigin -> kstate)
           (g : igraph) (s : kstate) (spec : node) (bases : list node) : kstate :=
  match spec with
  | NC c =>
      match nth_error (kclasses s) c with
      | None => s
      | Some r =>
          let s1 := mkK (upd (kclasses s) c (mkKC (kc_pybases r) (kc_declared r) (kc_inherit r) bases (kc_provides r) (kc_meta r) (kc_builtin r) (kc_created r) (kc_old r)))
                        (kinsts s) (kcache s) (kexc s) in
          fold_left (fun acc e =>
                       match fst (fst e) with
                       | RClass d => if kdepends_f (kclasses s) (S d) d c then chg g acc e (OClass c) else acc
                       | _ => acc
                       end) (kcache s) s1
      end
  | _ => s
  end.

(* Provides.__init__: Declaration.__init__(self, *self._add_interfaces_to_cls(interfaces, cls)) *)
Definition p_new_provides (add : igraph -> kstate -> list node -> kclsref -> list node)
           (g : igraph) (s : kstate) (k : kkey) : kprov := (k, add g s (snd k) (fst k)).
(* ClassProvides.__init__: Declaration.__init__(self, *self._add_interfaces_to_cls(interfaces, metacls)) *)
Definition p_new_class_provides (add : igraph -> kstate -> list node -> kclsref -> list node)
           (g : igraph) (s : kstate) (ob : target) (metacls : kclsref) (l : list node) : kprov :=
  ((metacls, l), add g s l metacls).

(* ---- objects *)
Definition p_getattr_class (s : kstate) (ob : target) : kclsref :=
  match ob with
  | TInst o => match nth_error (kinsts s) o with Some r => RClass (ki_cls r) | None => RNone end
  | TCls c => match nth_error (kclasses s) c with Some r => meta_ref (kc_meta r) | None => RType end
  end.
Definition p_getattr_class_of_class (r : kclsref) : kclsref :=
  match r with RNone => RNone | _ => RType end.
Definition p_type_of (s : kstate) (ob : target) : kclsref := p_getattr_class s ob.
Definition p_is_none_ref (r : kclsref) : bool := match r with RNone => true | _ => false end.
Definition p_isinstance_type (ob : target) : bool := match ob with TCls _ => true | _ => false end.
Definition p_issubclass_type (r : kclsref) : bool := match r with RType | RMeta _ => true | _ => false end.
(* ``'__provides__' in cls.__dict__`` at the moment implementedBy(cls) is first computed *)
Definition p_has_own_provides (s : kstate) (ob : target) : bool := false.
Definition p_issubclass_module (r : kclsref) : bool := false.
Definition p_hasattr_name (ob : target) : bool := match ob with TCls _ => true | _ => false end.
Definition p_note_module_name (s : kstate) (v : kprov) (ob : target) : kstate := s.

(* ``object.__provides__ = v`` *)
Definition p_set_provides (s : kstate) (ob : target) (v : kprov) : kstate :=
  match ob with
  | TInst o => match nth_error (kinsts s) o with
               | Some r => mkK (kclasses s) (upd (kinsts s) o (mkKI (ki_cls r) (ki_live r) (Some (snd v))))
                               (kcache s) (kexc s)
               | None => s
               end
  | TCls c => kset s (NC c) (fun r => mkKC (kc_pybases r) (kc_declared r) (kc_inherit r) (kc_bases r) (snd v) (kc_meta r) (kc_builtin r) (kc_created r) (kc_old r))
  end.
(* ``getattr(object, '__provides__', None)``: an instance without its own __provides__ gets the
   class's ClassProvides descriptor, which answers with the Implements of the class *)
Definition p_getattr_provides (s : kstate) (ob : target) : kgot :=
  match ob with
  | TInst o => match nth_error (kinsts s) o with
               | Some r => match ki_provides r with Some b => GSpec b | None => GImplements end
               | None => GNone
               end
  | TCls c => match nth_error (kclasses s) c with Some r => GSpec (kc_provides r) | None => GNone end
  end.
Definition p_got_is_none (x : kgot) : bool := match x with GNone => true | _ => false end.
Definition p_got_is_implements (x : kgot) : bool := match x with GImplements => true | _ => false end.
Definition p_bases (x : kgot) : list node := match x with GSpec b => b | _ => [] end.
Definition p_empty : list node := [].
Definition p_declaration (l : list node) : list node := l.
(* what _normalizeargs makes of a Declaration argument: its interfaces() *)
Definition p_decl_interfaces (d : list node) : list node := kdedup d.
(* Declaration.__sub__ with an interface *)
Definition p_decl_sub (g : igraph) (d : list node) (x : node) : list node :=
  filter (fun i => negb (p_extends_nonstrict g i x)) (kdedup d).
(* interface.providedBy(object) *)
Definition p_providedBy (g : igraph) (s : kstate) (x : node) (ob : target) : bool :=
  match x with
  | NI i =>
      Nat.eqb i 0 ||
      match ob with
      | TInst o => match nth_error (kinsts s) o with
                   | Some r => match ki_provides r with
                               | Some b => existsb (fun n => mem_nat i (kflat_f g (kclasses s) (S (ki_cls r)) n)) b
                               | None => mem_nat i (kflat_f g (kclasses s) (S (ki_cls r)) (NC (ki_cls r)))
                               end
                   | None => false
                   end
      | TCls c => match nth_error (kclasses s) c with
                  | Some r => existsb (fun n => mem_nat i (kflat_f g (kclasses s) 0 n)) (kc_provides r)
                  | None => false
                  end
      end
  | _ => false
  end.
Definition p_raise (code : nat) (s : kstate) : kstate := mkK (kclasses s) (kinsts s) (kcache s) (Some code).
Definition exc_TypeError : nat := 2.
Definition exc_ValueError : nat := 1.

(* ---- vocabulary of the statements relating the generated kernel to the model *)
(* the interface arguments left in t's __provides__ (before interfaces() removes duplicates) *)
Definition dpb_raw (st : state) (t : target) : list iface :=
  match t with
  | TInst o => match nth_error (insts st) o with
               | Some r => match i_prov r with Some k => k | None => [] end
               | None => []
               end
  | TCls c => match nth_error (classes st) c with Some r => c_cprov r | None => [] end
  end.

(* the object exists (and, for an instance, has not been dropped) and can take attributes (it is
   not a built-in type or an instance of one: for those ``object.__provides__ = ...`` raises,
   which is hand-modelled in Model/Decl.v [exc_code]) *)
Definition target_live (st : state) (t : target) : Prop :=
  match t with
  | TInst o => exists r, nth_error (insts st) o = Some r /\ i_live r = true /\ class_builtin st (i_cls r) = false
  | TCls c => class_builtin st c = false
  end.

(* ---- implementedBy (the translated function reads and creates specifications through these) *)
Inductive kdv := DNone | DSpec (n : node) | DOld (l : list node).   (* what a dictionary lookup gives *)
Definition kcget (s : kstate) (r : kclsref) : option kcls :=
  match r with RClass c => nth_error (kclasses s) c | _ => None end.
Definition kcset (s : kstate) (r : kclsref) (f : kcls -> kcls) : kstate :=
  match r with RClass c => kset s (NC c) f | _ => s end.
Definition p_isinstance_super (r : kclsref) : bool := false.
Definition p_no_spec : node := NT.
Definition p_implementedBy_super (s : kstate) (r : kclsref) : kstate * node := (s, p_no_spec).
(* ``cls.__dict__.get('__implemented__')``: the stored Implements of a class that can take
   attributes; ``type`` and the metaclasses have theirs *)
Definition p_dict_get_implemented (s : kstate) (r : kclsref) : kdv :=
  match r with
  | RClass c => match nth_error (kclasses s) c with
                | Some k => if kc_created k && negb (kc_builtin k) then DSpec (NC c)
                            else match kc_old k with Some l => DOld l | None => DNone end
                | None => DNone
                end
  | RNone => DNone
  | _ => DSpec (p_implementedBy r)
  end.
(* ``BuiltinImplementationSpecifications.get(cls)`` *)
Definition p_table_get (s : kstate) (r : kclsref) : kdv :=
  match kcget s r with
  | Some k => if kc_created k && kc_builtin k then DSpec (p_implementedBy r) else DNone
  | None => DNone
  end.
Definition p_dv_is_implements (d : kdv) : bool := match d with DSpec _ => true | _ => false end.
Definition p_dv_is_none (d : kdv) : bool := match d with DNone => true | _ => false end.
Definition p_dv_spec (d : kdv) : node := match d with DSpec n => n | _ => p_no_spec end.
Definition p_dv_old (d : kdv) : list node := match d with DOld l => l | _ => [] end.
Definition p_implements_name (r : kclsref) : kclsref := r.
(* ``Implements.named(name, *bases)``: a new specification with declared = (), inherit = None
   (the class attributes) and the given __bases__ (nothing depends on it yet: no notification) *)
Definition p_implements_named (s : kstate) (name : kclsref) (bases : list node) : kstate * kdv :=
  (kcset s name (fun k => mkKC (kc_pybases k) [] false bases (kc_provides k) (kc_meta k) (kc_builtin k) (kc_created k) (kc_old k)),
   DSpec (p_implementedBy name)).
(* ``spec.inherit = cls`` *)
Definition p_set_inherit_cls (s : kstate) (spec : node) (cls : kclsref) : kstate :=
  kset s spec (fun k => mkKC (kc_pybases k) (kc_declared k) true (kc_bases k) (kc_provides k) (kc_meta k) (kc_builtin k) (kc_created k) (kc_old k)).
Definition p_set_implements_cls (s : kstate) (spec : node) (cls : kclsref) : kstate := s.
Definition p_del_dict_implemented (s : kstate) (cls : kclsref) : kstate :=
  kcset s cls (fun k => mkKC (kc_pybases k) (kc_declared k) (kc_inherit k) (kc_bases k) (kc_provides k) (kc_meta k) (kc_builtin k) (kc_created k) None).
Definition p_pybases (s : kstate) (r : kclsref) : list kclsref :=
  match kcget s r with Some k => map RClass (kc_pybases k) | None => [] end.
(* does ``cls.__implemented__ = spec`` succeed (TypeError for an immutable type) *)
Definition p_can_setattr (s : kstate) (r : kclsref) : bool :=
  match kcget s r with Some k => negb (kc_builtin k) | None => true end.
Definition kmark_created (s : kstate) (r : kclsref) : kstate :=
  kcset s r (fun k => mkKC (kc_pybases k) (kc_declared k) (kc_inherit k) (kc_bases k) (kc_provides k) (kc_meta k) (kc_builtin k) true (kc_old k)).
Definition p_store_dict (s : kstate) (r : kclsref) (spec : node) : kstate := kmark_created s r.
Definition p_table_set (s : kstate) (r : kclsref) (spec : node) : kstate := kmark_created s r.
Definition p_hasattr_providedBy (s : kstate) (r : kclsref) : bool := false.
Definition p_install_osd (s : kstate) (r : kclsref) : kstate := s.
Definition p_as_object (r : kclsref) : target := match r with RClass c => TCls c | _ => TCls 0 end.
