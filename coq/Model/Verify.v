(* Model of zope/interface/verify.py (_verify, _verify_element) and of the signature arithmetic
   of zope/interface/interface.py (fromFunction, fromMethod).  Executable definitions only.
   The arity kernel [_incompat] is NOT written here: it is a parameter, instantiated in
   Proofs/Verify.v, Properties/C17.v and Tie/C17.v by Gen/Incompat.v, which is regenerated
   from verify.py on every run (harness/translate/incompat.py). *)
From Coq Require Import List Arith Bool.
Import ListNotations.
From ZI Require Export Spec.Binds.

(* zope.interface.exceptions *)
Inductive err :=
| EDoesNotImplement                          (* DoesNotImplement(iface, candidate) *)
| EBrokenImplementation (name : nat)         (* BrokenImplementation(iface, desc, candidate) *)
| EBrokenMethod (name : nat) (msg : nat)     (* BrokenMethodImplementation(desc, <message msg of _incompat>, ...) *)
| ENotAMethod (name : nat).                  (* BrokenMethodImplementation(desc, "implementation is not a method", ...) *)

Definition err_class (e : err) : fclass :=
  match e with
  | EDoesNotImplement => FDoesNotImplement
  | EBrokenImplementation n => FBrokenImplementation n
  | EBrokenMethod n _ => FBrokenMethod n
  | ENotAMethod n => FBrokenMethod n
  end.

Definition err_eqb (a b : err) : bool :=
  match a, b with
  | EDoesNotImplement, EDoesNotImplement => true
  | EBrokenImplementation n, EBrokenImplementation m => Nat.eqb n m
  | EBrokenMethod n x, EBrokenMethod m y => Nat.eqb n m && Nat.eqb x y
  | ENotAMethod n, ENotAMethod m => Nat.eqb n m
  | _, _ => false
  end.

(* result of verifyObject / verifyClass: True, one Invalid raised alone, MultipleInvalid *)
Inductive outcome :=
| Ok
| Single (e : err)
| Multiple (es : list err).

(* interface.py:fromFunction(func, imlevel): for a raw def with [npos raw] positional
   parameters of which [npos raw - req raw] have defaults:
       if imlevel > code.co_argcount: imlevel = code.co_argcount   (instance taken by *args)
       na = code.co_argcount - imlevel
       nr = na - len(defaults);  if nr < 0: nr = 0
       positional = names[:na]; required = names[:nr]; varargs / kwargs from co_flags
   (truncated subtraction on nat is the clamp of nr at 0). *)
Definition from_function (raw : sig) (imlevel : nat) : sig :=
  let imlevel := Nat.min imlevel (npos raw) in
  let na := npos raw - imlevel in
  let ndefaults := npos raw - req raw in
  let nr := na - ndefaults in
  mkSig nr na (varargs raw) (kwargs raw).

(* interface.py:fromMethod *)
Definition from_method (raw : sig) : sig := from_function raw 1.

Section Verify.
  (* verify.py:_incompat(required, implemented): index of the message, None = compatible *)
  Variable incompat : sig -> sig -> option nat.

  Definition check_sigs (n : nat) (required implemented : sig) : option err :=
    match incompat required implemented with
    | Some m => Some (EBrokenMethod n m)
    | None => None
    end.

  (* verify.py:_verify_element(iface, name, desc, candidate, vtype); None = returns normally *)
  Definition verify_element (vt : vtype) (cand_is_type : bool) (e : elem) : option err :=
    let '(n, d, a) := e in
    match a with
    | VMissing =>
        (* except AttributeError: non-methods cannot be checked on classes *)
        match d, vt with
        | DAttr, VClass => None
        | _, _ => Some (EBrokenImplementation n)
        end
    | _ =>
        match d with
        | DAttr => None                          (* not isinstance(desc, Method) *)
        | DMethod required =>
            match a with
            | VMissing => None                   (* handled above *)
            | VBuiltin => None                   (* ismethoddescriptor / isbuiltin *)
            | VFunction raw =>
                (* isinstance(candidate, type) and vtype == 'c'  ->  imlevel=1 *)
                let imlevel := match vt with VClass => if cand_is_type then 1 else 0 | VObject => 0 end in
                check_sigs n required (from_function raw imlevel)
            | VMethod raw => check_sigs n required (from_method raw)
            | VProperty =>
                match vt with
                | VClass => None                 (* isinstance(attr, property) and vtype == 'c' *)
                | VObject => Some (ENotAMethod n)   (* falls to 'not callable(attr)' *)
                end
            | VCallable => None                  (* callable, cannot introspect: pass *)
            | VOther => Some (ENotAMethod n)
            end
        end
    end.

  (* the list excs of _verify *)
  Definition verify_errors (vt : vtype) (tentative declares cand_is_type : bool) (elems : list elem)
    : list err :=
    (if negb tentative && negb declares then [EDoesNotImplement] else [])
    ++ filter_map (verify_element vt cand_is_type) elems.

  (* verify.py:_verify; [declares] = tester(candidate), [elems] in the order of
     iface.namesAndDescriptions(all=True) *)
  Definition verify (vt : vtype) (tentative declares cand_is_type : bool) (elems : list elem) : outcome :=
    match verify_errors vt tentative declares cand_is_type elems with
    | [] => Ok
    | [e] => Single e
    | es => Multiple es
    end.
End Verify.

(* ---- vocabulary for the GENERATED transcription (Gen/VerifyKernel.v) ----
   harness/translate/verify_kernel.py re-derives _verify / _verify_element / verifyClass /
   verifyObject / fromMethod from the source text; every Python test on an object becomes one of
   the predicates below, whose value on the candidate description is what this framework means
   by the description (validated on every run: the driver classifies the real attribute with
   the same Python tests and the harness aborts on a mismatch). *)

Definition vtype_is_c (vt : vtype) : bool := match vt with VClass => true | VObject => false end.     (* vtype == 'c' *)
Definition vtype_is_o (vt : vtype) : bool := match vt with VClass => false | VObject => true end.     (* vtype == 'o' *)
Definition desc_is_method (d : desc) : bool := match d with DMethod _ => true | DAttr => false end.   (* isinstance(desc, Method) *)
Definition desc_sig (d : desc) : sig :=                                                               (* desc.getSignatureInfo() *)
  match d with DMethod s => s | DAttr => mkSig 0 0 false false end.
Definition getattr_raises (a : attr_val) : bool := match a with VMissing => true | _ => false end.    (* getattr(...) raises AttributeError *)
Definition attr_ismethoddescriptor (a : attr_val) : bool := match a with VBuiltin => true | _ => false end.
Definition attr_isbuiltin (a : attr_val) : bool := match a with VBuiltin => true | _ => false end.
Definition attr_is_FunctionType (a : attr_val) : bool := match a with VFunction _ => true | _ => false end.
Definition attr_is_MethodTypes (a : attr_val) : bool := match a with VMethod _ => true | _ => false end.
Definition attr_func_is_FunctionType (a : attr_val) : bool := match a with VMethod _ => true | _ => false end.  (* type(attr.__func__) is FunctionType *)
Definition attr_is_property (a : attr_val) : bool := match a with VProperty => true | _ => false end.
Definition attr_callable (a : attr_val) : bool :=
  match a with VFunction _ | VMethod _ | VBuiltin | VCallable => true | VMissing | VProperty | VOther => false end.
Definition attr_raw (a : attr_val) : sig :=                                                            (* the def behind attr / attr.__func__ *)
  match a with VFunction raw | VMethod raw => raw | _ => mkSig 0 0 false false end.

(*   for name, desc in iface.namesAndDescriptions(all=True):
         try: f(name, desc)  except Invalid as e: excs.append(e)            *)
Definition collect (f : elem -> option err) (elems : list elem) (excs : list err) : list err :=
  fold_left (fun acc e => match f e with Some x => acc ++ [x] | None => acc end) elems excs.

Definition is_nil {A} (l : list A) : bool := match l with [] => true | _ => false end.
(* excs[0] of a list known to be non-empty *)
Definition first_err (l : list err) : err := hd EDoesNotImplement l.
