(* Attribute / tagged-value / invariant resolution of interfaces (property C15).
   Transcription of src/zope/interface/interface.py:
     Element.{queryDirectTaggedValue,getDirectTaggedValueTags,setTaggedValue}
     Specification.get (with the _v_attrs memo), Specification.changed (memo clearing)
     InterfaceClass.{names,__iter__,namesAndDescriptions,getDescriptionFor/__getitem__,
                     __contains__,direct,queryDescriptionFor,validateInvariants,
                     queryTaggedValue,getTaggedValue,getTaggedValueTags}
   Executable definitions only.

   Interfaces are numbered [nat]; node 0 is [Interface] (the root).  Every node is an
   interface, so __iro__ = __sro__.  Names, tags, descriptions, values and invariants are
   numbers too (a description's number is its identity).
   Python dicts are insertion-ordered association lists with unique keys. *)
From Coq Require Import List Arith Bool.
Import ListNotations.
From ZI Require Import Model.Ro.

Definition name := nat.
Definition desc := nat.
Definition tag := nat.
Definition root : node := 0.

(* ---- dict *)
Fixpoint dget {V} (d : list (nat * V)) (k : nat) : option V :=
  match d with
  | [] => None
  | (k', v) :: d' => if Nat.eqb k k' then Some v else dget d' k
  end.

(* d[k] = v : overwrite in place, else append *)
Fixpoint dset {V} (d : list (nat * V)) (k : nat) (v : V) : list (nat * V) :=
  match d with
  | [] => [(k, v)]
  | (k', v') :: d' => if Nat.eqb k k' then (k', v) :: d' else (k', v') :: dset d' k v
  end.

(* d.update(items) *)
Definition dupdate {V} (d items : list (nat * V)) : list (nat * V) :=
  fold_left (fun r kv => dset r (fst kv) (snd kv)) items d.

(* dict(items) *)
Definition dict_of {V} (items : list (nat * V)) : list (nat * V) := dupdate [] items.

Definition dkeys {V} (d : list (nat * V)) : list nat := map fst d.

(* a set / key-only dict: add when absent *)
Definition kadd (r : list nat) (k : nat) : list nat := if mem k r then r else r ++ [k].
Definition kupdate (r ks : list nat) : list nat := fold_left kadd ks r.

(* ---- tagged values: plain value, the list kept under the tag 'invariants' (tag 0), or the
   Python value None -- which is a DEFINED value (it shadows inherited ones; absence is the
   [None] of [option tval], tested in the code with the private _marker sentinel) *)
Inductive tval := TV (v : nat) | TInvs (l : list nat) | TNone.
Definition invariants_tag : tag := 0.

(* ---- world (never changes: __attrs is private and written once by __init__) and state *)
Record world := mkWorld {
  w_fuel : nat;                                  (* recursion bound (> depth of the DAG) *)
  w_attrs : node -> list (name * desc)           (* InterfaceClass.__attrs *)
}.

Record state := mkState {
  st_graph : graph;                              (* __bases__ *)
  st_iro : node -> list node;                    (* cached __iro__ *)
  st_memo : node -> option (list (name * desc)); (* _v_attrs : None or a dict *)
  st_tags : node -> list (tag * tval)            (* Element.__tagged_values *)
}.

Definition iro_fresh (fuel : nat) (g : graph) (x : node) : list node := fresh_sro fuel root g x.

Definition init (w : world) (g : graph) (tg : node -> list (tag * tval)) : state :=
  mkState g (iro_fresh (w_fuel w) g) (fun _ => None) tg.

(* ---- InterfaceClass.direct *)
Definition direct (w : world) (i : node) (n : name) : option desc := dget (w_attrs w i) n.

(* the loop of Specification.get: first interface of the order with a direct definition *)
Fixpoint first_direct (w : world) (iro : list node) (n : name) : option desc :=
  match iro with
  | [] => None
  | i :: r => match direct w i n with Some d => Some d | None => first_direct w r n end
  end.

Definition set_memo (s : state) (x : node) (m : option (list (name * desc))) : state :=
  mkState (st_graph s) (st_iro s)
          (fun y => if Nat.eqb y x then m else st_memo s y) (st_tags s).

(* Specification.get(name) -> (result (None = default), new state) *)
Definition get (w : world) (s : state) (x : node) (n : name) : option desc * state :=
  let attrs := match st_memo s x with None => [] | Some m => m end in   (* _v_attrs = {} *)
  match dget attrs n with
  | Some d => (Some d, set_memo s x (Some attrs))
  | None =>
      match first_direct w (st_iro s x) n with
      | Some d => (Some d, set_memo s x (Some (dset attrs n d)))        (* attrs[name] = attr *)
      | None => (None, set_memo s x (Some attrs))
      end
  end.

(* get without the memo, on the cached order *)
Definition get_nomemo (w : world) (s : state) (x : node) (n : name) : option desc :=
  first_direct w (st_iro s x) n.

(* getDescriptionFor / __getitem__ : None stands for KeyError *)
Definition getitem := get.
(* queryDescriptionFor(name) *)
Definition query_description_for := get.
(* __contains__ *)
Definition contains (w : world) (s : state) (x : node) (n : name) : bool * state :=
  let '(r, s') := get w s x n in (match r with Some _ => true | None => false end, s').

(* names(all=False) *)
Definition names_direct (w : world) (x : node) : list name := dkeys (w_attrs w x).

(* names(all=True): r = attrs.copy(); for base in __bases__: r.update(fromkeys(base.names(all))) *)
Fixpoint names_all (w : world) (fuel : nat) (g : graph) (x : node) : list name :=
  match fuel with
  | 0 => names_direct w x
  | S f => fold_left (fun r b => kupdate r (names_all w f g b)) (bases g x) (names_direct w x)
  end.

(* __iter__ = iter(self.names(all=True)) *)
Definition iter (w : world) (s : state) (x : node) : list name :=
  names_all w (w_fuel w) (st_graph s) x.

(* namesAndDescriptions(all=True):
     r = {}; for iface in __iro__[::-1]: r.update(dict(iface.namesAndDescriptions())) *)
Definition nad_all (w : world) (s : state) (x : node) : list (name * desc) :=
  fold_left (fun r i => dupdate r (dict_of (w_attrs w i))) (rev (st_iro s x)) [].

(* the version before the fix (historical; only used by an Example):
     r = {}; for base in __bases__[::-1]: r.update(dict(base.namesAndDescriptions(all)))
     r.update(self.__attrs) *)
Fixpoint nad_all_bases (w : world) (fuel : nat) (g : graph) (x : node) : list (name * desc) :=
  match fuel with
  | 0 => w_attrs w x
  | S f => dupdate (fold_left (fun r b => dupdate r (dict_of (nad_all_bases w f g b)))
                              (rev (bases g x)) [])
                   (w_attrs w x)
  end.

(* ---- tagged values *)
Definition query_direct_tag (s : state) (i : node) (t : tag) : option tval := dget (st_tags s i) t.
Definition direct_tags (s : state) (i : node) : list tag := dkeys (st_tags s i).

Fixpoint first_tag (s : state) (iro : list node) (t : tag) : option tval :=
  match iro with
  | [] => None
  | i :: r => match query_direct_tag s i t with Some v => Some v | None => first_tag s r t end
  end.

(* queryTaggedValue(tag) (None = default); getTaggedValue(tag) (None = KeyError) *)
Definition query_tagged (s : state) (x : node) (t : tag) : option tval := first_tag s (st_iro s x) t.
Definition get_tagged := query_tagged.

(* getTaggedValueTags: keys = set(); for base in __iro__: keys.update(direct tags) *)
Definition tagged_tags (s : state) (x : node) : list tag :=
  fold_left (fun keys i => kupdate keys (direct_tags s i)) (st_iro s x) [].

(* setTaggedValue *)
Definition set_tag (s : state) (x : node) (t : tag) (v : tval) : state :=
  mkState (st_graph s) (st_iro s) (st_memo s)
          (fun y => if Nat.eqb y x then dset (st_tags s x) t v else st_tags s y).

(* ---- invariants: iface.queryDirectTaggedValue('invariants', ()) *)
Definition invs_of (s : state) (i : node) : list nat :=
  match query_direct_tag s i invariants_tag with Some (TInvs l) => l | _ => [] end.

(* the two nested loops of validateInvariants run over this flattened sequence *)
Definition all_invs (s : state) (x : node) : list nat := flat_map (invs_of s) (st_iro s x).

(* loop body: returns (invariants called, errors list afterwards, invariant whose Invalid
   propagated).  [fails] is the oracle: does invariant i raise Invalid on the object? *)
Fixpoint run_invs (fails : nat -> bool) (l : list nat) (errors : option (list nat))
  : list nat * option (list nat) * option nat :=
  match l with
  | [] => ([], errors, None)
  | i :: l' =>
      if fails i then
        match errors with
        | Some e => let '(r, e', x) := run_invs fails l' (Some (e ++ [i])) in (i :: r, e', x)
        | None => ([i], None, Some i)                                   (* raise *)
        end
      else let '(r, e', x) := run_invs fails l' errors in (i :: r, e', x)
  end.

Inductive vexc := VNoExc | VRaisedInv (i : nat) | VRaisedErrors (errs : list nat).

Record vres := mkVres { v_ran : list nat; v_errors : option (list nat); v_exc : vexc }.

(* validateInvariants(obj, errors) *)
Definition validate (fails : nat -> bool) (s : state) (x : node) (errors : option (list nat)) : vres :=
  let '(ran, errs, raised) := run_invs fails (all_invs s x) errors in
  match raised with
  | Some i => mkVres ran errs (VRaisedInv i)
  | None => match errs with
            | Some (e :: es) => mkVres ran errs (VRaisedErrors (e :: es))   (* if errors: raise Invalid(errors) *)
            | _ => mkVres ran errs VNoExc
            end
  end.

(* ---- rebasing: x.__bases__ = bs  ->  __setBases -> changed(x), which clears the memo and
   recomputes the order of x and, recursively, of every dependent.  The order in which the
   dependents are visited and that each ends up with the order of the new graph is property
   C02's subject; here every visited node gets the fresh order.  Which nodes ARE visited is
   modelled: exactly x and its transitive dependents (nodes that reach x along __bases__). *)
Fixpoint reachesb (fuel : nat) (g : graph) (y x : node) : bool :=
  match fuel with
  | 0 => Nat.eqb y x
  | S f => Nat.eqb y x || existsb (fun b => reachesb f g b x) (bases g y)
  end.

Definition gupdate (g : graph) (x : node) (bs : list node) : graph := (x, bs) :: g.

Definition set_bases (w : world) (s : state) (x : node) (bs : list node) : state :=
  let g' := gupdate (st_graph s) x bs in
  let visited := fun y => reachesb (w_fuel w) g' y x in
  mkState g'
          (fun y => if visited y then iro_fresh (w_fuel w) g' y else st_iro s y)
          (fun y => if visited y then None else st_memo s y)            (* _v_attrs = None *)
          (st_tags s).

(* ---- histories *)
Inductive op :=
| OSetBases (x : node) (bs : list node)
| OGet (x : node) (n : name)              (* any of get / [] / in / queryDescriptionFor *)
| OSetTag (x : node) (t : tag) (v : tval).

Definition step (w : world) (s : state) (o : op) : state :=
  match o with
  | OSetBases x bs => set_bases w s x bs
  | OGet x n => snd (get w s x n)
  | OSetTag x t v => set_tag s x t v
  end.

Definition run (w : world) (s : state) (ops : list op) : state := fold_left (step w) ops s.

(* the same, also returning what every OGet answered *)
Fixpoint run_obs (w : world) (s : state) (ops : list op) : list (option desc) * state :=
  match ops with
  | [] => ([], s)
  | OGet x n :: r => let '(a, s') := get w s x n in
                     let '(l, s'') := run_obs w s' r in (a :: l, s'')
  | o :: r => run_obs w (step w s o) r
  end.

(* every path from x is shorter than fuel (the DAG is acyclic below x and fuel suffices) *)
Fixpoint deep (fuel : nat) (g : graph) (x : node) : bool :=
  match fuel with
  | 0 => false
  | S f => forallb (deep f g) (bases g x)
  end.
