(* Resolution orders: transcription of src/zope/interface/ro.py and of
   Specification._calculate_sro (interface.py).  Executable definitions only.

   Specifications are numbered [nat]; a graph maps a node to its ordered base list.
   C3 compares by identity (``is``); identity is equality of numbers here.
   Checked line by line against ro.py / interface.py for property C03 (Proofs/Ro.v, Tie/C03.v);
   [find_next] is [find_from] on the whole list, [iro_of] / [wfb] / [nodup_b] were added. *)
From Coq Require Import List Arith Bool.
Import ListNotations.

Definition node := nat.
Definition graph := list (node * list node).

Fixpoint bases (g : graph) (x : node) : list node :=
  match g with
  | [] => []
  | (y, bs) :: g' => if Nat.eqb x y then bs else bases g' x
  end.

Fixpoint mem (x : node) (l : list node) : bool :=
  match l with [] => false | y :: l' => Nat.eqb x y || mem x l' end.

(* ---- legacy order: _legacy_flatten (DFS preorder with repeats) and
        _legacy_mergeOrderings on a single ordering (keep the LAST occurrence) *)
Fixpoint legacy_flatten (fuel : nat) (g : graph) (x : node) : list node :=
  match fuel with
  | 0 => [x]
  | S f => x :: flat_map (legacy_flatten f g) (bases g x)
  end.

Fixpoint keep_last (l : list node) : list node :=
  match l with
  | [] => []
  | x :: t => if mem x t then keep_last t else x :: keep_last t
  end.

Definition legacy_ro (fuel : nat) (g : graph) (x : node) : list node :=
  keep_last (legacy_flatten fuel g x).

(* ---- C3 merge as written in class C3 *)
Definition nonempty (s : list node) : bool := match s with [] => false | _ => true end.

(* C3._nonempty_bases_ignoring: remove [x] from EVERY position of every sequence *)
Definition remove_everywhere (x : node) (seqs : list (list node)) : list (list node) :=
  filter nonempty (map (filter (fun b => negb (Nat.eqb b x))) seqs).

(* C3._can_choose_base *)
Definition can_choose (base : node) (seqs : list (list node)) : bool :=
  forallb (fun s => match s with
                    | [] => true
                    | h :: _ => if Nat.eqb h base then true else negb (mem base s)
                    end) seqs.

(* C3._find_next_C3_base (sequences are non-empty when this is called): the first head,
   in sequence order, that can be chosen *)
Fixpoint find_from (cands seqs : list (list node)) : option node :=
  match cands with
  | [] => None
  | [] :: l' => find_from l' seqs
  | (h :: _) :: l' => if can_choose h seqs then Some h else find_from l' seqs
  end.

Definition find_next (seqs : list (list node)) : option node := find_from seqs seqs.

Inductive mres := MOk (l : list node) | MBad | MFuel.

(* C3._merge: [acc] is the reversed result *)
Fixpoint merge_loop (fuel : nat) (seqs : list (list node)) (acc : list node) : mres :=
  match fuel with
  | 0 => MFuel
  | S f =>
      match seqs with
      | [] => MOk (rev acc)
      | _ => match find_next seqs with
             | None => MBad
             | Some b => merge_loop f (remove_everywhere b seqs) (b :: acc)
             end
      end
  end.

Definition total_len (seqs : list (list node)) : nat := fold_right (fun s n => length s + n) 0 seqs.

Definition c3_merge (seqs : list (list node)) : mres :=
  let s := filter nonempty seqs in merge_loop (S (total_len s)) s [].

(* result of a resolver: raised (strict mode) / out of fuel / an order and had_inconsistency *)
Inductive rres := RRaise | RFuel | ROk (mro : list node) (had_inconsistency : bool).

(* one C3 object for leaf [x] whose bases' orders are known: C3.__init__ + mro() *)
Definition c3_node (strict : bool) (x : node) (bs : list node) (base_mros : list (list node))
           (bases_incons : bool) (legacy : list node) : rres :=
  match bs, base_mros with
  | [_], [m] => ROk (x :: m) bases_incons              (* single-base short cut *)
  | _, _ =>
      match c3_merge ([[x]] ++ base_mros ++ [bs]) with
      | MOk l => ROk l bases_incons
      | MBad => if strict then RRaise else ROk legacy true
      | MFuel => RFuel
      end
  end.

(* collect the bases' results: any raise / fuel exhaustion propagates *)
Fixpoint collect (rs : list rres) : (list (list node) * bool) + rres :=
  match rs with
  | [] => inl ([], false)
  | ROk m i :: rs' => match collect rs' with
                      | inl (ms, is) => inl (m :: ms, i || is)
                      | inr r => inr r
                      end
  | r :: _ => inr r
  end.

(* fully recursive resolver, as ro.ro(C) builds it (no static base orders) *)
Fixpoint resolve (strict : bool) (fuel : nat) (g : graph) (x : node) : rres :=
  match fuel with
  | 0 => RFuel
  | S f =>
      let bs := bases g x in
      match collect (map (resolve strict f g) bs) with
      | inl (ms, is) => c3_node strict x bs ms is (legacy_ro (S f) g x)
      | inr r => r
      end
  end.

(* ro.ro(C, strict, use_legacy_ro) *)
Definition ro (strict use_legacy : bool) (fuel : nat) (g : graph) (x : node) : rres :=
  match resolve strict fuel g x with
  | ROk m i => if use_legacy then ROk (legacy_ro fuel g x) i else ROk m i
  | r => r
  end.

(* ro.is_consistent(C) *)
Definition is_consistent (fuel : nat) (g : graph) (x : node) : option bool :=
  match resolve false fuel g x with
  | ROk _ i => Some (negb i)
  | _ => None
  end.

(* ---- Specification._calculate_sro: bases' orders are their CACHED __sro__ (static,
   had_inconsistency unknown = false), then Interface (the root) is forced last. *)
Definition last_is (root : node) (l : list node) : bool :=
  match rev l with y :: _ => Nat.eqb y root | [] => false end.

Definition root_last (root : node) (sro : list node) : list node :=
  match sro with
  | [] => []
  | _ => if last_is root sro then sro
         else filter (fun y => negb (Nat.eqb y root)) sro ++ [root]
  end.

Definition calc_sro (strict : bool) (root : node) (fuel : nat) (g : graph)
           (cached : node -> list node) (x : node) : rres :=
  if Nat.eqb x root then ROk [root] false      (* Interface._calculate_sro = lambda: (Interface,) *)
  else
    let bs := bases g x in
    match c3_node strict x bs (map cached bs) false (legacy_ro fuel g x) with
    | ROk m i => ROk (root_last root m) i
    | r => r
    end.

(* the order a freshly built graph would have: every base computed first *)
Fixpoint fresh_sro (fuel : nat) (root : node) (g : graph) (x : node) : list node :=
  match fuel with
  | 0 => []
  | S f =>
      match calc_sro false root (S f) g (fresh_sro f root g) x with
      | ROk m _ => m
      | _ => []
      end
  end.

(* ---- Specification.changed (interface.py): __iro__ keeps the interfaces of __sro__ *)
Definition iro_of (is_iface : node -> bool) (sro : list node) : list node := filter is_iface sro.

(* ---- well-formedness of a hierarchy, as a boolean: every base has a smaller rank (so the graph
   is acyclic; the real code recurses forever on a cycle) and no base list repeats an entry *)
Fixpoint nodup_b (l : list node) : bool :=
  match l with [] => true | x :: t => negb (mem x t) && nodup_b t end.

Definition wfb (rk : node -> nat) (g : graph) : bool :=
  forallb (fun e => nodup_b (snd e) && forallb (fun b => Nat.ltb (rk b) (rk (fst e))) (snd e)) g.
