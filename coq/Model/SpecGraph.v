(* C02 model: the specification graph with change propagation.

   Mirrors src/zope/interface/interface.py, class Specification:
     __init__            -> [new_spec]
     dependents / subscribe / unsubscribe (WeakKeyDictionary dependent -> count)
                         -> [dep_incr] / [dep_decr] / [dep_remove] on an association list kept in
                            dictionary (= insertion) order
     __setBases          -> [set_bases]  (unsubscribe from the old bases, store, subscribe to the
                            new ones, changed())
     _calculate_sro      -> Model.Ro.calc_sro (uses the bases' CACHED __sro__)
     changed             -> [recompute] (clear and refill _implied, set __sro__ / __iro__) then
                            [changed]: notify every dependent, recursively, depth first
     isOrExtends         -> [isOrExtends] (membership in _implied; the C twin SB_isOrExtends /
                            SB_extends in _zope_interface_coptimizations.c does the same dict lookup)
     extends(strict)     -> [extends]
     __sro__, __iro__    -> [get_sro], [get_iro]
   and the death of a weakly held dependent -> [drop].

   Specifications are numbered by creation order; node 0 is the root ``Interface``.
   Identity of numbers stands for the equality the real dictionaries use.  For interfaces that
   is equality of (__name__, __module__); the model ASSUMES those keys are unique among live
   interfaces (two live interfaces with an equal key collide in the weak dependents dict; that is
   recorded finding F10 and deliberately not modelled here).

   The order in which ``changed`` walks the dependents is the dictionary order in the code.  The
   model walks [reorder keys] where [reorder] is a parameter: the theorems hold for every
   [reorder] that keeps the same elements, the tie uses the identity (insertion order).

   Executable definitions only; no proofs in this file. *)
From Coq Require Import List Arith Bool.
Import ListNotations.
From ZI Require Import Model.Ro.

Definition root : node := 0.

Definition upd {A} (f : node -> A) (x : node) (v : A) : node -> A :=
  fun y => if Nat.eqb y x then v else f y.

(* ---- the _dependents dictionary of one specification: (dependent, count) in dict order *)
Definition deps_t := list (node * nat).

(* subscribe: self._dependents[d] = self.dependents.get(d, 0) + 1
   (an existing key keeps its position, a new key goes last) *)
Fixpoint dep_incr (d : node) (l : deps_t) : deps_t :=
  match l with
  | [] => [(d, 1)]
  | (y, n) :: l' => if Nat.eqb d y then (y, S n) :: l' else (y, n) :: dep_incr d l'
  end.

(* unsubscribe: n = self._dependents[d] - 1; delete the key when it reaches 0.
   (A missing key raises KeyError in the code; the model leaves the list alone.  The invariant
   dependents_complete shows the key is never missing.) *)
Fixpoint dep_decr (d : node) (l : deps_t) : deps_t :=
  match l with
  | [] => []
  | (y, n) :: l' =>
      if Nat.eqb d y then match n with S (S k) => (y, S k) :: l' | _ => l' end
      else (y, n) :: dep_decr d l'
  end.

(* the weak reference callback: the key disappears whatever its count *)
Definition dep_remove (d : node) (l : deps_t) : deps_t :=
  filter (fun p => negb (Nat.eqb (fst p) d)) l.

(* number of subscriptions of [d] recorded in [l] *)
Fixpoint dep_total (d : node) (l : deps_t) : nat :=
  match l with
  | [] => 0
  | (y, n) :: l' => (if Nat.eqb d y then n else 0) + dep_total d l'
  end.

Definition dep_keys (l : deps_t) : list node := map fst l.

(* ---- state of the world *)
Record state := mkState {
  live : list node;               (* live specifications, in creation order *)
  gr : graph;                     (* node -> __bases__ ; the newest binding of a node is first *)
  isif : node -> bool;            (* isinstance(node, InterfaceClass) *)
  sro : node -> list node;        (* cached __sro__ *)
  implied : node -> list node;    (* keys of _implied *)
  deps : node -> deps_t           (* _dependents *)
}.

(* only Interface exists: Interface.__sro__ = (Interface,) *)
Definition init : state :=
  mkState [root] [(root, [])] (fun x => Nat.eqb x root)
          (upd (fun _ => []) root [root]) (upd (fun _ => []) root [root]) (fun _ => []).

Definition fuel_of (g : graph) : nat := S (length g).

(* ancestors = self._calculate_sro(), non-strict mode (the default).  The fuel only bounds the
   legacy fallback's depth first walk; Proofs show it is enough and that no other result than
   ROk can come out. *)
Definition calc (g : graph) (cached : node -> list node) (x : node) : list node :=
  match calc_sro false root (fuel_of g) g cached x with
  | ROk m _ => m
  | _ => []
  end.

(* the part of ``changed`` before the notification loop *)
Definition recompute (x : node) (st : state) : state :=
  let a := calc (gr st) (sro st) x in
  mkState (live st) (gr st) (isif st) (upd (sro st) x a) (upd (implied st) x a) (deps st).

Section Propagation.
  Variable reorder : list node -> list node.

  (* Specification.changed: recompute, then
       for dependent in tuple(self._dependents.keys()): dependent.changed(originally_changed)
     [fuel] bounds the recursion depth (the real code recurses forever on a cycle). *)
  Fixpoint changed (fuel : nat) (x : node) (st : state) : state :=
    match fuel with
    | 0 => st
    | S f =>
        let st1 := recompute x st in
        fold_left (fun s d => changed f d s) (reorder (dep_keys (deps st1 x))) st1
    end.

  Definition unsubscribe (d b : node) (dp : node -> deps_t) : node -> deps_t :=
    upd dp b (dep_decr d (dp b)).
  Definition subscribe (d b : node) (dp : node -> deps_t) : node -> deps_t :=
    upd dp b (dep_incr d (dp b)).

  (* Specification.__setBases *)
  Definition set_bases (x : node) (bs : list node) (st : state) : state :=
    let dp1 := fold_left (fun dp b => unsubscribe x b dp) (bases (gr st) x) (deps st) in
    let dp2 := fold_left (fun dp b => subscribe x b dp) bs dp1 in
    let g' := (x, bs) :: gr st in
    changed (fuel_of g') x (mkState (live st) g' (isif st) (sro st) (implied st) dp2).

  (* Specification.__init__: empty _bases, _implied, __sro__; then self.__bases__ = bases *)
  Definition new_spec (x : node) (iface : bool) (bs : list node) (st : state) : state :=
    set_bases x bs
      (mkState (live st ++ [x]) (gr st) (upd (isif st) x iface)
               (upd (sro st) x []) (upd (implied st) x []) (deps st)).

  (* a specification with no live dependent is garbage collected: its weak keys vanish from
     the _dependents of its bases *)
  Definition drop (x : node) (st : state) : state :=
    mkState (filter (fun y => negb (Nat.eqb y x)) (live st)) ((x, []) :: gr st) (isif st)
            (sro st) (implied st)
            (fold_left (fun dp b => upd dp b (dep_remove x (dp b))) (bases (gr st) x) (deps st)).

  Inductive op :=
  | NewSpec (x : node) (iface : bool) (bs : list node)
  | SetBases (x : node) (bs : list node)
  | Drop (x : node).

  Definition step (st : state) (o : op) : state :=
    match o with
    | NewSpec x k bs => new_spec x k bs st
    | SetBases x bs => set_bases x bs st
    | Drop x => drop x st
    end.
End Propagation.

(* ---- well-formedness of an operation (boolean, checked per operation) *)
Fixpoint height (fuel : nat) (g : graph) (x : node) : nat :=
  match fuel with
  | 0 => 0
  | S f => S (fold_right (fun b m => Nat.max (height f g b) m) 0 (bases g x))
  end.

(* every base sits strictly lower than the node: the base graph has no cycle *)
Definition acyclicb (g : graph) : bool :=
  let n := length g in
  forallb (fun x => forallb (fun b => Nat.ltb (height n g b) (height n g x)) (bases g x))
          (map fst g).

Definition subset (l m : list node) : bool := forallb (fun x => mem x m) l.

(* the base graph after the operation *)
Definition next_graph (st : state) (o : op) : graph :=
  match o with
  | NewSpec x _ bs => (x, bs) :: gr st
  | SetBases x bs => (x, bs) :: gr st
  | Drop x => (x, []) :: gr st
  end.

(* new specifications are fresh, bases are live, the root is never rebased, only leaves die *)
Definition shape_ok (st : state) (o : op) : bool :=
  match o with
  | NewSpec x _ bs => negb (mem x (map fst (gr st))) && subset bs (live st)
  | SetBases x bs => mem x (live st) && negb (Nat.eqb x root) && subset bs (live st)
  | Drop x =>
      mem x (live st) && negb (Nat.eqb x root)
      && forallb (fun y => negb (mem x (bases (gr st) y))) (live st)
  end.

Definition op_ok (st : state) (o : op) : bool := shape_ok st o && acyclicb (next_graph st o).

Fixpoint hist_ok (reorder : list node -> list node) (st : state) (ops : list op) : bool :=
  match ops with
  | [] => true
  | o :: r => op_ok st o && hist_ok reorder (step reorder st o) r
  end.

(* ---- queries *)
Definition isOrExtends (st : state) (s t : node) : bool := mem t (implied st s).

(* (interface in self._implied) and ((not strict) or (self != interface)) *)
Definition extends (st : state) (s t : node) (strict : bool) : bool :=
  mem t (implied st s) && (negb strict || negb (Nat.eqb s t)).

Definition get_sro (st : state) (s : node) : list node := sro st s.
Definition get_iro (st : state) (s : node) : list node := filter (isif st) (sro st s).
Definition get_bases (st : state) (s : node) : list node := bases (gr st) s.
