(* Components (component registry) bookkeeping: transcription of
   src/zope/interface/registry.py
     _UnhashableComponentCounter, _UtilityRegistrations (_cache, __cache_utility,
       __uncache_utility, _is_utility_subscribed, registerUtility, unregisterUtility)
     Components.__init__ / _init_registries / _init_registrations,
       registerUtility / unregisterUtility / registeredUtilities,
       registerAdapter / unregisterAdapter / registeredAdapters,
       registerSubscriptionAdapter / unregisterSubscriptionAdapter / registeredSubscriptionAdapters,
       registerHandler / unregisterHandler / registeredHandlers,
       queryUtility / getUtilitiesFor / getAllUtilitiesRegisteredFor / queryAdapter /
       queryMultiAdapter / getAdapters / subscribers / handle,
       rebuildUtilityRegistryFromLocalCache(rebuild=False)
   on top of Model/Adapter.v (the two AdapterRegistry objects ``utilities`` and ``adapters``).

   Abstractions (trusted base, validated by the correspondence):
   * components / factories are [value]s: identity [vid], equality class [veq] (Python ``is`` /
     ``==``), plus [hashable] (a Section variable: ``hash(component)`` raises TypeError or not);
   * names and info strings are numbers (0 = '');
   * ``provided=`` / ``required=`` / ``name=`` are always passed explicitly (no inference from
     ``@implementer`` / ``@adapter`` / ``__component_name__``), ``event=True``;
   * the lookup caches of the two registries are not modelled (their transparency is C05): the
     query methods are the uncached walkers of Model/Adapter.v; a Components has no bases;
   * the name stored with subscription / handler registrations is always '' (a non-empty name
     raises TypeError before anything happens) and is left out of the stored tuples;
   * _UtilityRegistrations._cache[provided]: (counter?, [(component, count)]) -- a defaultdict(int)
     keyed by hash+== (dict mode) or the list-based _UnhashableComponentCounter; entries with
     count 0 are not stored (reading a defaultdict creates them; they answer 0 either way);
     the key object kept by the dict / replaced by the counter on update is irrelevant (only ==
     is ever applied to it).
   Executable definitions only. *)
From Coq Require Import List Arith Bool.
Import ListNotations.
From ZI Require Import Model.Ro Model.Adapter.

Definition info := nat.

(* ---- vocabulary shared with Spec/Components.v *)

(* what registered*() list / what an event carries *)
Inductive regrec :=
| RU (p : spec) (n : name) (c : value) (i : info) (f : option nat)        (* UtilityRegistration *)
| RA (req : list spec) (p : spec) (n : name) (f : value) (i : info)       (* AdapterRegistration *)
| RS (req : list spec) (p : spec) (f : option value) (i : info)           (* SubscriptionRegistration *)
| RH (req : list spec) (f : option value) (i : info).                     (* HandlerRegistration *)

Inductive event := Registered (r : regrec) | Unregistered (r : regrec).

(* ROutside: "the call is outside the modelled argument space"; never produced by [cstep], only
   by the kernels regenerated from the source text (Gen/ComponentsKernel.v) *)
Inductive ret := RNone | RBool (b : bool) | RTypeError | ROutside
  | RDict (c : nat * nat * nat * nat).   (* what rebuildUtilityRegistryFromLocalCache returns *)

(* the eight mutators + re-__init__; [ev] is the ``event=`` argument of the register methods
   (False: the Registered event is not emitted; the state change is the same); [f : option nat] of RegUtility is the ``factory=`` argument
   (an identity; the component is what it returns) *)
Inductive cop :=
| RegUtility (c : value) (p : spec) (n : name) (i : info) (f : option nat) (ev : bool)
| UnregUtility (c : option value) (p : spec) (n : name)
| RegAdapter (f : value) (req : list (option spec)) (p : spec) (n : name) (i : info) (ev : bool)
| UnregAdapter (f : option value) (req : list (option spec)) (p : spec) (n : name)
| RegSub (f : value) (req : list (option spec)) (p : spec) (n : name) (i : info) (ev : bool)
| UnregSub (f : option value) (req : list (option spec)) (p : spec) (n : name)
| RegHandler (f : value) (req : list (option spec)) (n : name) (i : info) (ev : bool)
| UnregHandler (f : option value) (req : list (option spec)) (n : name)
| UtilityBoth (unreg : bool) (c : value) (p : spec) (n : name)   (* component AND factory= given: TypeError *)
| Reinit.

Definition pn_eqb (a b : spec * name) : bool := Nat.eqb (fst a) (fst b) && Nat.eqb (snd a) (snd b).

(* ---- _UtilityRegistrations._cache *)
Definition centry := (bool * list (value * nat))%type.        (* true = _UnhashableComponentCounter *)
Definition ucache := list (spec * centry).

Definition cache_get (c : ucache) (p : spec) : centry :=
  match aget Nat.eqb c p with Some e => e | None => (false, []) end.

(* _UnhashableComponentCounter: __getitem__ : count of the first ==-equal key, 0 if none *)
Fixpoint cnt (l : list (value * nat)) (c : value) : nat :=
  match l with
  | [] => 0
  | (k, n) :: l' => if v_eq k c then n else cnt l' c
  end.

(* _UnhashableComponentCounter.__setitem__ : the pair is replaced by (component, count) *)
Fixpoint cnt_set (l : list (value * nat)) (c : value) (n : nat) : list (value * nat) :=
  match l with
  | [] => [(c, n)]
  | (k, m) :: l' => if v_eq k c then (c, n) :: l' else (k, m) :: cnt_set l' c n
  end.

(* _UnhashableComponentCounter.__delitem__ (the KeyError the source marks unreachable: no change) *)
Fixpoint cnt_del (l : list (value * nat)) (c : value) : list (value * nat) :=
  match l with
  | [] => []
  | (k, m) :: l' => if v_eq k c then l' else (k, m) :: cnt_del l' c
  end.

(* defaultdict(int) (Python dict semantics, hash consistent with ==): lookup by ==, an update
   keeps the key object that was inserted first *)
Definition dict_get := cnt.
Fixpoint dict_set (l : list (value * nat)) (c : value) (n : nat) : list (value * nat) :=
  match l with
  | [] => [(c, n)]
  | (k, m) :: l' => if v_eq k c then (k, n) :: l' else (k, m) :: dict_set l' c n
  end.
Definition dict_del := cnt_del.

(* one value of _cache, whichever class it has: e[c] (None = TypeError: unhashable key on a dict),
   e[c] = n, del e[c].  The counter's methods are parameters so that the kernels regenerated from
   the source text can plug in their own. *)
Section Entry.
  Variable c_get : list (value * nat) -> value -> nat.
  Variable c_set : list (value * nat) -> value -> nat -> list (value * nat).
  Variable c_del : list (value * nat) -> value -> list (value * nat).
  Variable hashable : value -> bool.
  Definition entry_getitem (e : centry) (c : value) : option nat :=
    let '(counter, l) := e in
    if counter then Some (c_get l c) else if hashable c then Some (dict_get l c) else None.
  Definition entry_setitem (e : centry) (c : value) (n : nat) : centry :=
    let '(counter, l) := e in (counter, if counter then c_set l c n else dict_set l c n).
  Definition entry_delitem (e : centry) (c : value) : centry :=
    let '(counter, l) := e in (counter, if counter then c_del l c else dict_del l c).
End Entry.
(* otherdict.items() of a cache value; self._cache[provided] = e *)
Definition entry_items (e : centry) : list (value * nat) := snd e.
Definition cache_set (c : ucache) (p : spec) (e : centry) : ucache := aset Nat.eqb c p e.

Record cstate := mkCS {
  c_utils : reg;                                                   (* self.utilities *)
  c_adapters : reg;                                                (* self.adapters *)
  c_ureg : list ((spec * name) * (value * info * option nat));     (* _utility_registrations *)
  c_areg : list (akey * (value * info));                           (* _adapter_registrations *)
  c_sreg : list (list spec * spec * value * info);                 (* _subscription_registrations *)
  c_hreg : list (list spec * value * info);                        (* _handler_registrations *)
  c_cache : ucache                                                 (* _v_utility_registrations_cache._cache *)
}.

(* field updates (used by the kernels regenerated from the source text) *)
Definition with_utils (st : cstate) (u : reg) : cstate :=
  mkCS u (c_adapters st) (c_ureg st) (c_areg st) (c_sreg st) (c_hreg st) (c_cache st).
Definition with_adapters (st : cstate) (a : reg) : cstate :=
  mkCS (c_utils st) a (c_ureg st) (c_areg st) (c_sreg st) (c_hreg st) (c_cache st).
Definition with_ureg (st : cstate) x : cstate :=
  mkCS (c_utils st) (c_adapters st) x (c_areg st) (c_sreg st) (c_hreg st) (c_cache st).
Definition with_areg (st : cstate) x : cstate :=
  mkCS (c_utils st) (c_adapters st) (c_ureg st) x (c_sreg st) (c_hreg st) (c_cache st).
Definition with_sreg (st : cstate) x : cstate :=
  mkCS (c_utils st) (c_adapters st) (c_ureg st) (c_areg st) x (c_hreg st) (c_cache st).
Definition with_hreg (st : cstate) x : cstate :=
  mkCS (c_utils st) (c_adapters st) (c_ureg st) (c_areg st) (c_sreg st) x (c_cache st).
Definition with_cache (st : cstate) x : cstate :=
  mkCS (c_utils st) (c_adapters st) (c_ureg st) (c_areg st) (c_sreg st) (c_hreg st) x.
(* an exception escaped / the call left the modelled space: the caller must propagate *)
Definition is_exc (r : ret) : bool := match r with RTypeError | ROutside => true | _ => false end.

(* ---- AdapterLookupBase.queryMultiAdapter / subscribers over a chain of registries (uncached):
   vocabulary of the query kernels regenerated from the source text.  Objects = (provided-by
   spec, object number). *)
Definition reg_queryMultiAdapter (W : world) (call : value -> list nat -> option nat) (regs : list reg)
           (os : list (spec * nat)) (p : spec) (n : name) : option nat :=
  match uncached_lookup W regs (map fst os) p n with
  | Some f => call f (map snd os)
  | None => None
  end.
Definition reg_subscribers (W : world) (call : value -> list nat -> option nat) (regs : list reg)
           (os : list (spec * nat)) (p : option spec) : list nat * list value :=
  let subs := uncached_subscriptions W regs (map fst os) p in
  (match p with
   | Some _ => flat_map (fun s => match call s (map snd os) with Some r => [r] | None => [] end) subs
   | None => []
   end, subs).

(* Components.__init__: fresh registries, fresh registrations, cache dropped (rebuilt lazily from
   the -- empty -- registrations) *)
Definition cinit : cstate := mkCS empty_reg empty_reg [] [] [] [] [].

Section Components.
  Variable W : world.
  Variable hashable : value -> bool.

  (* _is_utility_subscribed: TypeError (unhashable key on a plain dict) => False *)
  Definition is_subscribed (c : ucache) (p : spec) (comp : value) : bool :=
    let '(counter, l) := cache_get c p in
    if negb counter && negb (hashable comp) then false else Nat.ltb 0 (cnt l comp).

  (* __cache_utility: TypeError => switch to the counter, then += 1 *)
  Definition cache_utility (c : ucache) (p : spec) (comp : value) : ucache :=
    let '(counter, l) := cache_get c p in
    let counter' := counter || negb (hashable comp) in
    aset Nat.eqb c p (counter', if counter' then cnt_set l comp (S (cnt l comp))
                               else dict_set l comp (S (cnt l comp))).

  (* __uncache_utility: None = the TypeError the source comment calls impossible; otherwise the
     new cache and ``count > 0``.  (A count that is already 0 would become -1 in Python; here
     it stays 0 -- unreachable, see Proofs/Components.v cache_counts.) *)
  Definition uncache_utility (c : ucache) (p : spec) (comp : value) : option (ucache * bool) :=
    let '(counter, l) := cache_get c p in
    if negb counter && negb (hashable comp) then None
    else
      let count := cnt l comp - 1 in
      if Nat.eqb count 0 then Some (aset Nat.eqb c p (counter, cnt_del l comp), false)
      else Some (aset Nat.eqb c p (counter, if counter then cnt_set l comp count else dict_set l comp count), true).

  Definition set_utils (st : cstate) (u : reg) ureg cache : cstate :=
    mkCS u (c_adapters st) ureg (c_areg st) (c_sreg st) (c_hreg st) cache.

  (* _UtilityRegistrations.registerUtility *)
  Definition ur_register (st : cstate) (p : spec) (n : name) (c : value) (i : info) (f : option nat) : cstate :=
    let subscribed := is_subscribed (c_cache st) p c in
    let ureg' := aset pn_eqb (c_ureg st) (p, n) (c, i, f) in
    let u1 := register W (c_utils st) [] p n (Some c) in
    let u2 := if subscribed then u1 else subscribe W u1 [] (Some p) c in
    set_utils st u2 ureg' (cache_utility (c_cache st) p c).

  (* _UtilityRegistrations.unregisterUtility; None = TypeError out of __uncache_utility, after
     the registration and the registry entry are already gone *)
  Definition ur_unregister (st : cstate) (p : spec) (n : name) (c : value) : cstate * bool :=
    let ureg' := adel pn_eqb (c_ureg st) (p, n) in
    let u1 := unregister W (c_utils st) [] p n None in
    match uncache_utility (c_cache st) p c with
    | None => (set_utils st u1 ureg' (c_cache st), false)
    | Some (cache', still) =>
        let u2 := if still then u1 else unsubscribe W u1 [] (Some p) (Some c) in
        (set_utils st u2 ureg' cache', true)
    end.

  (* Components.unregisterUtility *)
  Definition unregisterUtility (st : cstate) (c : option value) (p : spec) (n : name)
    : cstate * ret * list event :=
    match aget pn_eqb (c_ureg st) (p, n) with
    | None => (st, RBool false, [])
    | Some (oc, oi, of) =>
        let go (comp : value) :=
          match ur_unregister st p n comp with
          | (st', true) => (st', RBool true, [Unregistered (RU p n comp oi of)])
          | (st', false) => (st', RTypeError, [])
          end in
        match c with
        | Some c' => if negb (v_eq c' oc) then (st, RBool false, []) else go c'
        | None => go oc
        end
    end.

  (* Components.registerUtility *)
  Definition announce (ev : bool) (r : regrec) : list event := if ev then [Registered r] else [].

  Definition registerUtility (st : cstate) (c : value) (p : spec) (n : name) (i : info) (f : option nat)
             (ev : bool) : cstate * ret * list event :=
    match aget pn_eqb (c_ureg st) (p, n) with
    | Some (oc, oi, _) =>
        if v_eq oc c && Nat.eqb oi i then (st, RNone, [])      (* reg[:2] == (component, info) *)
        else
          match unregisterUtility st (Some oc) p n with
          | (st1, RTypeError, ev1) => (st1, RTypeError, ev1)
          | (st1, _, ev1) => (ur_register st1 p n c i f, RNone, ev1 ++ announce ev (RU p n c i f))
          end
    | None => (ur_register st p n c i f, RNone, announce ev (RU p n c i f))
    end.

  (* _getAdapterRequired with an explicit ``required``: None -> Interface *)
  Definition conv_req (req : list (option spec)) : list spec := map conv req.

  Definition set_adapters (st : cstate) (a : reg) areg sreg hreg : cstate :=
    mkCS (c_utils st) a (c_ureg st) areg sreg hreg (c_cache st).

  Definition registerAdapter (st : cstate) (f : value) (req : list (option spec)) (p : spec) (n : name)
             (i : info) (ev : bool) : cstate * ret * list event :=
    let r := conv_req req in
    (set_adapters st (register W (c_adapters st) (map Some r) p n (Some f))
                  (aset akey_eqb (c_areg st) (r, p, n) (f, i)) (c_sreg st) (c_hreg st),
     RNone, announce ev (RA r p n f i)).

  Definition unregisterAdapter (st : cstate) (f : option value) (req : list (option spec)) (p : spec)
             (n : name) : cstate * ret * list event :=
    let r := conv_req req in
    match aget akey_eqb (c_areg st) (r, p, n) with
    | None => (st, RBool false, [])
    | Some (of, oi) =>
        if match f with Some f' => negb (v_eq f' of) | None => false end then (st, RBool false, [])
        else (set_adapters st (unregister W (c_adapters st) (map Some r) p n None)
                           (adel akey_eqb (c_areg st) (r, p, n)) (c_sreg st) (c_hreg st),
              RBool true, [Unregistered (RA r p n of oi)])
    end.

  Definition registerSub (st : cstate) (f : value) (req : list (option spec)) (p : spec) (n : name)
             (i : info) (ev : bool) : cstate * ret * list event :=
    if negb (Nat.eqb n 0) then (st, RTypeError, [])
    else
      let r := conv_req req in
      (set_adapters st (subscribe W (c_adapters st) (map Some r) (Some p) f)
                    (c_areg st) (c_sreg st ++ [(r, p, f, i)]) (c_hreg st),
       RNone, announce ev (RS r p (Some f) i)).

  Definition fac_match (f : option value) (stored : value) : bool :=
    match f with None => true | Some f' => v_eq stored f' end.

  Definition sub_match (f : option value) (r : list spec) (p : spec) (e : list spec * spec * value * info) : bool :=
    let '(r', p', f', _) := e in lspec_eqb r' r && Nat.eqb p' p && fac_match f f'.

  Definition unregisterSub (st : cstate) (f : option value) (req : list (option spec)) (p : spec)
             (n : name) : cstate * ret * list event :=
    if negb (Nat.eqb n 0) then (st, RTypeError, [])
    else
      let r := conv_req req in
      let new := filter (fun e => negb (sub_match f r p e)) (c_sreg st) in
      if Nat.eqb (length new) (length (c_sreg st)) then (st, RBool false, [])
      else (set_adapters st (unsubscribe W (c_adapters st) (map Some r) (Some p) f)
                         (c_areg st) new (c_hreg st),
            RBool true, [Unregistered (RS r p f 0)]).

  Definition registerHandler (st : cstate) (f : value) (req : list (option spec)) (n : name) (i : info)
             (ev : bool) : cstate * ret * list event :=
    if negb (Nat.eqb n 0) then (st, RTypeError, [])
    else
      let r := conv_req req in
      (set_adapters st (subscribe W (c_adapters st) (map Some r) None f)
                    (c_areg st) (c_sreg st) (c_hreg st ++ [(r, f, i)]),
       RNone, announce ev (RH r (Some f) i)).

  Definition hnd_match (f : option value) (r : list spec) (e : list spec * value * info) : bool :=
    let '(r', f', _) := e in lspec_eqb r' r && fac_match f f'.

  Definition unregisterHandler (st : cstate) (f : option value) (req : list (option spec)) (n : name)
    : cstate * ret * list event :=
    if negb (Nat.eqb n 0) then (st, RTypeError, [])
    else
      let r := conv_req req in
      let new := filter (fun e => negb (hnd_match f r e)) (c_hreg st) in
      if Nat.eqb (length new) (length (c_hreg st)) then (st, RBool false, [])
      else (set_adapters st (unsubscribe W (c_adapters st) (map Some r) None f)
                         (c_areg st) (c_sreg st) new,
            RBool true, [Unregistered (RH r f 0)]).

  Definition cstep (st : cstate) (o : cop) : cstate * ret * list event :=
    match o with
    | RegUtility c p n i f ev => registerUtility st c p n i f ev
    | UnregUtility c p n => unregisterUtility st c p n
    | RegAdapter f req p n i ev => registerAdapter st f req p n i ev
    | UnregAdapter f req p n => unregisterAdapter st f req p n
    | RegSub f req p n i ev => registerSub st f req p n i ev
    | UnregSub f req p n => unregisterSub st f req p n
    | RegHandler f req n i ev => registerHandler st f req n i ev
    | UnregHandler f req n => unregisterHandler st f req n
    | UtilityBoth _ _ _ _ => (st, RTypeError, [])       (* "Can't specify factory and component." *)
    | Reinit => (cinit, RNone, [])
    end.

  Definition st_of (x : cstate * ret * list event) : cstate := fst (fst x).
  Definition ret_of (x : cstate * ret * list event) : ret := snd (fst x).
  Definition evs_of (x : cstate * ret * list event) : list event := snd x.

  Definition final (ops : list cop) : cstate := fold_left (fun s o => st_of (cstep s o)) ops cinit.

  (* ---- registered*() *)
  Definition registeredUtilities (st : cstate) : list regrec :=
    map (fun kv => let '((p, n), (c, i, f)) := kv in RU p n c i f) (c_ureg st).
  Definition registeredAdapters (st : cstate) : list regrec :=
    map (fun kv => let '((r, p, n), (f, i)) := kv in RA r p n f i) (c_areg st).
  Definition registeredSubscriptionAdapters (st : cstate) : list regrec :=
    map (fun e => let '(r, p, f, i) := e in RS r p (Some f) i) (c_sreg st).
  Definition registeredHandlers (st : cstate) : list regrec :=
    map (fun e => let '(r, f, i) := e in RH r (Some f) i) (c_hreg st).

  (* ---- rebuildUtilityRegistryFromLocalCache(rebuild=False):
     (needed_registered, did_not_register, needed_subscribed, did_not_subscribe) *)
  Definition probe (st : cstate) : nat * nat * nat * nat :=
    fold_left (fun acc kv =>
                 let '(nr, dr, ns, ds) := acc in
                 let '((p, n), (v, _, _)) := kv in
                 let ok_reg := match registered (c_utils st) [] p n with
                               | Some v' => v_eq v' v          (* not (registered != value) *)
                               | None => false
                               end in
                 let ok_sub := subscribed (c_utils st) [] (Some p) v in
                 ((if ok_reg then nr else S nr), (if ok_reg then S dr else dr),
                  (if ok_sub then ns else S ns), (if ok_sub then S ds else ds)))
              (c_ureg st) (0, 0, 0, 0).

  (* ---- rebuildUtilityRegistryFromLocalCache(rebuild): the general form.  While it runs,
     ``utils.changed`` is a no-op (no invalidation, no generation bump); one real changed() at the
     end if anything was repaired.  [set_gen] restores / bumps the generation accordingly (the
     lookup caches are not modelled). *)
  Definition set_gen (u : reg) (g : nat) : reg :=
    mkReg (adapters u) (Adapter.subscribers u) (provided_cnt u) (extendors u) g.

  Definition rebuild_loop (rebuild : bool) (u0 : reg) (regs : list ((spec * name) * (value * info * option nat)))
    : reg * (nat * nat * nat * nat) :=
    fold_left (fun acc kv =>
                 let '(u, (nr, dr, ns, ds)) := acc in
                 let '((p, n), (v, _, _)) := kv in
                 let ok_reg := match registered u [] p n with Some v' => v_eq v' v | None => false end in
                 let u1 := if ok_reg then u else if rebuild then register W u [] p n (Some v) else u in
                 let ok_sub := subscribed u1 [] (Some p) v in
                 let u2 := if ok_sub then u1 else if rebuild then subscribe W u1 [] (Some p) v else u1 in
                 (u2, ((if ok_reg then nr else S nr), (if ok_reg then S dr else dr),
                       (if ok_sub then ns else S ns), (if ok_sub then S ds else ds))))
              regs (u0, (0, 0, 0, 0)).

  Definition rebuildUtilityRegistry (rebuild : bool) (st : cstate) : cstate * (nat * nat * nat * nat) :=
    let '(u, (nr, dr, ns, ds)) := rebuild_loop rebuild (c_utils st) (c_ureg st) in
    let g0 := generation (c_utils st) in
    let u' := set_gen u (if rebuild && (negb (Nat.eqb ns 0) || negb (Nat.eqb nr 0)) then S g0 else g0) in
    (with_utils st u', (nr, dr, ns, ds)).

  (* ---- query methods (uncached walkers over the single registry; no bases) *)
  Variable call : value -> list nat -> option nat.

  Definition queryUtility (st : cstate) (p : spec) (n : name) : option value :=
    uncached_lookup W [c_utils st] [] p n.
  Definition getUtilitiesFor (st : cstate) (p : spec) : list (name * value) :=
    uncached_lookupAll W [c_utils st] [] p.
  Definition getAllUtilitiesRegisteredFor (st : cstate) (p : spec) : list value :=
    uncached_subscriptions W [c_utils st] [] (Some p).

  (* objects: (provided-by spec, object number) *)
  Definition cobj := (spec * nat)%type.

  (* queryAdapter / queryMultiAdapter: factory(objects...); a None result is the default *)
  Definition queryMultiAdapter (st : cstate) (os : list cobj) (p : spec) (n : name) : option nat :=
    match uncached_lookup W [c_adapters st] (map fst os) p n with
    | Some f => call f (map snd os)
    | None => None
    end.
  Definition queryAdapter (st : cstate) (o : cobj) (p : spec) (n : name) : option nat :=
    queryMultiAdapter st [o] p n.

  Definition getAdapters (st : cstate) (os : list cobj) (p : spec) : list (name * nat) :=
    flat_map (fun nf => match call (snd nf) (map snd os) with Some r => [(fst nf, r)] | None => [] end)
             (uncached_lookupAll W [c_adapters st] (map fst os) p).

  (* subscribers(objects, provided): (results that are not None, factories called in order) *)
  Definition subscribersOf (st : cstate) (os : list cobj) (p : spec) : list nat * list value :=
    let subs := uncached_subscriptions W [c_adapters st] (map fst os) (Some p) in
    (flat_map (fun s => match call s (map snd os) with Some r => [r] | None => [] end) subs, subs).

  (* handle(objects...): the handlers called, in order *)
  Definition handle (st : cstate) (os : list cobj) : list value :=
    uncached_subscriptions W [c_adapters st] (map fst os) None.
End Components.
