(* Hand-written vocabulary for the kernel that harness/translate/specgraph.py regenerates from
   the text of class Specification (interface.py) into coq/Gen/SpecGraphKernel.v.

   Everything here is the TRUSTED reading of a Python primitive over the state of
   Model/SpecGraph.v; the control flow, the order of the statements and which primitive is
   applied to what come from the source text.

     dictionary dependent -> count  (WeakKeyDictionary backed by an insertion ordered dict):
         d.get(k, default)   dict_get      d[k]              dict_find (None = KeyError)
         d[k] = v            dict_set      (an existing key keeps its position, a new key is last)
         del d[k]            dict_del      d.keys()          dict_keys
         truth value         dict_nonempty
     _implied is only ever tested for membership, so it is read as the list of inserted keys:
         implied.clear()     []            implied[k] = ()   keyset_add
         k in implied        mem
     attribute writes       set_deps / set_sro / set_implied / set_bases_field; __iro__ is not
                            stored by the model (it is derived from __sro__): set_iro is a no-op
     self._do_calculate_ro(base_mros={b: b.__sro__ ...})   do_calculate_ro: ro.ro(C, base_mros=...)
                            non-strict, i.e. Model.Ro.c3_node over the given static base orders
                            (the C3 kernel itself is property C03's subject)
   No proofs in this file. *)
From Coq Require Import List Arith Bool.
Import ListNotations.
From ZI Require Import Model.Ro Model.SpecGraph.

Fixpoint dict_find (k : node) (l : deps_t) : option nat :=
  match l with
  | [] => None
  | (y, n) :: l' => if Nat.eqb k y then Some n else dict_find k l'
  end.

Definition dict_get (k : node) (l : deps_t) (default : nat) : nat :=
  match dict_find k l with Some n => n | None => default end.

Fixpoint dict_set (k : node) (v : nat) (l : deps_t) : deps_t :=
  match l with
  | [] => [(k, v)]
  | (y, n) :: l' => if Nat.eqb k y then (y, v) :: l' else (y, n) :: dict_set k v l'
  end.

Fixpoint dict_del (k : node) (l : deps_t) : deps_t :=
  match l with
  | [] => []
  | (y, n) :: l' => if Nat.eqb k y then l' else (y, n) :: dict_del k l'
  end.

Definition dict_keys (l : deps_t) : list node := map fst l.
Definition dict_nonempty (l : deps_t) : bool := match l with [] => false | _ => true end.

Definition keyset_add (k : node) (l : list node) : list node := l ++ [k].

(* sro[-1]; only evaluated behind a truth test of the list *)
Definition py_last (l : list node) : node := last l 0.

Definition set_deps (st : state) (x : node) (v : deps_t) : state :=
  mkState (live st) (gr st) (isif st) (sro st) (implied st) (upd (deps st) x v).
Definition set_sro (st : state) (x : node) (v : list node) : state :=
  mkState (live st) (gr st) (isif st) (upd (sro st) x v) (implied st) (deps st).
Definition set_implied (st : state) (x : node) (v : list node) : state :=
  mkState (live st) (gr st) (isif st) (sro st) (upd (implied st) x v) (deps st).
Definition set_bases_field (st : state) (x : node) (v : list node) : state :=
  mkState (live st) ((x, v) :: gr st) (isif st) (sro st) (implied st) (deps st).
Definition set_iro (st : state) (x : node) (v : list node) : state := st.

(* the {base: base.__sro__} table is consulted for every entry of __bases__ *)
Fixpoint bm_lookup (b : node) (bm : list (node * list node)) : list node :=
  match bm with
  | [] => []
  | (y, m) :: bm' => if Nat.eqb b y then m else bm_lookup b bm'
  end.

Definition do_calculate_ro (st : state) (x : node) (bm : list (node * list node)) : list node :=
  let bs := bases (gr st) x in
  match c3_node false x bs (map (fun b => bm_lookup b bm) bs) false
                (legacy_ro (fuel_of (gr st)) (gr st) x) with
  | ROk m _ => m
  | _ => []
  end.

(* two states that answer every field read alike (the function-valued fields pointwise) *)
Definition state_equiv (a b : state) : Prop :=
  live a = live b /\ gr a = gr b /\ (forall y, isif a y = isif b y) /\
  (forall y, sro a y = sro b y) /\ (forall y, implied a y = implied b y) /\
  (forall y, deps a y = deps b y).
