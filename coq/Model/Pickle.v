(* Model for property C13: how zope.interface specifications are pickled.

   Executable definitions only.  What is transcribed (file:function):
     interface.py     InterfaceClass.__reduce__          -> reduce_iface      (returns __name__: by global name)
     declarations.py  Implements.__reduce__              -> reduce_impl       (inherit, else _implements_cls)
                      (the version before the fix)       -> reduce_impl_prefix (inherit only)
                      Provides.__reduce__                -> reduce_prov       (Provides, __args)
                      ClassProvides.__reduce__           -> reduce_cprov      (self.__class__, __args)
                      _ImmutableDeclaration.__reduce__   -> reduce_empty      ("_empty")
                      implementedBy                      -> implementedBy     (creates the class spec once, sets
                                                                               inherit and _implements_cls, installs
                                                                               the default ClassProvides)
                      classImplements / implementer      -> class_implements
                      classImplementsOnly / implementer_only -> class_implements_only (inherit := None)
                      classImplementsFirst               -> class_implements_first
                      _classImplements_ordered           -> ordered
                      Declaration._add_interfaces_to_cls -> build_bases
                      Provides (factory + InstanceDeclarations weak cache) -> provides_factory, gc
                      Provides.changed (leaves the cache when its class changes) -> notify, reaches
                      directlyProvides / alsoProvides / directlyProvidedBy -> directly_provides, also_provides
                      directlyProvides(cls, ..) / provider / ClassProvides.__init__ -> class_provides, alloc_cprov
                      alsoProvides(cls, ..) / noLongerProvides / Declaration.__sub__ -> class_also_provides,
                                                            class_no_longer_provides, no_longer_provides, minus
                      built-in types (BuiltinImplementationSpecifications) -> w_builtin, is_builtin
                      Specification.interfaces()         -> sref_interfaces / decl_interfaces
                      Specification.isOrExtends (via _implied) -> sref_implied / spec_isOrExtends
   NOT modelled (trusted): the pickle machinery itself.  A pickled value is the [reduced] term; GLOBAL /
   STACK_GLOBAL is [lookup_global], REDUCE is [apply_fn], NEWOBJ+BUILD is the [FNewObj] case.  That real
   pickles contain nothing but such names is observed with pickletools by the driver.
   Metaclasses other than [type] are names only (w_meta): what a metaclass itself implements is not
   modelled (a ClassProvides' last base is written RType for every metaclass).  Omitted: declarations that contain [Interface] itself or another
   class's specification as an argument; __resolve order (flattened()) -- compared only before/after by
   the Spec oracle of the tie; specifications of [super] objects; nested (qualname) globals. *)
From Coq Require Import List NArith ZArith Bool Arith String Ascii.
Import ListNotations.
From ZI Require Import Lib.Str Lib.Util.
Local Open Scope nat_scope.

(* ------------------------------------------------------------------ names *)

Fixpoint str_of_string (s : string) : str :=
  match s with
  | EmptyString => []
  | String a s' => N_of_ascii a :: str_of_string s'
  end.

(* an importable global: (module, name) *)
Definition gname := (str * str)%type.
Definition gname_eqb (a b : gname) : bool := str_eqb (fst a) (fst b) && str_eqb (snd a) (snd b).

Definition m_decl : str := str_of_string "zope.interface.declarations".
Definition g_empty : gname := (m_decl, str_of_string "_empty").
Definition g_type : gname := (str_of_string "builtins", str_of_string "type").
Definition g_bad : gname := ([], []).

(* the callables a specification pickle may name *)
Inductive global_fn := FImplementedBy | FProvides | FClassProvides | FNewObj.

Definition fn_gname (f : global_fn) : gname :=
  match f with
  | FImplementedBy => (m_decl, str_of_string "implementedBy")
  | FProvides => (m_decl, str_of_string "Provides")
  | FClassProvides => (m_decl, str_of_string "ClassProvides")
  | FNewObj => (str_of_string "copyreg", str_of_string "__newobj__")
  end.

Definition fn_eqb (a b : global_fn) : bool :=
  match a, b with
  | FImplementedBy, FImplementedBy | FProvides, FProvides
  | FClassProvides, FClassProvides | FNewObj, FNewObj => true
  | _, _ => false
  end.

(* What a pickle holds.  Arguments of a call are again [reduced] values: a global reference
   ([ByName]), the atoms None / int (instance attribute values), or a nested call.  There is no
   constructor that could carry a definition (bases, attributes, method names): "stores only
   names" holds by typing. *)
Inductive reduced :=
| ByName (g : gname)
| RNone
| RInt (z : Z)
| Call (f : global_fn) (args : list reduced).

(* ------------------------------------------------------------------ the world (the importable modules) *)

Record world := mkWorld {
  w_ifaces : list (gname * list nat);   (* interface i: its global name, its __bases__ (Interface implicit) *)
  w_classes : list (gname * list nat);  (* class c: its global name, its __bases__ (object implicit) *)
  w_insts : list (nat * list Z);        (* instance o: its class, its plain attribute values *)
  w_builtin : list nat;                 (* classes that are built-in types (complex, frozenset, ...): their
                                           attributes cannot be set, the spec lives in
                                           BuiltinImplementationSpecifications, no __provides__ is installed *)
  w_meta : list (nat * gname);          (* class c -> the global name of its metaclass when that is not `type`
                                           (e.g. a metaclass that makes the class object falsy) *)
  w_oldstyle : list (nat * list nat);   (* class c -> the interfaces of an old-style `__implemented__ = I` /
                                           `= (I, J)` in its body *)
  w_root : option nat                   (* the index of zope.interface.Interface itself among w_ifaces, when
                                           the case names it in declarations (every interface without other
                                           bases then lists it as its base) *)
}.

(* Interface itself: every specification is or extends it *)
Definition is_root (w : world) (i : nat) : bool :=
  match w_root w with Some r => Nat.eqb i r | None => false end.

(* Arguments of directlyProvides / Provides / ClassProvides are numbers: a < number of interfaces is
   interface a; a = number of interfaces + c is implementedBy(class c), a class specification
   passed as a declaration argument. *)
Definition nifaces (w : world) : nat := List.length (w_ifaces w).

Definition is_builtin (w : world) (c : nat) : bool := mem_nat c (w_builtin w).

Definition iname (w : world) (i : nat) : gname := fst (nth i (w_ifaces w) (g_bad, [])).
Definition ibases (w : world) (i : nat) : list nat := snd (nth i (w_ifaces w) (g_bad, [])).
Definition cname (w : world) (c : nat) : gname := fst (nth c (w_classes w) (g_bad, [])).
Definition cbases (w : world) (c : nat) : list nat := snd (nth c (w_classes w) (g_bad, [])).

Inductive obj :=
| OIface (i : nat)
| OClass (c : nat)
| OType                 (* builtins.type *)
| OMeta (g : gname)     (* another metaclass, by its global name *)
| OImpl (c : nat)       (* THE Implements object stored in class c's __dict__['__implemented__'] *)
| OEmpty                (* the _empty singleton *)
| OProv (p : nat)       (* a Provides object, by allocation number *)
| OCProv (q : nat)      (* a ClassProvides object, by allocation number *)
| OInst (o : nat)       (* an instance, by allocation number *)
| ONone
| OInt (z : Z).

Definition obj_eqb (a b : obj) : bool :=
  match a, b with
  | OIface x, OIface y | OClass x, OClass y | OImpl x, OImpl y
  | OProv x, OProv y | OCProv x, OCProv y | OInst x, OInst y => Nat.eqb x y
  | OType, OType | OEmpty, OEmpty | ONone, ONone => true
  | OMeta g, OMeta h => gname_eqb g h
  | OInt x, OInt y => Z.eqb x y
  | _, _ => false
  end.

Fixpoint find_name (g : gname) (l : list (gname * list nat)) (k : nat) : option nat :=
  match l with
  | [] => None
  | (g', _) :: l' => if gname_eqb g g' then Some k else find_name g l' (S k)
  end.

(* pickle's find_class: import the module, getattr the name *)
Definition lookup_global (w : world) (g : gname) : option obj :=
  if gname_eqb g g_empty then Some OEmpty
  else if gname_eqb g g_type then Some OType
  else match find_name g (w_ifaces w) 0 with
       | Some i => Some (OIface i)
       | None => match find_name g (w_classes w) 0 with
                 | Some c => Some (OClass c)
                 | None => if existsb (fun cg : nat * gname => gname_eqb g (snd cg)) (w_meta w)
                           then Some (OMeta g) else None
                 end
       end.

(* every interface and class is importable under its own name (pickle.dumps verifies exactly this
   before it writes a GLOBAL) *)
Definition wf_globals (w : world) : bool :=
  forallb (fun i => option_eqb obj_eqb (lookup_global w (iname w i)) (Some (OIface i)))
          (seq 0 (List.length (w_ifaces w)))
  && forallb (fun c => option_eqb obj_eqb (lookup_global w (cname w c)) (Some (OClass c)))
             (seq 0 (List.length (w_classes w)))
  && forallb (fun cg : nat * gname => option_eqb obj_eqb (lookup_global w (snd cg)) (Some (OMeta (snd cg))))
             (w_meta w).

(* ------------------------------------------------------------------ run-time state *)

(* a base of a declaration *)
Inductive sref :=
| RI (i : nat)      (* interface i *)
| RC (c : nat)      (* implementedBy(class c), a live reference *)
| RType.            (* implementedBy(type): declares nothing *)

Definition sref_eqb (a b : sref) : bool :=
  match a, b with
  | RI x, RI y | RC x, RC y => Nat.eqb x y
  | RType, RType => true
  | _, _ => false
  end.

Record impl_rec := mkImpl {
  im_inherit : option nat;     (* Implements.inherit *)
  im_cls : option nat;         (* Implements._implements_cls (added by the fix) *)
  im_declared : list nat;      (* Implements.declared *)
  im_bases : list sref         (* Implements.__bases__ *)
}.
Record prov_rec := mkProv { pv_cls : nat; pv_ifaces : list nat; pv_bases : list sref }.   (* __args = (cls, *ifaces) *)
Record cprov_rec := mkCProv { cp_cls : nat; cp_ifaces : list nat; cp_bases : list sref }. (* __args = (cls, type, *ifaces) *)
Record inst_rec := mkInst { in_cls : nat; in_provides : option nat; in_attrs : list Z }.

Definition ckey := (nat * list nat)%type.
Definition ckey_eqb (a b : ckey) : bool := Nat.eqb (fst a) (fst b) && lnat_eqb (snd a) (snd b).

Record state := mkState {
  st_impl : list (nat * impl_rec);    (* class -> cls.__dict__['__implemented__'], or, for a built-in
                                         type, BuiltinImplementationSpecifications[cls] *)
  st_cprov_of : list (nat * nat);     (* class -> cls.__dict__['__provides__'] (index into st_cprovs) *)
  st_cprovs : list cprov_rec;         (* every ClassProvides object ever created *)
  st_provs : list prov_rec;           (* every Provides object ever created *)
  st_cache : list (ckey * nat);       (* InstanceDeclarations (weak values) *)
  st_insts : list inst_rec
}.

Definition init_state (w : world) : state :=
  mkState [] [] [] [] [] (map (fun ca => mkInst (fst ca) None (snd ca)) (w_insts w)).

Fixpoint assoc_nat {A} (k : nat) (l : list (nat * A)) : option A :=
  match l with
  | [] => None
  | (k', v) :: l' => if Nat.eqb k k' then Some v else assoc_nat k l'
  end.

Fixpoint assoc_key (k : ckey) (l : list (ckey * nat)) : option nat :=
  match l with
  | [] => None
  | (k', v) :: l' => if ckey_eqb k k' then Some v else assoc_key k l'
  end.

Definition set_impl (st : state) (c : nat) (r : impl_rec) : state :=
  mkState ((c, r) :: st_impl st) (st_cprov_of st) (st_cprovs st) (st_provs st) (st_cache st) (st_insts st).

(* a new ClassProvides object (ClassProvides.__init__ after its implementedBy(cls) call):
   bases = _add_interfaces_to_cls(interfaces, type) = interfaces (without Interface itself, which
   implementedBy(type) is-or-extends) + (implementedBy(type),) *)
Definition cprov_bases (ni : nat) (root : option nat) (is : list nat) : list sref :=
  map (fun a => if Nat.ltb a ni then RI a else RC (a - ni))
      (filter (fun a => match root with Some r => negb (Nat.eqb a r) | None => true end) is) ++ [RType].
Definition alloc_cprov (w : world) (st : state) (c : nat) (is : list nat) : state :=
  mkState (st_impl st) (st_cprov_of st)
          (st_cprovs st ++ [mkCProv c is (cprov_bases (List.length (w_ifaces w)) (w_root w) is)])
          (st_provs st) (st_cache st) (st_insts st).

Definition install_cprov (st : state) (c q : nat) : state :=
  mkState (st_impl st) ((c, q) :: st_cprov_of st) (st_cprovs st) (st_provs st) (st_cache st) (st_insts st).

(* what implementedBy(c) creates for a class without a specification *)
Definition default_impl (w : world) (c : nat) : impl_rec :=
  match assoc_nat c (w_oldstyle w) with
  (* old-style `__implemented__ = I`: spec = Implements.named(name, *declared); spec.inherit = None;
     spec.declared = declared *)
  | Some declared => mkImpl None (Some c) declared (map RI declared)
  | None => mkImpl (Some c) (Some c) [] (map RC (cbases w c))
  end.

(* declarations.py:implementedBy, for a class.  An existing spec is returned as is (identity).
   Otherwise: the specs of the bases first, then the new spec with inherit = _implements_cls = cls,
   stored in the class (_implements_cls is assigned BEFORE that store is attempted, so built-in
   types get it too), then the default ClassProvides(cls, type) if the class has none. *)
Fixpoint implementedBy (fuel : nat) (w : world) (st : state) (c : nat) : state :=
  match assoc_nat c (st_impl st) with
  | Some _ => st
  | None =>
      match fuel with
      | 0 => st
      | S f =>
          let st1 := fold_left (implementedBy f w) (cbases w c) st in
          let st2 := set_impl st1 c (default_impl w c) in
          (* cls.__implemented__ = spec raises TypeError for a built-in type: the spec is kept in
             BuiltinImplementationSpecifications and no ClassProvides is installed *)
          if is_builtin w c then st2
          else match assoc_nat c (st_cprov_of st2) with
               | Some _ => st2
               | None => install_cprov (alloc_cprov w st2 c []) c (List.length (st_cprovs st2))
               end
      end
  end.

Definition get_impl (w : world) (st : state) (c : nat) : impl_rec :=
  match assoc_nat c (st_impl st) with
  | Some r => r
  | None => default_impl w c
  end.

(* ------------------------------------------------------------------ queries *)

Fixpoint dedup_acc (seen l : list nat) : list nat :=
  match l with
  | [] => []
  | x :: l' => if mem_nat x seen then dedup_acc seen l' else x :: dedup_acc (x :: seen) l'
  end.
Definition dedup := dedup_acc [].

(* i and everything it extends *)
Fixpoint iface_anc (fuel : nat) (w : world) (i : nat) : list nat :=
  match fuel with
  | 0 => [i]
  | S f => i :: flat_map (iface_anc f w) (ibases w i)
  end.

(* InterfaceClass.extends(b) with strict=True *)
Definition iface_extends_strict (fuel : nat) (w : world) (i b : nat) : bool :=
  mem_nat b (iface_anc fuel w i) && negb (Nat.eqb i b).

(* Specification.interfaces(): the interfaces of the bases, first occurrence kept *)
Fixpoint sref_interfaces (fuel : nat) (w : world) (st : state) (r : sref) : list nat :=
  match fuel with
  | 0 => []
  | S f =>
      match r with
      | RI i => [i]
      | RType => []
      | RC c => dedup (flat_map (sref_interfaces f w st) (im_bases (get_impl w st c)))
      end
  end.

Definition decl_interfaces (fuel : nat) (w : world) (st : state) (bases : list sref) : list nat :=
  dedup (flat_map (sref_interfaces fuel w st) bases).

(* the interfaces among the keys of _implied *)
Fixpoint sref_implied (fuel : nat) (w : world) (st : state) (r : sref) : list nat :=
  match fuel with
  | 0 => []
  | S f =>
      match r with
      | RI i => iface_anc f w i
      | RType => []
      | RC c => flat_map (sref_implied f w st) (im_bases (get_impl w st c))
      end
  end.

(* does the specification of class d depend on that of class c (through the implementedBy(base)
   entries of __bases__, which is how Specification.subscribe links them)? *)
Fixpoint reaches (fuel : nat) (w : world) (st : state) (d c : nat) : bool :=
  match fuel with
  | 0 => Nat.eqb d c
  | S f =>
      Nat.eqb d c
      || existsb (fun r => match r with RC b => reaches f w st b c | _ => false end)
                 (im_bases (get_impl w st d))
  end.

Definition arg_sref (w : world) (a : nat) : sref :=
  if Nat.ltb a (nifaces w) then RI a else RC (a - nifaces w).

(* implementedBy(c).isOrExtends(argument a) *)
Definition spec_isOrExtends (fuel : nat) (w : world) (st : state) (c a : nat) : bool :=
  if Nat.ltb a (nifaces w)
  then is_root w a || mem_nat a (sref_implied fuel w st (RC c))
  else reaches fuel w st c (a - nifaces w).

(* ------------------------------------------------------------------ class declarations *)

(* Assigning spec.__bases__ of class c calls changed(), which reaches every dependent.
   Provides.changed (declarations.py, "stop sharing an instance declaration once its class's
   declarations change"): a Provides whose class depends on c and that is the cached value for its
   arguments removes itself from InstanceDeclarations. *)
(* a Provides(cls, *args) subscribes to implementedBy(cls) and to every argument it keeps as a base;
   it hears of a change of class c when cls, or a class specification among its arguments, depends on c *)
Definition prov_depends (fuel : nat) (w : world) (st : state) (k : ckey) (c : nat) : bool :=
  reaches fuel w st (fst k) c
  || existsb (fun a => negb (Nat.ltb a (nifaces w)) && reaches fuel w st (a - nifaces w) c) (snd k).

Definition notify (fuel : nat) (w : world) (st : state) (c : nat) : state :=
  mkState (st_impl st) (st_cprov_of st) (st_cprovs st) (st_provs st)
          (filter (fun kp : ckey * nat => negb (prov_depends fuel w st (fst kp) c)) (st_cache st))
          (st_insts st).

(* _classImplements_ordered(spec of c, before, after) *)
Definition ordered (fuel : nat) (w : world) (st : state) (c : nat) (before after : list nat) : state :=
  let r := get_impl w st c in
  (* not spec.isOrExtends(x) or (x is Interface and not spec.declared) *)
  let keep x := negb (spec_isOrExtends fuel w st c x)
                || (is_root w x && match im_declared r with [] => true | _ => false end) in
  let nd := dedup (filter keep before ++ im_declared r ++ filter keep after) in
  let inherited := match im_inherit r with Some k => map RC (cbases w k) | None => [] end in
  notify fuel w (set_impl st c (mkImpl (im_inherit r) (im_cls r) nd (map RI nd ++ inherited))) c.

Definition class_implements (fuel : nat) (w : world) (st : state) (c : nat) (is : list nat) : state :=
  let st := implementedBy fuel w st c in
  let r := get_impl w st c in
  let goes_before i := existsb (iface_extends_strict fuel w i) (im_declared r) in
  ordered fuel w st c (filter goes_before is) (filter (fun i => negb (goes_before i)) is).

Definition class_implements_only (fuel : nat) (w : world) (st : state) (c : nat) (is : list nat) : state :=
  let st := implementedBy fuel w st c in
  let r := get_impl w st c in
  (* spec.declared = (); spec.inherit = None; spec.__bases__ = ()  -- _implements_cls is kept *)
  let st := notify fuel w (set_impl st c (mkImpl None (im_cls r) [] [])) c in
  ordered fuel w st c is [].

Definition class_implements_first (fuel : nat) (w : world) (st : state) (c i : nat) : state :=
  ordered fuel w (implementedBy fuel w st c) c [i] [].

(* directlyProvides(cls, is...) and @provider(is...): cls.__provides__ = ClassProvides(cls, type, is...) *)
Definition class_provides (fuel : nat) (w : world) (st : state) (c : nat) (is : list nat) : state :=
  let st := implementedBy fuel w st c in
  install_cprov (alloc_cprov w st c is) c (List.length (st_cprovs st)).

(* directlyProvidedBy(cls) as the flat list _normalizeargs makes of it: Declaration(provides.__bases__[:-1])
   of the class's OWN ClassProvides (an inherited descriptor raises AttributeError: empty) *)
Definition class_provided_by (fuel : nat) (w : world) (st : state) (c : nat) : list nat :=
  match assoc_nat c (st_cprov_of st) with
  | Some q => match nth_error (st_cprovs st) q with
              | Some qr => decl_interfaces fuel w st (removelast (cp_bases qr))
              | None => []
              end
  | None => []
  end.

(* Declaration.__sub__: drop what is or extends i *)
Definition minus (fuel : nat) (w : world) (l : list nat) (i : nat) : list nat :=
  filter (fun x => negb (mem_nat i (iface_anc fuel w x))) l.

(* alsoProvides(cls, is...) = directlyProvides(cls, directlyProvidedBy(cls), is...); directlyProvides
   normalises its arguments, so ClassProvides.__args holds interfaces only *)
Definition class_also_provides (fuel : nat) (w : world) (st : state) (c : nat) (is : list nat) : state :=
  class_provides fuel w st c (class_provided_by fuel w st c ++ is).

(* noLongerProvides(cls, i) = directlyProvides(cls, directlyProvidedBy(cls) - i) (a ValueError raised
   afterwards when i is still provided does not undo the assignment) *)
Definition class_no_longer_provides (fuel : nat) (w : world) (st : state) (c i : nat) : state :=
  class_provides fuel w st c (minus fuel w (class_provided_by fuel w st c) i).

(* ------------------------------------------------------------------ instance declarations *)

(* Declaration._add_interfaces_to_cls(interfaces, cls) *)
Definition build_bases (fuel : nat) (w : world) (st : state) (c : nat) (is : list nat) : list sref :=
  map (arg_sref w) (filter (fun i => negb (spec_isOrExtends fuel w st c i)) is) ++ [RC c].

(* the Provides factory: weak-value cache keyed by the argument tuple *)
Definition provides_factory (fuel : nat) (w : world) (st : state) (c : nat) (is : list nat) : state * nat :=
  match assoc_key (c, is) (st_cache st) with
  | Some p => (st, p)
  | None =>
      let st1 := implementedBy fuel w st c in
      let p := List.length (st_provs st1) in
      (mkState (st_impl st1) (st_cprov_of st1) (st_cprovs st1)
               (st_provs st1 ++ [mkProv c is (build_bases fuel w st1 c is)])
               (((c, is), p) :: st_cache st1) (st_insts st1), p)
  end.

Fixpoint set_nth {A} (n : nat) (x : A) (l : list A) : list A :=
  match l, n with
  | [], _ => []
  | _ :: l', 0 => x :: l'
  | y :: l', S n' => y :: set_nth n' x l'
  end.

Definition set_inst (st : state) (o : nat) (r : inst_rec) : state :=
  mkState (st_impl st) (st_cprov_of st) (st_cprovs st) (st_provs st) (st_cache st) (set_nth o r (st_insts st)).

Definition directly_provides (fuel : nat) (w : world) (st : state) (o : nat) (is : list nat) : state :=
  match nth_error (st_insts st) o with
  | None => st
  | Some io =>
      let '(st1, p) := provides_factory fuel w st (in_cls io) is in
      set_inst st1 o (mkInst (in_cls io) (Some p) (in_attrs io))
  end.

(* directlyProvidedBy(o), as the flat interface list _normalizeargs makes of it:
   Declaration(provides.__bases__[:-1]) *)
Definition directly_provided_by (fuel : nat) (w : world) (st : state) (o : nat) : list nat :=
  match nth_error (st_insts st) o with
  | Some io =>
      match in_provides io with
      | Some p => match nth_error (st_provs st) p with
                  | Some pr => decl_interfaces fuel w st (removelast (pv_bases pr))
                  | None => []
                  end
      | None => []
      end
  | None => []
  end.

Definition also_provides (fuel : nat) (w : world) (st : state) (o : nat) (is : list nat) : state :=
  directly_provides fuel w st o (directly_provided_by fuel w st o ++ is).

Definition no_longer_provides (fuel : nat) (w : world) (st : state) (o i : nat) : state :=
  directly_provides fuel w st o (minus fuel w (directly_provided_by fuel w st o) i).

Definition referenced (st : state) (p : nat) : bool :=
  existsb (fun io => match in_provides io with Some p' => Nat.eqb p' p | None => false end) (st_insts st).

(* a full garbage collection: the weak cache forgets every declaration no instance holds *)
Definition gc (st : state) : state :=
  mkState (st_impl st) (st_cprov_of st) (st_cprovs st) (st_provs st)
          (filter (fun kp => referenced st (snd kp)) (st_cache st)) (st_insts st).

(* ------------------------------------------------------------------ histories *)

Inductive op :=
| OpImplementedBy (c : nat)
| OpClassImplements (c : nat) (is : list nat)       (* classImplements / @implementer *)
| OpClassImplementsOnly (c : nat) (is : list nat)   (* classImplementsOnly / @implementer_only *)
| OpClassImplementsFirst (c : nat) (i : nat)
| OpClassProvides (c : nat) (is : list nat)         (* directlyProvides(cls, ..) / @provider *)
| OpClassAlsoProvides (c : nat) (is : list nat)     (* alsoProvides(cls, ..) / directlyProvides(cls, directlyProvidedBy(cls), ..) *)
| OpClassNoLongerProvides (c : nat) (i : nat)       (* noLongerProvides(cls, i) *)
| OpDirectlyProvides (o : nat) (is : list nat)
| OpAlsoProvides (o : nat) (is : list nat)
| OpNoLongerProvides (o : nat) (i : nat)
| OpGc.

Definition step (fuel : nat) (w : world) (st : state) (x : op) : state :=
  match x with
  | OpImplementedBy c => implementedBy fuel w st c
  | OpClassImplements c is => class_implements fuel w st c is
  | OpClassImplementsOnly c is => class_implements_only fuel w st c is
  | OpClassImplementsFirst c i => class_implements_first fuel w st c i
  | OpClassProvides c is => class_provides fuel w st c is
  | OpClassAlsoProvides c is => class_also_provides fuel w st c is
  | OpClassNoLongerProvides c i => class_no_longer_provides fuel w st c i
  | OpDirectlyProvides o is => directly_provides fuel w st o is
  | OpAlsoProvides o is => also_provides fuel w st o is
  | OpNoLongerProvides o i => no_longer_provides fuel w st o i
  | OpGc => gc st
  end.

Definition run (fuel : nat) (w : world) (ops : list op) : state := fold_left (step fuel w) ops (init_state w).

Definition is_class_op (x : op) : bool :=
  match x with
  | OpDirectlyProvides _ _ | OpAlsoProvides _ _ | OpNoLongerProvides _ _ | OpGc => false
  | _ => true
  end.

(* ------------------------------------------------------------------ __reduce__ *)

Definition reduce_iface (w : world) (i : nat) : reduced := ByName (iname w i).
Definition reduce_class (w : world) (c : nat) : reduced := ByName (cname w c).
Definition reduce_empty : reduced := ByName g_empty.

Definition class_arg (w : world) (k : option nat) : reduced :=
  match k with Some c => ByName (cname w c) | None => RNone end.

(* HEAD: cls = self.inherit; if cls is None: cls = self._implements_cls; return implementedBy, (cls,) *)
Definition reduce_impl (w : world) (r : impl_rec) : reduced :=
  Call FImplementedBy [class_arg w (match im_inherit r with Some k => Some k | None => im_cls r end)].

(* before the fix: return implementedBy, (self.inherit,) *)
Definition reduce_impl_prefix (w : world) (r : impl_rec) : reduced :=
  Call FImplementedBy [class_arg w (im_inherit r)].

(* an argument of Provides / ClassProvides: an interface pickles by name; a class specification by its
   own __reduce__, which names its class whatever was declared (C13_implements_reduce_names_own_class) *)
Definition arg_ref (w : world) (a : nat) : reduced :=
  if Nat.ltb a (nifaces w) then ByName (iname w a)
  else Call FImplementedBy [ByName (cname w (a - nifaces w))].

Definition reduce_prov (w : world) (pr : prov_rec) : reduced :=
  Call FProvides (ByName (cname w (pv_cls pr)) :: map (arg_ref w) (pv_ifaces pr)).

Definition reduce_cprov (w : world) (q : cprov_rec) : reduced :=
  Call FClassProvides (ByName (cname w (cp_cls q))
                       :: match assoc_nat (cp_cls q) (w_meta w) with Some g => ByName g | None => ByName g_type end
                       :: map (arg_ref w) (cp_ifaces q)).

(* object.__reduce_ex__(2) of a plain instance: copyreg.__newobj__(cls) + state (__dict__), whose
   '__provides__' entry is the nested reduction of the declaration *)
Definition reduce_inst (w : world) (st : state) (io : inst_rec) : reduced :=
  Call FNewObj (ByName (cname w (in_cls io))
                :: match in_provides io with
                   | Some p => match nth_error (st_provs st) p with
                               | Some pr => reduce_prov w pr
                               | None => RNone
                               end
                   | None => RNone
                   end
                :: map RInt (in_attrs io)).

(* ------------------------------------------------------------------ vocabulary of the regenerated kernel *)
(* harness/translate/reduce.py re-derives Gen/ReduceKernel.v from the source text in these terms;
   Proofs/PickleGen.v proves the regenerated functions equal to the hand-written ones above. *)

Definition opt_is_none {A} (x : option A) : bool := match x with None => true | Some _ => false end.

(* how a class / an interface / the metaclass `type` sits in an argument tuple *)
Definition class_ref (w : world) (c : nat) : reduced := ByName (cname w c).
Definition iface_refs (w : world) (is : list nat) : list reduced := map (arg_ref w) is.
Definition type_ref : reduced := ByName g_type.
(* the `metacls` argument of ClassProvides: type(cls) *)
Definition meta_ref (w : world) (c : nat) : reduced :=
  match assoc_nat c (w_meta w) with Some g => ByName g | None => type_ref end.

(* InstanceDeclarations.get(key) / InstanceDeclarations[key] = spec *)
Definition cache_get (st : state) (k : ckey) : option nat := assoc_key k (st_cache st).
Definition cache_set (st : state) (k : ckey) (p : nat) : state :=
  mkState (st_impl st) (st_cprov_of st) (st_cprovs st) (st_provs st) ((k, p) :: st_cache st) (st_insts st).

(* ProvidesClass(cls, *interfaces): the constructor (its implementedBy(cls) call, the new object) *)
Definition new_provides (fuel : nat) (w : world) (st : state) (c : nat) (is : list nat) : state * nat :=
  let st1 := implementedBy fuel w st c in
  (mkState (st_impl st1) (st_cprov_of st1) (st_cprovs st1)
           (st_provs st1 ++ [mkProv c is (build_bases fuel w st1 c is)])
           (st_cache st1) (st_insts st1), List.length (st_provs st1)).

(* ------------------------------------------------------------------ unpickling *)

Fixpoint all_some {A} (l : list (option A)) : option (list A) :=
  match l with
  | [] => Some []
  | None :: _ => None
  | Some x :: l' => match all_some l' with Some xs => Some (x :: xs) | None => None end
  end.

Definition is_metaclass (x : obj) : bool := match x with OType | OMeta _ => true | _ => false end.
Definition as_arg (w : world) (x : obj) : option nat :=
  match x with OIface i => Some i | OImpl c => Some (nifaces w + c) | _ => None end.
Definition as_int (x : obj) : option Z := match x with OInt z => Some z | _ => None end.

(* REDUCE / NEWOBJ+BUILD: call the named constructor in the current process *)
Definition apply_fn (fuel : nat) (w : world) (st : state) (f : global_fn) (vs : list (option obj))
  : state * option obj :=
  match all_some vs with
  | None => (st, None)
  | Some xs =>
      match f, xs with
      | FImplementedBy, [OClass c] => (implementedBy fuel w st c, Some (OImpl c))
      (* implementedBy(None): no __dict__, no __implemented__, not a builtin -> _empty *)
      | FImplementedBy, [ONone] => (st, Some OEmpty)
      | FProvides, OClass c :: rest =>
          match all_some (map (as_arg w) rest) with
          | Some is => let '(st', p) := provides_factory fuel w st c is in (st', Some (OProv p))
          | None => (st, None)
          end
      | FClassProvides, OClass c :: m :: rest =>
          match is_metaclass m, all_some (map (as_arg w) rest) with
          | true, Some is => let st1 := implementedBy fuel w st c in
                             (alloc_cprov w st1 c is, Some (OCProv (List.length (st_cprovs st1))))
          | _, _ => (st, None)
          end
      | FNewObj, OClass c :: d :: attrs =>
          match all_some (map as_int attrs) with
          | Some zs =>
              let mk p := (mkState (st_impl st) (st_cprov_of st) (st_cprovs st) (st_provs st) (st_cache st)
                                   (st_insts st ++ [mkInst c p zs]), Some (OInst (List.length (st_insts st)))) in
              match d with
              | OProv p => mk (Some p)
              | ONone => mk None
              | _ => (st, None)
              end
          | None => (st, None)
          end
      | _, _ => (st, None)
      end
  end.

Fixpoint rebuild (fuel : nat) (w : world) (st : state) (r : reduced) {struct r} : state * option obj :=
  match r with
  | ByName g => (st, lookup_global w g)
  | RNone => (st, Some ONone)
  | RInt z => (st, Some (OInt z))
  | Call f args =>
      let fix go (st : state) (l : list reduced) {struct l} : state * list (option obj) :=
        match l with
        | [] => (st, [])
        | a :: l' =>
            let '(st1, v) := rebuild fuel w st a in
            let '(st2, vs) := go st1 l' in
            (st2, v :: vs)
        end in
      let '(st', vs) := go st args in
      apply_fn fuel w st' f vs
  end.

(* the same thing, argument list first (an unfolding lemma in Proofs/Pickle.v relates the two) *)
Fixpoint rebuild_list (fuel : nat) (w : world) (st : state) (l : list reduced) : state * list (option obj) :=
  match l with
  | [] => (st, [])
  | a :: l' =>
      let '(st1, v) := rebuild fuel w st a in
      let '(st2, vs) := rebuild_list fuel w st1 l' in
      (st2, v :: vs)
  end.

(* ------------------------------------------------------------------ observables *)

(* list(spec) of the objects the property talks about *)
Definition obj_interfaces (fuel : nat) (w : world) (st : state) (x : obj) : list nat :=
  match x with
  | OImpl c => sref_interfaces fuel w st (RC c)
  | OProv p => match nth_error (st_provs st) p with
               | Some pr => decl_interfaces fuel w st (pv_bases pr)
               | None => []
               end
  | OCProv q => match nth_error (st_cprovs st) q with
                | Some qr => decl_interfaces fuel w st (cp_bases qr)
                | None => []
                end
  | OIface i => [i]
  | _ => []
  end.

(* list(providedBy(instance)): its own declaration, else its class's specification *)
Definition inst_provided (fuel : nat) (w : world) (st : state) (io : inst_rec) : list nat :=
  match in_provides io with
  | Some p => obj_interfaces fuel w st (OProv p)
  | None => obj_interfaces fuel w st (OImpl (in_cls io))
  end.

(* Python's == and hash() on these objects: interfaces compare and hash by (__name__, __module__)
   (property C12), everything else here by identity *)
Definition py_eq (w : world) (a b : obj) : bool :=
  match a, b with
  | OIface i, OIface j => gname_eqb (iname w i) (iname w j)
  | _, _ => obj_eqb a b
  end.

Definition py_hash (w : world) (hk : gname -> Z) (hid : obj -> Z) (a : obj) : Z :=
  match a with
  | OIface i => hk (iname w i)
  | _ => hid a
  end.

(* a provides-declaration is "current" when its bases are what its constructor arguments give in
   the present state of its class (it was not created before a later change of the class's
   declarations: the staleness that property C01 is about) *)
Definition prov_current (fuel : nat) (w : world) (st : state) (pr : prov_rec) : bool :=
  list_eqb sref_eqb (pv_bases pr) (build_bases fuel w st (pv_cls pr) (pv_ifaces pr)).

Definition cache_current (fuel : nat) (w : world) (st : state) : bool :=
  forallb (fun kp => match nth_error (st_provs st) (snd kp) with
                     | Some pr => ckey_eqb (fst kp) (pv_cls pr, pv_ifaces pr) && prov_current fuel w st pr
                     | None => false
                     end) (st_cache st).

Definition ids_ok (w : world) (c : nat) (is : list nat) : bool :=
  Nat.ltb c (List.length (w_classes w)) && forallb (fun i => Nat.ltb i (List.length (w_ifaces w))) is.
