(* A small C statement language and its interpreter, used to give meaning to the kernels that
   harness/translate/adapt_c.py extracts from _zope_interface_coptimizations.c (IB__call__ and
   IB__adapt__) into Gen/AdaptC.v.

   The extractor only emits *data* (terms of [cstmt]); what an API call means is fixed by the table
   in [do_api] below, over the vocabulary of Model/Adapt.v.  Reference counting statements are
   dropped by the extractor (ownership is the subject of C11, not of C14); C ints are modelled as
   natural numbers (the error value -1 of PyObject_IsTrue is not reachable: the truth value of what
   providedBy returns does not fail in the model).  Hand-written and trusted; no proofs here. *)
From Coq Require Import List Bool Arith String.
Import ListNotations.
From ZI Require Import Model.Adapt Model.PyKernel.

Inductive cflag := FAdapt | FProv.      (* "_CALL_CUSTOM_ADAPT" / "_CALL_CUSTOM_PROVIDEDBY" *)

(* side-effect free C expressions *)
Inductive cexpr :=
| XVar (x : string) | XNull | XNone | XInt (n : nat)
| XEq (a b : cexpr) | XNe (a b : cexpr) | XLt (a b : cexpr)
| XOr (a b : cexpr) | XAnd (a b : cexpr) | XNot (a : cexpr)
| XAdd (a b : cexpr) | XSub (a b : cexpr)
| XHasFlag (f : cflag)           (* PyDict_GetItemString(Py_TYPE(self)->tp_dict, "<flag>") *)
| XErrMatches (x : xclass)       (* PyErr_ExceptionMatches(PyExc_<x>) *)
| XListItem (l i : cexpr)        (* PyList_GET_ITEM(l, i) *)
| XListSize (l : cexpr).         (* PyList_GET_SIZE(l) *)

(* API calls that run Python code or allocate; each may fail (NULL + error indicator) *)
Inductive capi :=
| AGetAttrConform (o : cexpr)            (* PyObject_GetAttr(o, str__conform__) *)
| ACallConformMethod (s c : cexpr)       (* PyObject_CallMethodObjArgs(s, str_call_conform, c, NULL) *)
| ACallAdaptMethod (s o : cexpr)         (* PyObject_CallMethodObjArgs(s, str__adapt__, o, NULL) *)
| ABuiltinAdapt (s o : cexpr)            (* IB__adapt__(s, o) *)
| ACallProvidedBy (s o : cexpr)          (* PyObject_CallMethod(s, "providedBy", "(O)", o) *)
| AIsTrue (e : cexpr)                    (* PyObject_IsTrue(e) *)
| ACallObject (f a : cexpr)              (* PyObject_CallObject(f, a) *)
| ATupleNew2                             (* PyTuple_New(2) *)
| ABuildCouldNotAdapt (o s : cexpr)      (* Py_BuildValue("sOO", "Could not adapt", o, s) *)
| AGetHooks.                             (* _get_adapter_hooks(Py_TYPE(self)) *)

Inductive cstmt :=
| KDecl (x : string)                        (* a local declared without initialiser *)
| KAssign (x : string) (e : cexpr)
| KCall (x : string) (a : capi)             (* x = <api call> *)
| KInlineProvided (x : string) (s o : cexpr)   (* the inlined provided-check: x = self in providedBy(o)._implied *)
| KTupleSet (t : string) (i : nat) (e : cexpr) (* PyTuple_SET_ITEM(t, i, e) *)
| KErrClear                                 (* PyErr_Clear() *)
| KErrSetTypeError (e : cexpr)              (* PyErr_SetObject(PyExc_TypeError, e) *)
| KParseArgs (x y : string)                 (* PyArg_ParseTupleAndKeywords(args, kwargs, "O|O", {"obj","alternate"}, &x, &y) succeeded *)
| KIf (c : cexpr) (thn els : list cstmt)
| KReturn (e : cexpr)
| KFor (init : list cstmt) (c : cexpr) (step body : list cstmt).

Inductive cv :=
| WUninit | WNull | WNone | WSelf | WObj | WAlt
| WVal (v : nat) | WConf (c : conform) | WBoolObj (b : bool)
| WInt (n : nat)
| WHooks | WHook (i : nat) (h : hook)
| WTuple (a b : cv)
| WCnaArgs                      (* ("Could not adapt", obj, self) *)
| WOpaque.                      (* some non-NULL borrowed pointer *)

(* the error indicator *)
Inductive cerr := ERaised (r : raised) | ECouldNotAdapt.

Definition cenv := list (string * cv).

Fixpoint cget (x : string) (l : cenv) : option cv :=
  match l with
  | [] => None
  | (y, v) :: t => if String.eqb x y then Some v else cget x t
  end.

(* assignment updates the binding in place; a declaration appends a new binding, which is dropped
   again when the block it was declared in ends *)
Fixpoint cset (x : string) (v : cv) (l : cenv) : cenv :=
  match l with
  | [] => [(x, v)]
  | (y, w) :: t => if String.eqb x y then (y, v) :: t else (y, w) :: cset x v t
  end.

(* pointer / int equality *)
Definition cv_eq (a b : cv) : option bool :=
  match a, b with
  | WUninit, _ | _, WUninit => None
  | WNull, WNull | WNone, WNone | WSelf, WSelf | WObj, WObj | WAlt, WAlt | WHooks, WHooks
  | WCnaArgs, WCnaArgs => Some true
  | WVal v, WVal w => Some (Nat.eqb v w)
  | WInt n, WInt m => Some (Nat.eqb n m)
  | WInt 0, WNull | WNull, WInt 0 => Some true       (* if (!x) on an int / pointer *)
  | WBoolObj x, WBoolObj y => Some (Bool.eqb x y)
  | WHook i _, WHook j _ => Some (Nat.eqb i j)
  | WConf _, WConf _ => Some true                    (* there is one __conform__ per call *)
  | WTuple _ _, WTuple _ _ | WOpaque, WOpaque => None
  | _, _ => Some false
  end.

Definition ctruth (v : cv) : option bool :=
  match v with
  | WUninit => None
  | WNull => Some false
  | WInt 0 => Some false
  | _ => Some true
  end.

Definition of_bool (b : bool) : cv := WInt (if b then 1 else 0).

Definition cv_of_value (a : value) : cv := match a with VObj => WObj | VVal v => WVal v end.

Section CInterp.
  Variable o : obj.
  Variable k : kls.
  (* self.__adapt__(obj) and IB__adapt__(self, obj), as seen from IB__call__ *)
  Variable adapt_method : list ev * res (option value).
  Variable builtin_adapt : list ev * res (option value).

  Fixpoint ceval (err : option cerr) (l : cenv) (e : cexpr) : option cv :=
    let bin (f : cv -> cv -> option cv) a b :=
      match ceval err l a, ceval err l b with
      | Some x, Some y => f x y
      | _, _ => None
      end in
    match e with
    | XVar x => match cget x l with Some WUninit => None | r => r end
    | XNull => Some WNull
    | XNone => Some WNone
    | XInt n => Some (WInt n)
    | XEq a b => bin (fun x y => option_map of_bool (cv_eq x y)) a b
    | XNe a b => bin (fun x y => option_map (fun t => of_bool (negb t)) (cv_eq x y)) a b
    | XLt a b => bin (fun x y => match x, y with WInt n, WInt m => Some (of_bool (Nat.ltb n m)) | _, _ => None end) a b
    | XOr a b =>
        (* short-circuit *)
        match ceval err l a with
        | Some x => match ctruth x with
                    | Some true => Some (WInt 1)
                    | Some false => match ceval err l b with
                                    | Some y => option_map of_bool (ctruth y)
                                    | None => None
                                    end
                    | None => None
                    end
        | None => None
        end
    | XAnd a b =>
        match ceval err l a with
        | Some x => match ctruth x with
                    | Some false => Some (WInt 0)
                    | Some true => match ceval err l b with
                                   | Some y => option_map of_bool (ctruth y)
                                   | None => None
                                   end
                    | None => None
                    end
        | None => None
        end
    | XNot a => match ceval err l a with
                | Some x => option_map (fun t => of_bool (negb t)) (ctruth x)
                | None => None
                end
    | XAdd a b => bin (fun x y => match x, y with WInt n, WInt m => Some (WInt (n + m)) | _, _ => None end) a b
    | XSub a b => bin (fun x y => match x, y with
                                  | WInt n, WInt m => if Nat.leb m n then Some (WInt (n - m)) else None
                                  | _, _ => None end) a b
    | XHasFlag f =>
        Some (if match f with FAdapt => k_flag_own k | FProv => k_pflag_own k end then WOpaque else WNull)
    | XErrMatches x =>
        Some (match err with
              | Some (ERaised r) => of_bool (xmatches x r)
              | Some ECouldNotAdapt => of_bool (match x with XTypeError => true | XAttributeError => false end)
              | None => WInt 0
              end)
    | XListItem a i =>
        bin (fun x y => match x, y with
                        | WHooks, WInt n => match nth_error (hooks o) n with
                                            | Some h => Some (WHook n h)
                                            | None => None      (* out of bounds *)
                                            end
                        | _, _ => None end) a i
    | XListSize a =>
        match ceval err l a with
        | Some WHooks => Some (WInt (List.length (hooks o)))
        | _ => None
        end
    end.

  (* result of an API call: log, returned value, new error indicator; None = outside the model *)
  Definition api_res := option (list ev * cv * option cerr).

  Definition of_ares (lg : list ev) (r : res (option value)) : api_res :=
    match r with
    | Ok None => Some (lg, WNone, None)
    | Ok (Some a) => Some (lg, cv_of_value a, None)
    | Raise x => Some (lg, WNull, Some (ERaised x))
    end.

  Definition do_api (err : option cerr) (l : cenv) (a : capi) : api_res :=
    let ev1 e := ceval err l e in
    match a with
    | AGetAttrConform e =>
        match ev1 e with
        | Some WObj =>
            match getattr_conform (conf o) with
            | Ok None => Some ([EvGetConform], WNone, None)
            | Ok (Some _) => Some ([EvGetConform], WConf (conf o), None)
            | Raise r => Some ([EvGetConform], WNull, Some (ERaised r))
            end
        | _ => None
        end
    | ACallConformMethod s c =>
        match ev1 s, ev1 c with
        | Some WSelf, Some (WConf cc) =>
            (* the Python method InterfaceClass._call_conform *)
            match call_conform cc with
            | Ok None => Some ([EvCallConform], WNone, None)
            | Ok (Some v) => Some ([EvCallConform], WVal v, None)
            | Raise r => Some ([EvCallConform], WNull, Some (ERaised r))
            end
        | _, _ => None
        end
    | ACallAdaptMethod s ob =>
        match ev1 s, ev1 ob with
        | Some WSelf, Some WObj => of_ares (fst adapt_method) (snd adapt_method)
        | _, _ => None
        end
    | ABuiltinAdapt s ob =>
        match ev1 s, ev1 ob with
        | Some WSelf, Some WObj => of_ares (fst builtin_adapt) (snd builtin_adapt)
        | _, _ => None
        end
    | ACallProvidedBy s ob =>
        match ev1 s, ev1 ob with
        | Some WSelf, Some WObj =>
            let (lg, r) := prov_mro (k_prov k) o in
            match r with
            | Ok b => Some (lg, WBoolObj b, None)
            | Raise x => Some (lg, WNull, Some (ERaised x))
            end
        | _, _ => None
        end
    | AIsTrue e =>
        match ev1 e with
        | Some (WBoolObj b) => Some ([], of_bool b, None)
        | _ => None
        end
    | ACallObject f args =>
        match ev1 f, ev1 args with
        | Some (WHook i h), Some (WTuple WSelf WObj) => of_ares [EvHook i] (call_hook h)
        | _, _ => None
        end
    | ATupleNew2 => Some ([], WTuple WNull WNull, None)
    | ABuildCouldNotAdapt ob s =>
        match ev1 ob, ev1 s with
        | Some WObj, Some WSelf => Some ([], WCnaArgs, None)
        | _, _ => None
        end
    | AGetHooks => Some ([], WHooks, None)
    end.

  Inductive kctl :=
  | KNorm (l : cenv) (err : option cerr)
  | KRet (v : cv) (err : option cerr)
  | KStuck.

  Definition kblock (ex : option cerr -> cenv -> cstmt -> list ev * kctl) :=
    fix go (err : option cerr) (l : cenv) (ss : list cstmt) : list ev * kctl :=
      match ss with
      | [] => ([], KNorm l err)
      | s :: rest =>
          match ex err l s with
          | (l1, KNorm l' err') => let (l2, c) := go err' l' rest in (l1 ++ l2, c)
          | r => r
          end
      end.

  (* for (...; c; step) body, at most [n] evaluations of the condition *)
  Definition kfor (run : option cerr -> cenv -> list cstmt -> list ev * kctl)
             (c : cexpr) (step body : list cstmt) :=
    fix loop (n : nat) (err : option cerr) (l : cenv) : list ev * kctl :=
      match n with
      | 0 => ([], KStuck)
      | S n' =>
          match ceval err l c with
          | Some v =>
              match ctruth v with
              | Some true =>
                  match run err l body with
                  | (l1, KNorm l1' e1) =>
                      (* locals declared in the body block go out of scope *)
                      match run e1 (firstn (List.length l) l1') step with
                      | (l2, KNorm l2' e2) => let (l3, r) := loop n' e2 l2' in (l1 ++ l2 ++ l3, r)
                      | (l2, r) => (l1 ++ l2, r)
                      end
                  | r => r
                  end
              | Some false => ([], KNorm l err)
              | None => ([], KStuck)
              end
          | None => ([], KStuck)
          end
      end.

  Fixpoint kexec (err : option cerr) (l : cenv) (s : cstmt) : list ev * kctl :=
    match s with
    | KDecl x => ([], KNorm (cset x WUninit l) err)
    | KAssign x e =>
        match ceval err l e with
        | Some v => ([], KNorm (cset x v l) err)
        | None => ([], KStuck)
        end
    | KCall x a =>
        match do_api err l a with
        | Some (lg, v, None) => (lg, KNorm (cset x v l) err)
        | Some (lg, v, Some e') => (lg, KNorm (cset x v l) (Some e'))
        | None => ([], KStuck)
        end
    | KInlineProvided x s ob =>
        match ceval err l s, ceval err l ob with
        | Some WSelf, Some WObj => ([EvProvided], KNorm (cset x (of_bool (provides o)) l) err)
        | _, _ => ([], KStuck)
        end
    | KTupleSet t i e =>
        match cget t l, ceval err l e with
        | Some (WTuple a b), Some v =>
            match i with
            | 0 => ([], KNorm (cset t (WTuple v b) l) err)
            | 1 => ([], KNorm (cset t (WTuple a v) l) err)
            | _ => ([], KStuck)
            end
        | _, _ => ([], KStuck)
        end
    | KErrClear => ([], KNorm l None)
    | KErrSetTypeError e =>
        match ceval err l e with
        | Some WCnaArgs => ([], KNorm l (Some ECouldNotAdapt))
        | _ => ([], KStuck)
        end
    | KParseArgs x y =>
        ([], KNorm (match alternate o with
                    | Some _ => cset y WAlt (cset x WObj l)
                    | None => cset x WObj l
                    end) err)
    | KIf c thn els =>
        match ceval err l c with
        | Some v =>
            match ctruth v with
            | Some b =>
                match kblock kexec err l (if b then thn else els) with
                | (lg, KNorm l' e') => (lg, KNorm (firstn (List.length l) l') e')   (* block scope ends *)
                | r => r
                end
            | None => ([], KStuck)
            end
        | None => ([], KStuck)
        end
    | KReturn e =>
        match ceval err l e with
        | Some v => ([], KRet v err)
        | None => ([], KStuck)
        end
    | KFor init c step body =>
        match kblock kexec err l init with
        | (l1, KNorm l' e') =>
            let (l2, r) := kfor (kblock kexec) c step body (S (List.length (hooks o))) e' l' in (l1 ++ l2, r)
        | r => r
        end
    end.

  (* run a function with [self] (and, for IB__adapt__, [obj]) bound *)
  Definition run_cfn (params : cenv) (body : list cstmt) : list ev * kctl :=
    kblock kexec None params body.
End CInterp.

(* how a C function returning PyObject* ended: value, or NULL with the error indicator set *)
Definition ares_of_kctl (c : kctl) : option (res (option value)) :=
  match c with
  | KRet WNone None => Some (Ok None)
  | KRet WObj None => Some (Ok (Some VObj))
  | KRet (WVal v) None => Some (Ok (Some (VVal v)))
  | KRet WNull (Some (ERaised r)) => Some (Raise r)
  | _ => None
  end.

Definition outcome_of_kctl (c : kctl) : option outcome :=
  match c with
  | KRet WObj None => Some ReturnObj
  | KRet (WVal v) None => Some (Return v)
  | KRet WAlt None => Some ReturnAlt
  | KRet WNull (Some (ERaised r)) => Some (RaiseE r)
  | KRet WNull (Some ECouldNotAdapt) => Some RaiseCouldNotAdapt
  | _ => None
  end.
