(* C20 model: the declaration algebra.

   Mirrors (src/zope/interface)
     declarations.py  Declaration.__init__ / __contains__ / __iter__ / flattened /
                      __sub__ / __add__ / __radd__, _normalizeargs,
                      Declaration._add_interfaces_to_cls, Provides.__init__,
                      directlyProvides / directlyProvidedBy / alsoProvides / noLongerProvides
     interface.py     Specification.interfaces, InterfaceClass.interfaces,
                      Specification.extends, SpecificationBase.isOrExtends,
                      Specification.changed (__sro__ / __iro__ / _implied) through Model/Ro.v

   World: a STATIC specification graph [g : Ro.graph] (no rebasing) whose nodes are numbered
   [nat]; node [root] = 0 is zope.interface.Interface.  [ifs] lists the nodes that are
   InterfaceClass instances; every other node is a class specification (an Implements object:
   implementedBy(cls)), whose __bases__ are the declared interfaces followed by the
   specifications of the base classes.  Names are unique, so [==] / hashing of interfaces is
   identity = equality of numbers.

   A declaration is represented by its __bases__ (an ordered list of nodes).  Every operation
   is a function returning a new list: operands are never modified (see [dstep] for the
   store-passing version used to state this).  Executable definitions only; no proofs. *)
From Coq Require Import List Arith Bool.
Import ListNotations.
From ZI Require Import Model.Ro.

Definition root : node := 0.

(* ``seen = {} ; for x in l: if x not in seen: seen[x] = 1; yield x`` *)
Fixpoint dedupe_acc (seen l : list node) : list node :=
  match l with
  | [] => []
  | x :: t => if mem x seen then dedupe_acc seen t else x :: dedupe_acc (x :: seen) t
  end.
Definition dedupe (l : list node) : list node := dedupe_acc [] l.

Definition list_max (l : list nat) : nat := fold_right Nat.max 0 l.

Definition decl := list node.          (* a declaration's __bases__ *)

(* declaration arguments: an interface or class specification, a (nested) tuple/list, or a
   Declaration object *)
Inductive tree :=
| Leaf (x : node)
| Seq (ts : list tree)
| OfDecl (d : decl).

Section World.
  Variable g : graph.
  Variable ifs : list node.

  Definition is_iface (x : node) : bool := mem x ifs.

  (* spec.interfaces(): InterfaceClass.interfaces yields the interface itself;
     Specification.interfaces walks the bases and keeps first occurrences *)
  Fixpoint interfaces_f (fuel : nat) (x : node) : list node :=
    if is_iface x then [x]
    else match fuel with
         | 0 => []
         | S f => dedupe (flat_map (interfaces_f f) (bases g x))
         end.
  Definition interfaces (x : node) : list node := interfaces_f (S x) x.

  (* Specification.interfaces on a Declaration with these bases; also Declaration.__iter__ *)
  Definition decl_interfaces (d : decl) : list node := dedupe (flat_map interfaces d).
  Definition iter (d : decl) : list node := decl_interfaces d.

  (* _normalizeargs: InterfaceClass / Implements instances are kept, anything else is iterated;
     iterating a Declaration is Declaration.__iter__ *)
  Fixpoint normalize (t : tree) : list node :=
    match t with
    | Leaf x => [x]
    | Seq ts => flat_map normalize ts
    | OfDecl d => decl_interfaces d
    end.

  (* Declaration( *args ).__bases__ *)
  Definition mk_decl (args : list tree) : decl := flat_map normalize args.

  (* __sro__ of an existing specification, as Specification.changed computes it *)
  Definition sro (x : node) : list node := fresh_sro (S x) root g x.

  (* x.isOrExtends(y) == x.extends(y, 0) == y in x._implied ; x.extends(y) *)
  Definition is_or_extends (x y : node) : bool := mem y (sro x).
  Definition extends_strict (x y : node) : bool := is_or_extends x y && negb (Nat.eqb x y).

  (* the declaration object itself is a new node on top of the graph *)
  Definition fresh_id (d : decl) : node := S (Nat.max (list_max (map fst g)) (list_max d)).
  Definition decl_sro (d : decl) : list node :=
    fresh_sro (S (fresh_id d)) root ((fresh_id d, d) :: g) (fresh_id d).

  (* Declaration.__contains__: self.extends(interface) and interface in self.interfaces() *)
  Definition contains (d : decl) (x : node) : bool :=
    (mem x (decl_sro d) && negb (Nat.eqb (fresh_id d) x)) && mem x (decl_interfaces d).

  (* Declaration.flattened: iter(self.__iro__) *)
  Definition flattened (d : decl) : list node := filter is_iface (decl_sro d).

  (* Declaration.__sub__ (the result's __bases__) *)
  Definition sub (a b : decl) : decl :=
    filter (fun i => negb (existsb (fun j => is_or_extends i j) (decl_interfaces b)))
           (decl_interfaces a).

  (* the loop of Declaration.__add__ *)
  Fixpoint add_loop (before result seen l : list node) : list node * list node :=
    match l with
    | [] => (before, result)
    | i :: t =>
        if mem i seen then add_loop before result seen t
        else if existsb (fun x => extends_strict i x) result
             then add_loop (before ++ [i]) result (i :: seen) t
             else add_loop before (result ++ [i]) (i :: seen) t
    end.

  Definition add (a b : decl) : decl :=
    let r := decl_interfaces a in
    let '(bf, res) := add_loop [] r r (decl_interfaces b) in bf ++ res.

  (* ``x + A`` for an operand [x] without __add__ (an interface): Declaration.__radd__ = __add__ *)
  Definition radd (x : node) (a : decl) : decl := add a [x].

  (* ---- instance declarations for an object whose class has specification [c].
     The state is the object's __provides__: None, or the __bases__ of its Provides object
     (the last base is [c]). *)
  Definition strip_cls (c : node) (l : list node) : list node :=      (* _add_interfaces_to_cls *)
    filter (fun i => negb (is_or_extends c i)) l.

  Definition directly_provides (c : node) (args : list tree) : list node :=
    strip_cls c (mk_decl args) ++ [c].

  (* Declaration(provides.__bases__[:-1]), or _empty *)
  Definition directly_provided_by (p : option (list node)) : decl :=
    match p with None => [] | Some bs => removelast bs end.

  Definition also_provides (c : node) (p : option (list node)) (args : list tree) : option (list node) :=
    Some (directly_provides c (OfDecl (directly_provided_by p) :: args)).

  (* new state, and whether ValueError is raised afterwards (interface.providedBy(object)) *)
  Definition no_longer_provides (c : node) (p : option (list node)) (i : node)
    : option (list node) * bool :=
    let p' := directly_provides c [OfDecl (sub (directly_provided_by p) [i])] in
    (Some p', mem i (decl_sro p')).

  (* providedBy(ob) for such an object *)
  Definition provided_by (c : node) (p : option (list node)) : decl :=
    match p with None => [c] | Some bs => bs end.

  (* ---- store-passing version: declarations live in a store, addressed by position *)
  Inductive dop :=
  | OMk (args : list tree)
  | OAdd (a b : nat)
  | OSub (a b : nat)
  | OQuery (a : nat).       (* iteration / membership / flattened: results only *)

  Definition dstep (s : list decl) (o : dop) : list decl :=
    match o with
    | OMk args => s ++ [mk_decl args]
    | OAdd a b => s ++ [add (nth a s []) (nth b s [])]
    | OSub a b => s ++ [sub (nth a s []) (nth b s [])]
    | OQuery _ => s
    end.
End World.
