(* C10 models: the twin kernels of zope.interface, each written twice — once from the C text
   (src/zope/interface/_zope_interface_coptimizations.c, prefix [c_]) and once from the Python
   text (interface.py / declarations.py, prefix [py_]).  Executable definitions only.

   Twins modelled here (the comparison twin IB_richcompare / _compare on well-formed operands is
   Model/Order.v, the lookup twins are Model/CLookup.v, IB__call__ is Model/Adapt.v):

     1. SB_extends, SB__call__, SB_providedBy, SB_implementedBy  vs  SpecificationBase.isOrExtends,
        __call__, providedBy, implementedBy   (membership in the implied set)
     2. IB__hash__  vs  InterfaceBase.__hash__   (the cached-hash protocol)
     3. implementedBy (C fast path + fallback)  vs  declarations.implementedBy
     4. getObjectSpecification, providedBy  (C)  vs  declarations.getObjectSpecification, providedBy
     5. OSD_descr_get vs ObjectSpecificationDescriptor.__get__,
        CPB_descr_get vs ClassProvidesBase.__get__
     6. IB_richcompare vs InterfaceBase.__eq__/__ne__/__lt__... when the other operand carries a
        __name__ / __module__ that is not a string

   The C text is the one of /repo after the fix commits 6e508eb..a57249b (found by this property:
   unset _implied / unhashable operands in SB_extends, foreign declarations asked by calling them,
   providedBy swallowing every exception, ClassProvidesBase / hash error reporting); the models
   transcribe that text.  Two differences between the texts remain and are stated as refutations:
   comparison with a foreign object whose __name__ is not a string (known finding G8) and a latent
   one in providedBy (isinstance raising AttributeError).

   Everything the kernels read from the outside (attribute reads, isinstance answers, what a foreign
   object answers when called) is part of the *description* of the input, so the theorems hold
   for every behaviour of the environment.  Objects are numbered by identity ([nat]). *)
From Coq Require Import List NArith Bool ZArith Arith.
Import ListNotations.
From ZI Require Import Lib.Str Lib.Util Model.Order.

(* ------------------------------------------------------------------------------------------
   outcomes *)

(* the exception a call ends with.  [ESys] is "the C function returned NULL without setting an
   exception", which the interpreter turns into SystemError *)
Inductive exc := EAttr | EType | ESys | EOther (tag : nat).

Inductive res (A : Type) := Ok (a : A) | Raise (e : exc).
Arguments Ok {A} a.
Arguments Raise {A} e.

Definition exc_eqb (a b : exc) : bool :=
  match a, b with
  | EAttr, EAttr | EType, EType | ESys, ESys => true
  | EOther x, EOther y => Nat.eqb x y
  | _, _ => false
  end.

Definition res_eqb {A} (eqb : A -> A -> bool) (a b : res A) : bool :=
  match a, b with
  | Ok x, Ok y => eqb x y
  | Raise e, Raise f => exc_eqb e f
  | _, _ => false
  end.

(* the outcome of reading an attribute / calling a function that yields an object *)
Definition probe := res nat.

(* ------------------------------------------------------------------------------------------
   1. membership in the implied set *)

(* what the [_implied] slot holds once assigned: None or a dict (its keys, by identity of the
   specification objects used as keys) *)
Inductive ival := IvNone | IvDict (keys : list nat).

(* the operand tested for membership: its identity and what hash(operand) does *)
Record operand_k := mkK { k_id : nat; k_hash : option exc (* Some e: __hash__ raises e *) }.

(* [k in v]  /  PySequence_Contains(v, k): the same CPython operation *)
Definition contains (v : ival) (k : operand_k) : res bool :=
  match v with
  | IvNone => Raise EType                        (* argument of type 'NoneType' is not iterable *)
  | IvDict ks => match k_hash k with
                 | Some e => Raise e             (* unhashable type *)
                 | None => Ok (mem_nat (k_id k) ks)
                 end
  end.

(* SpecificationBase.isOrExtends:  return interface in self._implied
   ([slot] = None: the slot was never assigned, reading it raises AttributeError) *)
Definition py_isOrExtends (slot : option ival) (k : operand_k) : res bool :=
  match slot with
  | None => Raise EAttr
  | Some v => contains v k
  end.

(* SB_extends:  implied == NULL -> AttributeError("_implied");
                PySequence_Contains(implied, other), a negative answer is an error *)
Definition c_SB_extends (slot : option ival) (k : operand_k) : res bool :=
  match slot with
  | None => Raise EAttr
  | Some v => match contains v k with
              | Raise e => Raise e               (* contains < 0: return NULL *)
              | Ok b => Ok b
              end
  end.

(* __call__ = isOrExtends  /  SB__call__: PyArg_ParseTuple(args, "O") then SB_extends
   (positional arguments only) *)
Definition py_spec_call (slot : option ival) (args : list operand_k) : res bool :=
  match args with [k] => py_isOrExtends slot k | _ => Raise EType end.
Definition c_SB_call (slot : option ival) (args : list operand_k) : res bool :=
  match args with [k] => c_SB_extends slot k | _ => Raise EType end.

(* what providedBy(ob) / implementedBy(cls) handed back, as seen by the membership test *)
Record decl_d := mkDecl {
  d_is_sb : bool;            (* PyObject_TypeCheck(decl, SpecificationBase) *)
  d_implied : res ival;      (* decl._implied: for one of our specifications the slot (Raise EAttr
                                when unset), for anything else an attribute read *)
  d_call : res bool          (* what decl(self) answers *)
}.

(* SpecificationBase.providedBy / implementedBy:
       spec = providedBy(ob)
       try: implied = spec._implied
       except AttributeError: return spec(self)
       return self in implied *)
Definition py_spec_providedBy (decl : res decl_d) (self : operand_k) : res bool :=
  match decl with
  | Raise e => Raise e
  | Ok d => match d_implied d with
            | Raise EAttr => d_call d
            | Raise e => Raise e
            | Ok v => contains v self
            end
  end.

(* _foreign_decl_implies *)
Definition c_foreign_decl_implies (d : decl_d) (self : operand_k) : res bool :=
  match d_implied d with
  | Raise EAttr => d_call d                      (* PyErr_Clear(); PyObject_CallFunctionObjArgs(decl, self) *)
  | Raise e => Raise e
  | Ok v => contains v self
  end.

(* SB_providedBy / SB_implementedBy:
       decl = providedBy(module, ob); if NULL return NULL;
       if PyObject_TypeCheck(decl, SB) && decl->_implied != NULL: item = SB_extends(decl, self)
       else item = _foreign_decl_implies(decl, self) *)
Definition c_SB_providedBy (decl : res decl_d) (self : operand_k) : res bool :=
  match decl with
  | Raise e => Raise e
  | Ok d =>
      match d_is_sb d, d_implied d with
      | true, Ok v => c_SB_extends (Some v) self
      | _, _ => c_foreign_decl_implies d self
      end
  end.

(* the provided-check at the head of IB__adapt__ is the same decision with the answer reduced to
   its truth value (PySequence_Contains / PyObject_IsTrue(_foreign_decl_implies(decl, self)));
   InterfaceBase.__adapt__ does "if self.providedBy(obj)" *)
Definition c_IB_adapt_check := c_SB_providedBy.
Definition py_adapt_check := py_spec_providedBy.

(* ------------------------------------------------------------------------------------------
   2. the cached hash *)

(* hash((self.__name__, self.__module__)): a value that is never -1, or an exception *)
Definition tuple_hash := res Z.

(* C state: the two member slots and _v_cached_hash (0 = nothing cached) *)
Record c_hstate := mkCH { ch_name_set : bool; ch_module_set : bool; ch_cached : Z }.

(* IB__hash__ as seen through hash() *)
Definition c_IB_hash (th : tuple_hash) (s : c_hstate) : res Z * c_hstate :=
  if negb (ch_module_set s) then (Raise EAttr, s)
  else if negb (ch_name_set s) then (Raise EAttr, s)
  else if negb (Z.eqb (ch_cached s) 0) then (Ok (ch_cached s), s)
  else match th with
       | Raise e => (Raise e, s)                          (* hash == -1: return -1, nothing remembered *)
       | Ok h => (Ok h, mkCH true true h)
       end.

(* Python state: the slots __name__, __ibmodule__, _v_cached_hash (None = unset) *)
Record py_hstate := mkPH { ph_name_set : bool; ph_module_set : bool; ph_cached : option Z }.

(*  try: return self._v_cached_hash
    except AttributeError: self._v_cached_hash = hash((self.__name__, self.__module__))
    return self._v_cached_hash *)
Definition py_hash (th : tuple_hash) (s : py_hstate) : res Z * py_hstate :=
  match ph_cached s with
  | Some h => (Ok h, s)
  | None =>
      if negb (ph_name_set s) then (Raise EAttr, s)
      else if negb (ph_module_set s) then (Raise EAttr, s)
      else match th with
           | Raise e => (Raise e, s)
           | Ok h => (Ok h, mkPH true true (Some h))
           end
  end.

(* n successive calls of hash() *)
Fixpoint c_hash_run (th : tuple_hash) (n : nat) (s : c_hstate) : list (res Z) :=
  match n with
  | 0 => []
  | S n' => let '(r, s') := c_IB_hash th s in r :: c_hash_run th n' s'
  end.
Fixpoint py_hash_run (th : tuple_hash) (n : nat) (s : py_hstate) : list (res Z) :=
  match n with
  | 0 => []
  | S n' => let '(r, s') := py_hash th s in r :: py_hash_run th n' s'
  end.

(* ------------------------------------------------------------------------------------------
   3. implementedBy *)

(* how reading cls.__dict__ ends *)
Inductive dict_read := DOk | DAttrErr | DExc (e : nat).

(* cls.__dict__['__implemented__'] *)
Inductive impl_entry :=
| EAbsent
| ENone
| ESpec (v : nat) (is_implements : bool).   (* isinstance(v, Implements) / PyObject_TypeCheck *)

Record cls_d := mkClsD {
  cd_is_super : bool;          (* isinstance(cls, super) *)
  cd_is_type : bool;           (* PyType_Check(cls): the C code then reads tp_dict directly *)
  cd_dict : dict_read;         (* cls.__dict__ through the attribute protocol *)
  cd_entry : impl_entry;
  cd_builtin : option nat      (* BuiltinImplementationSpecifications.get(cls) *)
}.

(* what implementedBy answers: an existing specification, or one of the slow paths of the Python
   function (which both implementations execute as the same Python code) *)
Inductive impl_out :=
| IRet (v : nat)               (* an existing specification is returned *)
| ISuper                       (* _implementedBy_super(cls) *)
| IGetattrPath                 (* the "except AttributeError" branch: getattr(cls, '__implemented__', None) ... *)
| IOldStyle                    (* __implemented__ is not an Implements: Implements.named(..., *_normalizeargs) *)
| ICreate                      (* a new Implements is computed and stored on the class *)
| IRaise (e : nat).

(* declarations.implementedBy *)
Definition py_implementedBy (d : cls_d) : impl_out :=
  if cd_is_super d then ISuper else
  match cd_dict d with
  | DAttrErr => IGetattrPath
  | DExc e => IRaise e
  | DOk =>
      match cd_entry d with
      | ESpec v true => IRet v
      | ESpec _ false => IOldStyle
      | EAbsent | ENone =>                       (* spec is None *)
          match cd_builtin d with
          | Some b => IRet b
          | None => ICreate
          end
      end
  end.

(* the C function: every "return implementedByFallback(module, cls)" calls the Python function *)
Definition c_implementedBy (d : cls_d) : impl_out :=
  if cd_is_super d then py_implementedBy d else
  match (if cd_is_type d then DOk else cd_dict d) with
  | DOk =>
      match cd_entry d with
      | ESpec v true => IRet v
      | ESpec _ false => py_implementedBy d                (* old-style declaration *)
      | ENone => py_implementedBy d                        (* PyObject_GetItem gives None: not an Implements *)
      | EAbsent =>                                         (* KeyError cleared *)
          match cd_builtin d with
          | Some b => IRet b
          | None => py_implementedBy d
          end
      end
  | _ => py_implementedBy d                                (* PyErr_Clear(); fallback *)
  end.

(* a class object's __dict__ is its tp_dict and reading it cannot fail (no metaclass overrides it) *)
Definition cls_regular (d : cls_d) : bool :=
  if cd_is_type d then match cd_dict d with DOk => true | _ => false end else true.

(* ------------------------------------------------------------------------------------------
   4. getObjectSpecification / providedBy *)

(* isinstance(ob, super) *)
Inductive super_check := SupFalse | SupTrue | SupAttrErr | SupExc (e : nat).

(* r.extends on the value of __providedBy__ *)
Inductive ext_read := ExtPresent | ExtAttrErr | ExtExc (e : nat).

Record obj_d := mkObjD {
  od_super : super_check;
  od_pb : probe;            (* ob.__providedBy__ *)
  od_pb_sb : bool;          (* PyObject_TypeCheck(that value, SpecificationBase) *)
  od_pb_ext : ext_read;     (* that value .extends *)
  od_prov : probe;          (* ob.__provides__ *)
  od_prov_sb : bool;        (* isinstance(that value, SpecificationBase) *)
  od_cls : probe;           (* ob.__class__ *)
  od_cprov : probe;         (* ob.__class__.__provides__ *)
  od_implby : probe;        (* implementedBy(ob.__class__) *)
  od_implby_self : probe;   (* implementedBy(ob)   (super objects) *)
  od_empty : nat            (* declarations._empty *)
}.

Definition exc_of_tag (e : nat) : exc := EOther e.

(* declarations.getObjectSpecification *)
Definition py_getObjectSpecification (d : obj_d) : probe :=
  match od_prov d with
  | Raise EAttr =>                                  (* provides = None *)
      match od_cls d with
      | Raise EAttr => Ok (od_empty d)
      | Raise e => Raise e
      | Ok _ => od_implby d
      end
  | Raise e => Raise e
  | Ok v =>
      if od_prov_sb d then Ok v else
      match od_cls d with
      | Raise EAttr => Ok (od_empty d)
      | Raise e => Raise e
      | Ok _ => od_implby d
      end
  end.

(* getObjectSpecification (C) *)
Definition c_getObjectSpecification (d : obj_d) : probe :=
  match od_prov d with
  | Raise EAttr =>
      match od_cls d with
      | Raise EAttr => Ok (od_empty d)
      | Raise e => Raise e
      | Ok _ => od_implby d
      end
  | Raise e => Raise e                              (* propagate non AttributeError exceptions *)
  | Ok v =>
      if od_prov_sb d then Ok v else                (* PyObject_IsInstance *)
      match od_cls d with
      | Raise EAttr => Ok (od_empty d)
      | Raise e => Raise e
      | Ok _ => od_implby d
      end
  end.

(* declarations.providedBy *)
Definition py_providedBy (d : obj_d) : probe :=
  match od_super d with
  | SupTrue => od_implby_self d
  | SupAttrErr => py_getObjectSpecification d       (* except AttributeError *)
  | SupExc e => Raise (exc_of_tag e)
  | SupFalse =>
      match od_pb d with
      | Raise EAttr => py_getObjectSpecification d
      | Raise e => Raise e
      | Ok r =>
          (* if SpecificationBase not in type(r).__mro__: r.extends *)
          match (if od_pb_sb d then ExtPresent else od_pb_ext d) with
          | ExtPresent => Ok r
          | ExtExc e => Raise (exc_of_tag e)         (* r.extends raised something else *)
          | ExtAttrErr =>
              match od_prov d with
              | Raise EAttr =>                       (* return implementedBy(ob.__class__) *)
                  match od_cls d with
                  | Raise e => Raise e
                  | Ok _ => od_implby d
                  end
              | Raise e => Raise e
              | Ok p =>
                  match od_cls d with
                  | Raise EAttr => Ok p              (* except AttributeError: return r *)
                  | Raise e => Raise e
                  | Ok _ =>
                      match od_cprov d with
                      | Raise EAttr => Ok p
                      | Raise e => Raise e
                      | Ok cp => if Nat.eqb p cp then od_implby d else Ok p
                      end
                  end
              end
          end
      end
  end.

(* providedBy (C) *)
Definition c_providedBy (d : obj_d) : probe :=
  match od_super d with
  | SupExc e => Raise (exc_of_tag e)
  | SupTrue | SupAttrErr => od_implby_self d        (* is_instance stays -1 after PyErr_Clear: "if (is_instance)" *)
  | SupFalse =>
      match od_pb d with
      | Raise EAttr => c_getObjectSpecification d
      | Raise e => Raise e
      | Ok r =>
          if od_pb_sb d then Ok r else               (* PyObject_TypeCheck(result, SpecificationBase) *)
          match od_pb_ext d with                     (* PyObject_GetAttrString(result, "extends") *)
          | ExtPresent => Ok r
          | ExtExc e => Raise (exc_of_tag e)         (* not an AttributeError: return NULL *)
          | ExtAttrErr =>
              match od_prov d with
              | Raise EAttr =>                       (* no __provides__: implementedBy(ob.__class__) *)
                  match od_cls d with
                  | Raise e => Raise e
                  | Ok _ => od_implby d
                  end
              | Raise e => Raise e
              | Ok p =>
                  match od_cls d with
                  | Raise EAttr => Ok p              (* the ob doesn't have a class *)
                  | Raise e => Raise e
                  | Ok _ =>
                      match od_cprov d with
                      | Raise EAttr => Ok p          (* the class has no provides *)
                      | Raise e => Raise e
                      | Ok cp => if Nat.eqb p cp then od_implby d else Ok p
                      end
                  end
              end
          end
      end
  end.

(* the only input on which the two texts differ: isinstance(ob, super) raising AttributeError
   (CPython's isinstance swallows the AttributeError of a __class__ read, so no object gets there) *)
Definition pb_regular (d : obj_d) : bool :=
  match od_super d with SupAttrErr => false | _ => true end.

(* ------------------------------------------------------------------------------------------
   5. the descriptors *)

(* ObjectSpecificationDescriptor.__get__(inst, cls) / OSD_descr_get, through the attribute protocol
   (inst is None / NULL exactly when the attribute is read from the class) *)
Record osd_d := mkOsdD {
  os_inst_none : bool;
  os_prov : probe;          (* inst.__provides__ *)
  os_gos : probe;           (* getObjectSpecification(cls) *)
  os_implby : probe         (* implementedBy(cls) *)
}.

Definition py_osd_get (d : osd_d) : probe :=
  if os_inst_none d then os_gos d else
  match os_prov d with
  | Raise EAttr => os_implby d
  | r => r
  end.

Definition c_OSD_descr_get (d : osd_d) : probe :=
  if os_inst_none d then os_gos d else
  match os_prov d with
  | Ok v => Ok v
  | Raise EAttr => os_implby d
  | Raise e => Raise e       (* provides == NULL and not an AttributeError: return NULL *)
  end.

(* ClassProvidesBase.__get__ / CPB_descr_get *)
Record cpb_d := mkCpbD {
  cp_self : nat;
  cp_cls_set : bool;             (* the _cls slot has been assigned *)
  cp_same_cls : bool;            (* cls is self._cls *)
  cp_inst_none : bool;
  cp_implements : option nat     (* the _implements slot *)
}.

Definition py_cpb_get (d : cpb_d) : probe :=
  if negb (cp_cls_set d) then Raise EAttr else       (* self._cls: AttributeError *)
  if cp_same_cls d then
    if cp_inst_none d then Ok (cp_self d)
    else match cp_implements d with Some v => Ok v | None => Raise EAttr end
  else Raise EAttr.                                   (* AttributeError('__provides__') *)

Definition c_CPB_descr_get (d : cpb_d) : probe :=
  if negb (cp_cls_set d) then Raise EAttr else        (* self->_cls == NULL: AttributeError("_cls") *)
  if cp_same_cls d then
    if cp_inst_none d then Ok (cp_self d)
    else match cp_implements d with Some v => Ok v | None => Raise EAttr end  (* AttributeError("_implements") *)
  else Raise EAttr.

(* ------------------------------------------------------------------------------------------
   6. comparison with a foreign object whose __name__ / __module__ need not be strings *)

Inductive pyname := VStr (s : str) | VInt (n : nat).

Definition pyname_eqb (a b : pyname) : bool :=
  match a, b with
  | VStr x, VStr y => str_eqb x y
  | VInt x, VInt y => Nat.eqb x y
  | _, _ => false
  end.

(* a OP b on two names: str with str, int with int; mixed orderings raise TypeError, mixed
   == / != answer False / True *)
Definition pyname_cmp (a b : pyname) : option comparison :=
  match a, b with
  | VStr x, VStr y => Some (str_cmp x y)
  | VInt x, VInt y => Some (Nat.compare x y)
  | _, _ => None
  end.

Inductive xres := XBool (b : bool) | XTypeErr.

Definition pyname_op (o : op) (a b : pyname) : xres :=
  match pyname_cmp a b with
  | Some c => XBool (op_on o c)
  | None => match o with OpEq => XBool false | OpNe => XBool true | _ => XTypeErr end
  end.

(* NameAndModuleComparisonMixin._compare on the key tuples:  (n1 > n2) - (n1 < n2).
   Tuple comparison looks for the first position where the elements are not ==, then applies the
   operator to that pair; both > and < are evaluated, > first *)
Definition tuple_order (o : op) (n1 m1 n2 m2 : pyname) : xres :=
  if pyname_eqb n1 n2 then
    if pyname_eqb m1 m2 then XBool (op_on o Eq) else pyname_op o m1 m2
  else pyname_op o n1 n2.

Definition py_compare_x (n1 m1 n2 m2 : pyname) : option comparison :=
  match tuple_order OpGt n1 m1 n2 m2, tuple_order OpLt n1 m1 n2 m2 with
  | XBool gt, XBool lt => Some (if gt then Gt else if lt then Lt else Eq)
  | _, _ => None                                  (* TypeError *)
  end.

(* InterfaceBase.__lt__ ... __eq__, __ne__ with [other] a distinct, non-None object that has both
   attributes: every operator goes through _compare *)
Definition py_method_x (o : op) (n1 m1 n2 m2 : pyname) : xres :=
  match py_compare_x n1 m1 n2 m2 with
  | Some c => XBool (op_on o c)
  | None => XTypeErr
  end.

(* IB_richcompare past the identity / None tests:
     result = RichCompareBool(self.__name__, othername, Py_EQ)
     if result == 0: result = RichCompareBool(self.__name__, othername, op)
     elif result == 1: result = RichCompareBool(self.__module__, othermod, op)
   (RichCompareBool(a, b, Py_EQ/Py_NE) answers by identity first, then by ==) *)
Definition c_richcompare_x (o : op) (n1 m1 n2 m2 : pyname) : xres :=
  if pyname_eqb n1 n2 then pyname_op o m1 m2 else pyname_op o n1 n2.

Definition names_are_str (n1 m1 n2 m2 : pyname) : bool :=
  match n1, m1, n2, m2 with VStr _, VStr _, VStr _, VStr _ => true | _, _, _, _ => false end.
