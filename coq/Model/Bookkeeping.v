(* Histories of ONE registry's storage operations (the subject of C09), on top of
   Model/Adapter.v (the transcription of BaseAdapterRegistry.register / unregister / subscribe /
   unsubscribe / rebuild).  Adds
     bop / bstep / brun      the operation language and its interpretation by Model/Adapter's functions
     replay_into             "pass every tuple of allRegistrations() to register() and every tuple of
                              allSubscriptions() to subscribe() of another registry" in a GIVEN order
                              (rebuild() is the instance: own listings, own order, fresh structures)
     live_count              number of live registrations + subscription entries providing p
     as_bop                  the storage operation (and registry) an operation of Model/RegSys.v stands for
   Executable definitions only. *)
From Coq Require Import List Arith Bool.
Import ListNotations.
From ZI Require Import Model.Ro Model.Adapter Model.Lookup Model.RegSys.

Inductive bop :=
| BRegister (req : list (option spec)) (p : spec) (n : name) (v : option value)
| BUnregister (req : list (option spec)) (p : spec) (n : name) (v : option value)
| BSubscribe (req : list (option spec)) (p : option spec) (v : value)
| BUnsubscribe (req : list (option spec)) (p : option spec) (v : option value)
| BRebuild.

Definition bstep (W : world) (r : reg) (o : bop) : reg :=
  match o with
  | BRegister req p n v => register W r req p n v
  | BUnregister req p n v => unregister W r req p n v
  | BSubscribe req p v => subscribe W r req p v
  | BUnsubscribe req p v => unsubscribe W r req p v
  | BRebuild => rebuild W r
  end.

Definition brun (W : world) (ops : list bop) : reg := fold_left (bstep W) ops empty_reg.

(* the two replay loops of rebuild(), on an arbitrary target and arbitrary listings *)
Definition replay_regs (W : world) (r0 : reg) (regs : list (akey * value)) : reg :=
  fold_left (fun acc kv => let '(req, p, n) := fst kv in
                           register W acc (map Some req) p n (Some (snd kv))) regs r0.
Definition replay_subs (W : world) (r0 : reg) (subs : list (skey * value)) : reg :=
  fold_left (fun acc kv => subscribe W acc (map Some (fst (fst kv))) (snd (fst kv)) (snd kv)) subs r0.
Definition replay_into (W : world) (r0 : reg) (regs : list (akey * value)) (subs : list (skey * value)) : reg :=
  replay_subs W (replay_regs W r0 regs) subs.

(* a registry whose data structures were just created: __init__ -> _setBases -> changed *)
Definition fresh_reg (g : nat) : reg := changed (mkReg [] [] [] [] g).

(* which interface an entry provides *)
Definition aprov (kv : akey * value) : spec := snd (fst (fst kv)).
Definition sprov (kv : skey * value) : option spec := snd (fst kv).

(* live registrations and subscription entries providing p *)
Definition live_count (r : reg) (p : spec) : nat :=
  length (filter (fun kv => Nat.eqb (aprov kv) p) (allRegistrations r))
  + length (filter (fun kv => ospec_eqb (sprov kv) (Some p)) (allSubscriptions r)).

(* the projection of the registry-system operations (Model/RegSys.rop) onto storage operations *)
Definition as_bop (o : rop) : option (nat * bop) :=
  match o with
  | ORegister r req p n v => Some (r, BRegister req p n v)
  | OUnregister r req p n v => Some (r, BUnregister req p n v)
  | OSubscribe r req p v => Some (r, BSubscribe req p v)
  | OUnsubscribe r req p v => Some (r, BUnsubscribe req p v)
  | ORebuild r => Some (r, BRebuild)
  | _ => None
  end.

(* the same histories on the nested-dictionary model (Model/Trie.v) *)
From ZI Require Import Model.Trie.

Definition t_bstep (W : world) (t : treg) (o : bop) : treg :=
  match o with
  | BRegister req p n v => t_register W t req p n v
  | BUnregister req p n v => t_unregister W t req p n v
  | BSubscribe req p v => t_subscribe W t req p v
  | BUnsubscribe req p v => t_unsubscribe W t req p v
  | BRebuild => t_rebuild W t
  end.

Definition t_brun (W : world) (ops : list bop) : treg := fold_left (t_bstep W) ops t_empty.

(* the two models in lockstep: the flat model does what [bstep] does, except that rebuild() replays in
   the enumeration order of the nested dictionaries (Model/Adapter.rebuild replays in the flat list's
   own order, which the code cannot see) *)
Definition lock_step (W : world) (st : treg * reg) (o : bop) : treg * reg :=
  (t_bstep W (fst st) o,
   match o with
   | BRebuild => replay_into W (fresh_reg (generation (snd st)))
                             (t_allRegistrations (fst st)) (t_allSubscriptions (fst st))
   | _ => bstep W (snd st) o
   end).
Definition lock_run (W : world) (ops : list bop) : treg * reg := fold_left (lock_step W) ops (t_empty, empty_reg).
