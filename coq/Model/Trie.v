(* BaseAdapterRegistry's storage AS THE CODE HAS IT: nested dictionaries.
   Transcription of src/zope/interface/adapter.py
     BaseAdapterRegistry.register / unregister / subscribe / unsubscribe / _find_leaf (registered,
       subscribed) / _allKeys / _all_entries (allRegistrations, allSubscriptions) / rebuild,
       _addValueToLeaf / _removeValueFromLeaf, the pruning loops and the byorder padding / stripping
     module functions _lookup / _lookupAll / _subscriptions (WITH their ``if comps:`` tests)
     AdapterLookupBase._uncached_lookup / _uncached_lookupAll / _uncached_subscriptions
       (WITH their ``order >= len(byorder)`` guards)

   A Python dict is an insertion-ordered association list with unique keys ([aget]/[aset]/[adel] of
   Model/Adapter.v: assignment to an existing key keeps its position, a new key goes last, deletion
   removes the entry).  A dict value is either another dict or a payload:

     trie P ::= Leaf (p : P) | Node (l : list (nat * trie P))

   _adapters    : list (trie value)         byorder[i] = {r1 -> ... {ri -> {provided -> {name -> Leaf v}}}}
   _subscribers : list (trie (list value))  byorder[i] = {r1 -> ... {ri -> {provided -> {'' -> Leaf tuple}}}}
   Keys are numbers: specifications and names as in Model/Adapter.v; at the provided level of
   _subscribers ``None`` is 0 and interface p is S p ([pkey]).

   The mutation-through-aliases of the Python code (``components = d`` then ``components[k] = ...``,
   the ``lookups`` list of (dict, key) pairs) becomes a recursion along the key path that rebuilds the
   spine; one return step of [tremove] is one iteration of the pruning loop
   ``for comp, k in reversed(lookups): d = comp[k]; if d: break; else: del comp[k]``
   (once a level stays non-empty every level above keeps its entry: the ``break``).

   _provided / extendors / generation are handled by Model/Adapter's provide_incr / provide_decr /
   changed (the same transcription serves both models).  Executable definitions only. *)
From Coq Require Import List Arith Bool.
Import ListNotations.
From ZI Require Import Model.Ro Model.Adapter.

Inductive trie (P : Type) : Type :=
| Leaf (p : P)
| Node (l : list (nat * trie P)).
Arguments Leaf {P} _.
Arguments Node {P} _.

Section Trie.
  Context {P : Type}.

  Definition items (t : trie P) : list (nat * trie P) := match t with Node l => l | Leaf _ => [] end.
  Definition tempty : trie P := Node [].
  (* components.get(k) *)
  Definition tget (t : trie P) (k : nat) : option (trie P) := aget Nat.eqb (items t) k.
  (* ``if comps:`` on a dictionary *)
  Definition truthy (t : trie P) : bool := match t with Node [] => false | _ => true end.

  (* walk down an existing path: for k in key: d = components.get(k); if d is None: return None *)
  Fixpoint tfind (path : list nat) (t : trie P) : option (trie P) :=
    match path with
    | [] => Some t
    | k :: path' => match tget t k with Some d => tfind path' d | None => None end
    end.

  (* for k in key: d = components.get(k); if d is None: d = {}; components[k] = d; components = d
     and then components[last] = f(components.get(last)) *)
  Fixpoint tupsert (path : list nat) (last : nat) (f : option (trie P) -> trie P) (t : trie P) : trie P :=
    match path with
    | [] => Node (aset Nat.eqb (items t) last (f (tget t last)))
    | k :: path' =>
        let d := match tget t k with Some d => d | None => tempty end in
        Node (aset Nat.eqb (items t) k (tupsert path' last f d))
    end.

  (* del components[last] at the end of an EXISTING path, then the pruning loop *)
  Fixpoint tremove (path : list nat) (last : nat) (t : trie P) : trie P :=
    match path with
    | [] => Node (adel Nat.eqb (items t) last)
    | k :: path' =>
        match tget t k with
        | None => t
        | Some d =>
            let d' := tremove path' last d in
            if truthy d' then Node (aset Nat.eqb (items t) k d')      (* if d: break *)
            else Node (adel Nat.eqb (items t) k)                       (* else: del comp[k] *)
        end
    end.

  (* _allKeys(components, i, parent_k) *)
  Fixpoint all_keys (i : nat) (t : trie P) (parent : list nat) : list (list nat * trie P) :=
    match i with
    | 0 => map (fun kv => (parent ++ [fst kv], snd kv)) (items t)
    | S i' => flat_map (fun kv => all_keys i' (snd kv) (parent ++ [fst kv])) (items t)
    end.

  (* _all_entries(byorder): for i, components in enumerate(byorder): _allKeys(components, i + 1) *)
  Fixpoint all_entries_from (i : nat) (byorder : list (trie P)) : list (nat * (list nat * trie P)) :=
    match byorder with
    | [] => []
    | c :: rest => map (fun e => (i, e)) (all_keys (S i) c []) ++ all_entries_from (S i) rest
    end.

  (* while len(byorder) <= order: byorder.append({}) *)
  Definition pad (byorder : list (trie P)) (order : nat) : list (trie P) :=
    byorder ++ repeat tempty (S order - length byorder).

  (* while byorder and not byorder[-1]: del byorder[-1] *)
  Fixpoint strip (byorder : list (trie P)) : list (trie P) :=
    match byorder with
    | [] => []
    | c :: rest => match strip rest with
                   | [] => if truthy c then [c] else []
                   | rest' => c :: rest'
                   end
    end.

  Fixpoint set_nth (l : list (trie P)) (i : nat) (x : trie P) : list (trie P) :=
    match l, i with
    | [], _ => []
    | _ :: l', 0 => x :: l'
    | y :: l', S i' => y :: set_nth l' i' x
    end.

  Definition order_get (byorder : list (trie P)) (order : nat) : trie P := nth order byorder tempty.
End Trie.

Definition pkey (p : option spec) : nat := match p with None => 0 | Some x => S x end.
Definition unpkey (k : nat) : option spec := match k with 0 => None | S x => Some x end.

Record treg := mkT {
  t_adapters : list (trie value);
  t_subscribers : list (trie (list value));
  t_provided : list (spec * nat);
  t_extendors : list (spec * list spec);
  t_generation : nat
}.

Definition t_empty : treg := mkT [] [] [] [] 0.

(* _provided / extendors / generation: through Model/Adapter's transcription *)
Definition bk (t : treg) : reg := mkReg [] [] (t_provided t) (t_extendors t) (t_generation t).
Definition with_bk (t : treg) (a : list (trie value)) (s : list (trie (list value))) (r : reg) : treg :=
  mkT a s (provided_cnt r) (extendors r) (generation r).

Definition leaf_value (x : option (trie value)) : option value :=
  match x with Some (Leaf v) => Some v | _ => None end.
Definition leaf_tuple (x : option (trie (list value))) : list value :=
  match x with Some (Leaf l) => l | _ => [] end.

(* ---- _find_leaf / registered / subscribed *)
Definition t_registered (t : treg) (required : list (option spec)) (p : spec) (n : name) : option value :=
  let req := map conv required in
  leaf_value (tfind (req ++ [p; n]) (order_get (t_adapters t) (length req))).

Definition t_sub_leaf (t : treg) (req : list spec) (p : option spec) : list value :=
  leaf_tuple (tfind (req ++ [pkey p; 0]) (order_get (t_subscribers t) (length req))).

Definition t_subscribed (t : treg) (required : list (option spec)) (p : option spec) (v : value) : bool :=
  existsb (fun x => v_eq x v) (t_sub_leaf t (map conv required) p).

(* ---- unregister *)
Definition t_unregister (W : world) (t : treg) (required : list (option spec)) (p : spec) (n : name)
           (v : option value) : treg :=
  let req := map conv required in
  let order := length req in
  let byorder := t_adapters t in
  if Nat.leb (length byorder) order then t else
  let comps := order_get byorder order in
  match leaf_value (tfind (req ++ [p; n]) comps) with
  | None => t
  | Some old =>
      if match v with Some v' => v_is old v' | None => true end then
        let comps' := tremove (req ++ [p]) n comps in
        let byorder1 := set_nth byorder order comps' in
        (* the leaf dictionary after ``del components[name]``: pruning and stripping happen only
           if it became empty *)
        let emptied := match tfind (req ++ [p]) comps with
                       | Some d => negb (truthy (Node (adel Nat.eqb (items d) n)))
                       | None => false end in
        let byorder2 := if emptied then strip byorder1 else byorder1 in
        let r := changed (provide_decr W (bk t) p 1) in
        with_bk t byorder2 (t_subscribers t) r
      else t
  end.

(* ---- register *)
Definition t_register (W : world) (t : treg) (required : list (option spec)) (p : spec) (n : name)
           (v : option value) : treg :=
  match v with
  | None => t_unregister W t required p n None
  | Some v' =>
      let req := map conv required in
      let order := length req in
      let byorder := pad (t_adapters t) order in
      let comps := order_get byorder order in
      match leaf_value (tfind (req ++ [p; n]) comps) with
      | Some old =>
          if v_is old v' then t        (* the path existed: nothing was created *)
          else
            let comps' := tupsert (req ++ [p]) n (fun _ => Leaf v') comps in
            with_bk t (set_nth byorder order comps') (t_subscribers t) (changed (provide_incr W (bk t) p))
      | None =>
          let comps' := tupsert (req ++ [p]) n (fun _ => Leaf v') comps in
          with_bk t (set_nth byorder order comps') (t_subscribers t) (changed (provide_incr W (bk t) p))
      end
  end.

(* ---- subscribe: components[''] = _addValueToLeaf(components.get(''), value) *)
Definition add_to_leaf (v : value) (old : option (trie (list value))) : trie (list value) :=
  Leaf (leaf_tuple old ++ [v]).

Definition t_subscribe (W : world) (t : treg) (required : list (option spec)) (p : option spec)
           (v : value) : treg :=
  let req := map conv required in
  let order := length req in
  let byorder := pad (t_subscribers t) order in
  let comps' := tupsert (req ++ [pkey p]) 0 (add_to_leaf v) (order_get byorder order) in
  let r0 := bk t in
  let r := changed (match p with Some p' => provide_incr W r0 p' | None => r0 end) in
  with_bk t (t_adapters t) (set_nth byorder order comps') r.

(* ---- unsubscribe *)
Definition t_unsubscribe (W : world) (t : treg) (required : list (option spec)) (p : option spec)
           (v : option value) : treg :=
  let req := map conv required in
  let order := length req in
  let byorder := t_subscribers t in
  if Nat.leb (length byorder) order then t else
  let comps := order_get byorder order in
  let old := leaf_tuple (tfind (req ++ [pkey p; 0]) comps) in
  match old with
  | [] => t                                      (* path missing, or ``if not old: return`` *)
  | _ =>
      let new := match v with
                 | None => []
                 | Some v' => filter (fun x => negb (v_eq x v')) old      (* _removeValueFromLeaf *)
                 end in
      if Nat.eqb (length new) (length old) then t
      else
        let byorder2 :=
          match new with
          | [] => strip (set_nth byorder order (tremove (req ++ [pkey p]) 0 comps))
          | _ => set_nth byorder order (tupsert (req ++ [pkey p]) 0 (fun _ => Leaf new) comps)
          end in
        let r0 := bk t in
        let r := changed (match p with
                          | Some p' => provide_decr W r0 p' (length old - length new)
                          | None => r0 end) in
        with_bk t (t_adapters t) byorder2 r
  end.

(* ---- allRegistrations / allSubscriptions in the code's enumeration order *)
Definition t_allRegistrations (t : treg) : list (akey * value) :=
  flat_map (fun e => let '(i, (path, x)) := e in
                     match x with
                     | Leaf v => [((firstn i path, nth i path 0, nth (S i) path 0), v)]
                     | Node _ => []
                     end) (all_entries_from 0 (t_adapters t)).

Definition t_allSubscriptions (t : treg) : list (skey * value) :=
  flat_map (fun e => let '(i, (path, x)) := e in
                     match x with
                     | Leaf l => map (fun v => ((firstn i path, unpkey (nth i path 0)), v)) l
                     | Node _ => []
                     end) (all_entries_from 0 (t_subscribers t)).

(* ---- rebuild(): fresh structures (__init__ -> changed), replay in that order *)
Definition t_fresh (g : nat) : treg := mkT [] [] [] [] (S g).

Definition t_replay (W : world) (t0 : treg) (regs : list (akey * value)) (subs : list (skey * value)) : treg :=
  let t1 := fold_left (fun acc kv => let '(req, p, n) := fst kv in
                                     t_register W acc (map Some req) p n (Some (snd kv))) regs t0 in
  fold_left (fun acc kv => t_subscribe W acc (map Some (fst (fst kv))) (snd (fst kv)) (snd kv)) subs t1.

Definition t_rebuild (W : world) (t : treg) : treg :=
  t_replay W (t_fresh (t_generation t)) (t_allRegistrations t) (t_allSubscriptions t).

(* ---- the module-level walkers over nested dictionaries *)
(* _lookup(components, specs, provided, name, i, l) *)
Fixpoint t_lookup (W : world) (components : trie value) (specs : list spec) (provided : list spec)
         (n : name) : option value :=
  match specs with
  | [] => first_some (fun iface => match tget components iface with
                                   | Some comps => if truthy comps then leaf_value (tget comps n) else None
                                   | None => None
                                   end) provided
  | s :: rest => first_some (fun x => match tget components x with
                                      | Some comps => if truthy comps then t_lookup W comps rest provided n else None
                                      | None => None
                                      end) (w_sro W s)
  end.

(* result.update(comps) *)
Definition dict_update (result : list (name * value)) (comps : trie value) : list (name * value) :=
  fold_left (fun acc kv => match snd kv with
                           | Leaf v => aset Nat.eqb acc (fst kv) v
                           | Node _ => acc
                           end) (items comps) result.

(* _lookupAll(components, specs, provided, result, i, l) *)
Fixpoint t_lookupAll (W : world) (components : trie value) (specs : list spec) (provided : list spec)
         (result : list (name * value)) : list (name * value) :=
  match specs with
  | [] => fold_left (fun acc iface => match tget components iface with
                                      | Some comps => if truthy comps then dict_update acc comps else acc
                                      | None => acc
                                      end) (rev provided) result
  | s :: rest => fold_left (fun acc x => match tget components x with
                                         | Some comps => if truthy comps then t_lookupAll W comps rest provided acc else acc
                                         | None => acc
                                         end) (rev (w_sro W s)) result
  end.

(* _subscriptions(components, specs, provided, '', result, i, l); provided keys already encoded *)
Fixpoint t_subscriptions (W : world) (components : trie (list value)) (specs : list spec)
         (provided : list nat) : list value :=
  match specs with
  | [] => flat_map (fun iface => match tget components iface with
                                 | Some comps => if truthy comps then leaf_tuple (tget comps 0) else []
                                 | None => []
                                 end) (rev provided)
  | s :: rest => flat_map (fun x => match tget components x with
                                    | Some comps => if truthy comps then t_subscriptions W comps rest provided else []
                                    | None => []
                                    end) (rev (w_sro W s))
  end.

(* ---- AdapterLookupBase._uncached_* over the registries of the resolution order *)
Definition t_uncached_lookup (W : world) (ro : list treg) (required : list spec) (p : spec) (n : name)
  : option value :=
  let order := length required in
  first_some (fun t =>
                let byorder := t_adapters t in
                if Nat.leb (length byorder) order then None else
                match ext_get (t_extendors t) p with
                | [] => None
                | exts => t_lookup W (order_get byorder order) required exts n
                end) ro.

Definition t_uncached_lookupAll (W : world) (ro : list treg) (required : list spec) (p : spec)
  : list (name * value) :=
  let order := length required in
  fold_left (fun acc t =>
               let byorder := t_adapters t in
               if Nat.leb (length byorder) order then acc else
               match ext_get (t_extendors t) p with
               | [] => acc
               | exts => t_lookupAll W (order_get byorder order) required exts acc
               end) (rev ro) [].

Definition t_uncached_subscriptions (W : world) (ro : list treg) (required : list spec) (p : option spec)
  : list value :=
  let order := length required in
  flat_map (fun t =>
              let byorder := t_subscribers t in
              if Nat.leb (length byorder) order then [] else
              match p with
              | None => t_subscriptions W (order_get byorder order) required [pkey None]
              | Some p' => match aget Nat.eqb (t_extendors t) p' with
                           | None => []
                           | Some exts => t_subscriptions W (order_get byorder order) required
                                                          (map (fun e => pkey (Some e)) exts)
                           end
              end) (rev ro).

(* ---- histories (the operation language of Model/Bookkeeping.v is re-stated there) *)
Fixpoint trie_eqb {P} (peq : P -> P -> bool) (a b : trie P) : bool :=
  match a, b with
  | Leaf x, Leaf y => peq x y
  | Node l1, Node l2 =>
      (fix go (l1 l2 : list (nat * trie P)) : bool :=
         match l1, l2 with
         | [], [] => true
         | (k1, t1) :: r1, (k2, t2) :: r2 => Nat.eqb k1 k2 && trie_eqb peq t1 t2 && go r1 r2
         | _, _ => false
         end) l1 l2
  | _, _ => false
  end.
