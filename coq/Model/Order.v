(* C12 model: comparison and hashing of interfaces and class-implementation specifications.

   Mirrors (src/zope/interface/interface.py)
     NameAndModuleComparisonMixin._compare / __lt__ / __le__ / __gt__ / __ge__
     InterfaceBase.__eq__ / __ne__ / __hash__
   (declarations.py) Implements: ordering from the mixin, identity equality / hash
   (C) IB_richcompare
   and CPython's binary rich-comparison protocol (try left operand's method, then the
   reflected method of the right operand, then the identity fallback for == / != or
   TypeError for orderings).  No proofs in this file. *)
From Coq Require Import List NArith Bool ZArith.
Import ListNotations.
From ZI Require Import Lib.Str.

(* An operand is a Python object.  Object identity is structural equality of this
   description: two distinct live objects always differ in [oid]. *)
Inductive okind := KIface | KImpl | KNone | KNamed | KAnon.

Record operand := mkOp { okind_of : okind; oid : nat; oname : str; omodule : str }.

Definition okind_eqb (a b : okind) : bool :=
  match a, b with
  | KIface, KIface | KImpl, KImpl | KNone, KNone | KNamed, KNamed | KAnon, KAnon => true
  | _, _ => false
  end.

(* [other is self] *)
Definition same_obj (a b : operand) : bool :=
  okind_eqb (okind_of a) (okind_of b) && Nat.eqb (oid a) (oid b)
  && str_eqb (oname a) (oname b) && str_eqb (omodule a) (omodule b).

Definition okey (a : operand) : key := (oname a, omodule a).

(* does [other.__name__, other.__module__] succeed? *)
Definition has_key (a : operand) : bool :=
  match okind_of a with KIface | KImpl | KNamed => true | KNone | KAnon => false end.

Inductive cmp_res := CNotImpl | CVal (c : comparison).

(* NameAndModuleComparisonMixin._compare *)
Definition compare_mixin (self other : operand) : cmp_res :=
  if same_obj other self then CVal Eq
  else match okind_of other with
       | KNone => CVal Lt
       | _ => if has_key other then CVal (key_cmp (okey self) (okey other)) else CNotImpl
       end.

Inductive op := OpLt | OpLe | OpGt | OpGe | OpEq | OpNe.

Definition op_on (o : op) (c : comparison) : bool :=
  match o, c with
  | OpLt, Lt => true | OpLt, _ => false
  | OpLe, Gt => false | OpLe, _ => true
  | OpGt, Gt => true | OpGt, _ => false
  | OpGe, Lt => false | OpGe, _ => true
  | OpEq, Eq => true | OpEq, _ => false
  | OpNe, Eq => false | OpNe, _ => true
  end.

(* result of a rich-comparison *method*: a bool or NotImplemented *)
Inductive mres := MNotImpl | MBool (b : bool).

Definition via_compare (o : op) (self other : operand) : mres :=
  match compare_mixin self other with
  | CNotImpl => MNotImpl
  | CVal c => MBool (op_on o c)
  end.

(* object.__eq__ / object.__ne__ / object.__lt__ ... *)
Definition object_method (o : op) (self other : operand) : mres :=
  match o with
  | OpEq => if same_obj self other then MBool true else MNotImpl
  | OpNe => if same_obj self other then MBool false else MNotImpl
  | _ => MNotImpl
  end.

(* the Python-level method table of each kind of operand *)
Definition py_method (o : op) (self other : operand) : mres :=
  match okind_of self with
  | KIface =>
      match o with
      | OpNe => if same_obj other self then MBool false else via_compare OpNe self other
      | _ => via_compare o self other
      end
  | KImpl =>
      match o with
      | OpEq | OpNe => object_method o self other
      | _ => via_compare o self other
      end
  | KNone | KNamed | KAnon => object_method o self other
  end.

(* the C slot IB_richcompare (interfaces only, when the C optimizations are active) *)
Definition c_richcompare (o : op) (self other : operand) : mres :=
  if same_obj self other && (match o with OpEq | OpLe | OpGe | OpNe => true | _ => false end) then
    MBool (match o with OpNe => false | _ => true end)
  else match okind_of other with
       | KNone => MBool (match o with OpLt | OpLe | OpNe => true | _ => false end)
       | _ =>
           if has_key other then
             (* tuple comparison is decided by the first non-equal element *)
             if str_eqb (oname self) (oname other)
             then MBool (op_on o (str_cmp (omodule self) (omodule other)))
             else MBool (op_on o (str_cmp (oname self) (oname other)))
           else MNotImpl
       end.

Definition method_table (use_c : bool) (o : op) (self other : operand) : mres :=
  if use_c && okind_eqb (okind_of self) KIface then c_richcompare o self other
  else py_method o self other.

Definition swap_op (o : op) : op :=
  match o with OpLt => OpGt | OpLe => OpGe | OpGt => OpLt | OpGe => OpLe | OpEq => OpEq | OpNe => OpNe end.

(* result of the expression [a OP b] *)
Inductive bres := BBool (b : bool) | BTypeError.

(* CPython do_richcompare; none of our operand types is a subclass of another, so the
   "reflected first" rule for subclasses never applies. *)
Definition binop (use_c : bool) (o : op) (a b : operand) : bres :=
  match method_table use_c o a b with
  | MBool r => BBool r
  | MNotImpl =>
      match method_table use_c (swap_op o) b a with
      | MBool r => BBool r
      | MNotImpl =>
          match o with
          | OpEq => BBool (same_obj a b)
          | OpNe => BBool (negb (same_obj a b))
          | _ => BTypeError
          end
      end
  end.

Definition all_ops : list op := [OpLt; OpLe; OpGt; OpGe; OpEq; OpNe].

Definition bres_code (r : bres) : N :=
  match r with BBool false => 0%N | BBool true => 1%N | BTypeError => 2%N end.

Definition binop_row (use_c : bool) (a b : operand) : list N :=
  map (fun o => bres_code (binop use_c o a b)) all_ops.

(* hashing: InterfaceBase.__hash__ memoises hash((name, module)); Implements, None and
   foreign objects hash by identity.  [h] is CPython's tuple/str hash (seed dependent),
   [hid] the identity hash. *)
Section Hash.
  Variable h : key -> Z.
  Variable hid : nat -> Z.
  Definition hash_of (memo : option Z) (a : operand) : Z * option Z :=
    match okind_of a with
    | KIface => match memo with
                | Some v => (v, memo)
                | None => (h (okey a), Some (h (okey a)))
                end
    | _ => (hid (oid a), memo)
    end.
End Hash.

(* a stable insertion sort that only uses [<] the way list.sort does (it never uses ==) *)
Section Sort.
  Variable lt : operand -> operand -> bool.
  Fixpoint insert (x : operand) (l : list operand) : list operand :=
    match l with
    | [] => [x]
    | y :: l' => if lt y x then y :: insert x l' else x :: l
    end.
  (* [x] precedes in the input everything already in [l]; it is placed before the first
     element that is not smaller than it, so equal elements keep their input order *)
  Definition sort (l : list operand) : list operand := fold_right insert [] l.
End Sort.

Definition lt_of (use_c : bool) (a b : operand) : bool :=
  match binop use_c OpLt a b with BBool r => r | BTypeError => false end.
