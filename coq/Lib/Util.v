(* small executable helpers shared by the Tie modules *)
From Coq Require Import List NArith Bool Arith.
Import ListNotations.

Fixpoint list_eqb {A} (eqb : A -> A -> bool) (l1 l2 : list A) : bool :=
  match l1, l2 with
  | [], [] => true
  | x :: l1', y :: l2' => eqb x y && list_eqb eqb l1' l2'
  | _, _ => false
  end.

Lemma list_eqb_eq {A} (eqb : A -> A -> bool) :
  (forall x y, eqb x y = true <-> x = y) -> forall l1 l2, list_eqb eqb l1 l2 = true <-> l1 = l2.
Proof.
  intros H l1; induction l1 as [|x l1 IH]; intros [|y l2]; cbn; try (split; congruence).
  rewrite andb_true_iff, H, IH. split; [intros [-> ->]; auto | intros E; inversion E; auto].
Qed.

Definition option_eqb {A} (eqb : A -> A -> bool) (a b : option A) : bool :=
  match a, b with
  | None, None => true
  | Some x, Some y => eqb x y
  | _, _ => false
  end.

Definition lN_eqb := list_eqb N.eqb.
Definition lnat_eqb := list_eqb Nat.eqb.
Definition llnat_eqb := list_eqb lnat_eqb.

Definition nthN (l : list N) (i : nat) : N := nth i l 99%N.

Fixpoint mem_nat (x : nat) (l : list nat) : bool :=
  match l with [] => false | y :: l' => Nat.eqb x y || mem_nat x l' end.

Lemma mem_nat_In x l : mem_nat x l = true <-> In x l.
Proof.
  induction l as [|y l IH]; cbn; [split; [discriminate|tauto]|].
  rewrite orb_true_iff, Nat.eqb_eq, IH. split; intros [H|H]; auto.
Qed.
