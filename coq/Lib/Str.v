(* Strings as lists of code points, with CPython's ordering (lexicographic by code point,
   a proper prefix sorts first).  Used for (__name__, __module__) keys. *)
From Coq Require Import List NArith Bool Lia.
Import ListNotations.

Definition str := list N.

Fixpoint str_cmp (a b : str) : comparison :=
  match a, b with
  | [], [] => Eq
  | [], _ :: _ => Lt
  | _ :: _, [] => Gt
  | x :: a', y :: b' =>
      match N.compare x y with
      | Eq => str_cmp a' b'
      | c => c
      end
  end.

Definition str_eqb (a b : str) : bool :=
  match str_cmp a b with Eq => true | _ => false end.
Definition str_ltb (a b : str) : bool :=
  match str_cmp a b with Lt => true | _ => false end.

Lemma str_cmp_eq_iff a b : str_cmp a b = Eq <-> a = b.
Proof.
  revert b; induction a as [|x a IH]; intros [|y b]; cbn; try (split; congruence).
  destruct (N.compare x y) eqn:E.
  - apply N.compare_eq_iff in E; subst. rewrite IH. split; congruence.
  - split; try discriminate. intros H; inversion H; subst. rewrite N.compare_refl in E; discriminate.
  - split; try discriminate. intros H; inversion H; subst. rewrite N.compare_refl in E; discriminate.
Qed.

Lemma str_cmp_refl a : str_cmp a a = Eq.
Proof. apply str_cmp_eq_iff; reflexivity. Qed.

Lemma str_cmp_antisym a b : str_cmp b a = CompOpp (str_cmp a b).
Proof.
  revert b; induction a as [|x a IH]; intros [|y b]; cbn; auto.
  rewrite (N.compare_antisym x y).
  destruct (N.compare x y); cbn; auto.
Qed.

Lemma str_cmp_lt_trans a b c : str_cmp a b = Lt -> str_cmp b c = Lt -> str_cmp a c = Lt.
Proof.
  revert b c; induction a as [|x a IH]; intros [|y b] [|z c]; cbn; try congruence.
  destruct (N.compare x y) eqn:Exy; try discriminate.
  - apply N.compare_eq_iff in Exy; subst y.
    destruct (N.compare x z) eqn:Exz; try congruence; eauto.
  - intros _. destruct (N.compare y z) eqn:Eyz; try discriminate.
    + apply N.compare_eq_iff in Eyz; subst z. rewrite Exy; auto.
    + intros _. apply N.compare_lt_iff in Exy. apply N.compare_lt_iff in Eyz.
      pose proof (N.lt_trans _ _ _ Exy Eyz) as H. apply N.compare_lt_iff in H. rewrite H; auto.
Qed.

Lemma str_eqb_eq a b : str_eqb a b = true <-> a = b.
Proof.
  unfold str_eqb. rewrite <- str_cmp_eq_iff. destruct (str_cmp a b); split; congruence.
Qed.

Lemma str_eqb_refl a : str_eqb a a = true.
Proof. apply str_eqb_eq; reflexivity. Qed.

(* Lexicographic comparison of pairs, as Python compares 2-tuples *)
Definition key := (str * str)%type.

Definition key_cmp (k1 k2 : key) : comparison :=
  match str_cmp (fst k1) (fst k2) with
  | Eq => str_cmp (snd k1) (snd k2)
  | c => c
  end.

Lemma key_cmp_eq_iff k1 k2 : key_cmp k1 k2 = Eq <-> k1 = k2.
Proof.
  destruct k1 as [a b], k2 as [c d]; unfold key_cmp; cbn.
  destruct (str_cmp a c) eqn:E.
  - apply str_cmp_eq_iff in E; subst. rewrite str_cmp_eq_iff. split; congruence.
  - split; try discriminate. intros H; inversion H; subst. rewrite str_cmp_refl in E; discriminate.
  - split; try discriminate. intros H; inversion H; subst. rewrite str_cmp_refl in E; discriminate.
Qed.

Lemma key_cmp_refl k : key_cmp k k = Eq.
Proof. apply key_cmp_eq_iff; reflexivity. Qed.

Lemma key_cmp_antisym k1 k2 : key_cmp k2 k1 = CompOpp (key_cmp k1 k2).
Proof.
  destruct k1 as [a b], k2 as [c d]; unfold key_cmp; cbn.
  rewrite (str_cmp_antisym a c). destruct (str_cmp a c); cbn; auto.
  apply str_cmp_antisym.
Qed.

Lemma key_cmp_lt_trans k1 k2 k3 :
  key_cmp k1 k2 = Lt -> key_cmp k2 k3 = Lt -> key_cmp k1 k3 = Lt.
Proof.
  destruct k1 as [a b], k2 as [c d], k3 as [e f]; unfold key_cmp; cbn.
  destruct (str_cmp a c) eqn:E1; try discriminate.
  - apply str_cmp_eq_iff in E1; subst c.
    destruct (str_cmp a e) eqn:E2; try congruence. intros; eapply str_cmp_lt_trans; eauto.
  - intros _. destruct (str_cmp c e) eqn:E2; try discriminate.
    + apply str_cmp_eq_iff in E2; subst e. rewrite E1; auto.
    + intros _. rewrite (str_cmp_lt_trans _ _ _ E1 E2); auto.
Qed.
