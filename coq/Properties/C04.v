(* Property C04 — adapter lookup returns the most specific applicable registration.
   Only statements here; definitions of the Spec are in Spec/LookupSpec.v (flat view:
   [live], [applicable], [rank], [preferred], [ext_inv]); proofs are in Proofs/LookupSpec.v and
   Proofs/LookupInv.v.  The object of every theorem is Model.Adapter.uncached_lookup, the
   transcription of AdapterLookupBase._uncached_lookup + _lookup, for ALL worlds, registry
   lists, keys and arities. *)
From Coq Require Import List Arith Bool Lia.
Import ListNotations.
From ZI Require Import Model.Ro Model.Adapter Model.Lookup Model.RegSys
     Spec.LookupSpec Proofs.LookupSpec Proofs.LookupInv.

(* a returned value is registered under exactly that name, in some registry of the resolution
   order, with required specs extended-or-equalled position by position by the looked-up ones and
   a provided interface that is-or-extends the asked one *)
Theorem C04_lookup_sound : forall W ro looked p n v,
  Forall (ext_inv W) ro ->
  uncached_lookup W ro looked p n = Some v ->
  exists r req pr, In r ro /\ live r req pr n v /\ applicable W req pr n looked p n.
Proof. exact lookup_sound_lemma. Qed.
Print Assumptions C04_lookup_sound.

(* the default (None) is returned exactly when no registry of ro has an applicable registration *)
Theorem C04_lookup_complete : forall W ro looked p n,
  Forall (ext_inv W) ro -> w_iface W p = true ->
  (uncached_lookup W ro looked p n = None <->
   forall r req pr v, In r ro -> live r req pr n v -> ~ applicable W req pr n looked p n).
Proof. exact lookup_complete_lemma. Qed.
Print Assumptions C04_lookup_complete.

(* the winner is preferred to every applicable registration: earliest registry of ro, then
   lexicographically earliest required positions in the looked-up specs' resolution orders, then
   (same registry, identical required keys) a provided interface that is not a strict extension
   of the competitor's *)
Theorem C04_lookup_least : forall W ro looked p n v,
  Forall (ext_inv W) ro -> w_iface W p = true ->
  uncached_lookup W ro looked p n = Some v ->
  exists iw rw reqw pw,
    nth_error ro iw = Some rw /\ live rw reqw pw n v /\ applicable W reqw pw n looked p n /\
    forall ic rc reqc pc vc,
      nth_error ro ic = Some rc -> live rc reqc pc n vc -> applicable W reqc pc n looked p n ->
      lex_lt (rank W looked iw reqw) (rank W looked ic reqc)
      \/ (iw = ic /\ reqw = reqc /\
          ~ (isOrExtends W pw pc = true /\ isOrExtends W pc pw = false)).
Proof. exact lookup_least_lemma. Qed.
Print Assumptions C04_lookup_least.

(* None at registration time is Interface, and Interface is extended by every specification *)
Theorem C04_none_means_any : forall W, root_everywhere W ->
  forall r req p n v,
    register W r req p n v = register W r (map (fun x => Some (conv x)) req) p n v /\
    unregister W r req p n v = unregister W r (map (fun x => Some (conv x)) req) p n v /\
    forall s, isOrExtends W s (conv None) = true.
Proof. exact none_means_any_lemma. Qed.
Print Assumptions C04_none_means_any.

(* after EVERY history of register / unregister / subscribe / unsubscribe / rebuild the extendors
   lists hold exactly the provided interfaces with positive _provided count that extend the key,
   without repetition, generalisations first, and the count is at least the number of live uses
   (so every live registration's provided interface is listed) *)
Theorem C04_extendors_inv : forall W, wf_world W ->
  forall ops, ext_inv W (fold_left (reg_step W) ops empty_reg).
Proof. exact extendors_inv_lemma. Qed.
Print Assumptions C04_extendors_inv.

(* ... and the same for every registry a lookup entry point walks, after every history of a
   system of registries (new registries, re-basing, mutators, rebuild, queries of any kind) *)
Theorem C04_system_inv : forall W, wf_world W ->
  forall (call : value -> list nat -> option nat) ops r,
    Forall (ext_inv W) (ro_regs (final W call [] ops) r).
Proof. exact system_inv_lemma. Qed.
Print Assumptions C04_system_inv.

(* ------------------------------------------------------------------ non-vacuity *)
(* world: 0 = Interface, 1 = IA, 2 = IB(IA), 3 = IC; everything is an interface *)
Definition exW : world :=
  mkW (fun x => match x with
                | 0 => [0] | 1 => [1; 0] | 2 => [2; 1; 0]
                | S (S (S n)) => [S (S (S n)); 0]
                end)
      (fun _ => true).

Example exW_wf : wf_world exW /\ root_everywhere exW.
Proof.
  assert (Hroot : root_everywhere exW).
  { intros [|[|[|x]]]; cbn; auto. }
  split; [|exact Hroot]. split; [|split].
  - intros [|[|[|x]]]; cbn; auto.
  - intros [|[|[|x]]]; cbn; repeat constructor; cbn; intuition discriminate.
  - intros x y Hy z Hz.
    destruct x as [|[|[|x]]]; cbn in Hy;
      repeat (destruct Hy as [<-|Hy]; [cbn in Hz; cbn; intuition auto|]); try contradiction.
Qed.

Definition v1 := mkV 1 1. Definition v2 := mkV 2 2. Definition v3 := mkV 3 3. Definition v4 := mkV 4 4.

(* two 2-adapters: ([IA, IB] -> IA) = v1 and ([IB, IA] -> IA) = v2; then two 1-adapters from IA
   under one name providing IB (v3, registered first) and IA (v4) *)
Definition exOps : list regop :=
  [RRegister [Some 1; Some 2] 1 0 (Some v1);
   RRegister [Some 2; Some 1] 1 0 (Some v2);
   RSubscribe [Some 1] (Some 2) v1;
   RRegister [Some 1] 2 0 (Some v3);
   RRegister [Some 1] 1 0 (Some v4);
   RRegister [None] 1 1 (Some v3);
   RUnsubscribe [Some 1] (Some 2) None].
Definition exReg : reg := fold_left (reg_step exW) exOps empty_reg.

Example ex_inv : Forall (ext_inv exW) [exReg].
Proof. constructor; [|constructor]. apply C04_extendors_inv. apply exW_wf. Qed.

(* looking up (IB, IB): the first position decides ([IB, IA] is at positions (0, 1), [IA, IB] at
   (1, 0)) although the second position alone would prefer v1 *)
Example ex_first_position_decides :
  uncached_lookup exW [exReg] [2; 2] 1 0 = Some v2 /\
  lex_lt (rank exW [2; 2] 0 [2; 1]) (rank exW [2; 2] 0 [1; 2]).
Proof. split; [reflexivity | cbn; lia]. Qed.

(* provided: the more general IA (v4) wins over IB (v3) although IB was registered first *)
Example ex_provided_general : uncached_lookup exW [exReg] [2] 1 0 = Some v4.
Proof. reflexivity. Qed.

(* asking for IB only the IB adapter applies *)
Example ex_provided_specific : uncached_lookup exW [exReg] [1] 2 0 = Some v3.
Proof. reflexivity. Qed.

(* nothing applicable: IC has no registration under the name '' *)
Example ex_none : uncached_lookup exW [exReg] [3] 1 0 = None.
Proof. reflexivity. Qed.

(* a None registration applies to any specification *)
Example ex_none_any : uncached_lookup exW [exReg] [3] 1 1 = Some v3.
Proof. reflexivity. Qed.

(* an earlier registry wins whatever the positions *)
Example ex_registry_first :
  uncached_lookup exW [register exW empty_reg [None] 1 0 (Some v1); exReg] [2] 1 0 = Some v1.
Proof. reflexivity. Qed.

(* the extendors list in the example is [IA; IB] under IA: generalisations first *)
Example ex_extendors : ext_get (extendors exReg) 1 = [1; 2].
Proof. reflexivity. Qed.
