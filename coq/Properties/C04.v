(* Property C04 — adapter lookup returns the most specific applicable registration.
   Only statements here; definitions of the Spec are in Spec/LookupSpec.v (flat view:
   [live], [applicable], [rank], [preferred], [ext_inv]); proofs are in Proofs/LookupSpec.v and
   Proofs/LookupInv.v.  The object of every theorem is Model.Adapter.uncached_lookup, the
   transcription of AdapterLookupBase._uncached_lookup + _lookup, for ALL worlds, registry
   lists, keys and arities. *)
From Coq Require Import List Arith Bool Lia.
Import ListNotations.
From ZI Require Import Model.Ro Model.Adapter Model.Lookup Model.RegSys
     Spec.LookupSpec Proofs.LookupSpec Proofs.LookupInv.
From ZI Require Import Model.Trie Model.WalkersVocab Gen.WalkersKernel Model.Bookkeeping Spec.TrieRel
     Proofs.WalkersKernel.

(* a returned value is registered under exactly that name, in some registry of the resolution
   order, with required specs extended-or-equalled position by position by the looked-up ones and
   a provided interface that is-or-extends the asked one *)
Theorem C04_lookup_sound : forall W ro looked p n v,
  Forall (ext_inv W) ro ->
  uncached_lookup W ro looked p n = Some v ->
  exists r req pr, In r ro /\ live r req pr n v /\ applicable W req pr n looked p n.
Proof. exact lookup_sound_lemma. Qed.
Print Assumptions C04_lookup_sound.

(* the default (None) is returned exactly when no registry of ro has an applicable registration *)
Theorem C04_lookup_complete : forall W ro looked p n,
  Forall (ext_inv W) ro -> w_iface W p = true ->
  (uncached_lookup W ro looked p n = None <->
   forall r req pr v, In r ro -> live r req pr n v -> ~ applicable W req pr n looked p n).
Proof. exact lookup_complete_lemma. Qed.
Print Assumptions C04_lookup_complete.

(* the winner is preferred to every applicable registration: earliest registry of ro, then
   lexicographically earliest required positions in the looked-up specs' resolution orders, then
   (same registry, identical required keys) a provided interface that is not a strict extension
   of the competitor's *)
Theorem C04_lookup_least : forall W ro looked p n v,
  Forall (ext_inv W) ro -> w_iface W p = true ->
  uncached_lookup W ro looked p n = Some v ->
  exists iw rw reqw pw,
    nth_error ro iw = Some rw /\ live rw reqw pw n v /\ applicable W reqw pw n looked p n /\
    forall ic rc reqc pc vc,
      nth_error ro ic = Some rc -> live rc reqc pc n vc -> applicable W reqc pc n looked p n ->
      lex_lt (rank W looked iw reqw) (rank W looked ic reqc)
      \/ (iw = ic /\ reqw = reqc /\
          ~ (isOrExtends W pw pc = true /\ isOrExtends W pc pw = false)).
Proof. exact lookup_least_lemma. Qed.
Print Assumptions C04_lookup_least.

(* None at registration time is Interface, and Interface is extended by every specification *)
Theorem C04_none_means_any : forall W, root_everywhere W ->
  forall r req p n v,
    register W r req p n v = register W r (map (fun x => Some (conv x)) req) p n v /\
    unregister W r req p n v = unregister W r (map (fun x => Some (conv x)) req) p n v /\
    forall s, isOrExtends W s (conv None) = true.
Proof. exact none_means_any_lemma. Qed.
Print Assumptions C04_none_means_any.

(* after EVERY history of register / unregister / subscribe / unsubscribe / rebuild the extendors
   lists hold exactly the provided interfaces with positive _provided count that extend the key,
   without repetition, generalisations first, and the count is at least the number of live uses
   (so every live registration's provided interface is listed) *)
Theorem C04_extendors_inv : forall W, wf_world W ->
  forall ops, ext_inv W (fold_left (reg_step W) ops empty_reg).
Proof. exact extendors_inv_lemma. Qed.
Print Assumptions C04_extendors_inv.

(* ... and the same for every registry a lookup entry point walks, after every history of a
   system of registries (new registries, re-basing, mutators, rebuild, queries of any kind) *)
Theorem C04_system_inv : forall W, wf_world W ->
  forall (call : value -> list nat -> option nat) ops r,
    Forall (ext_inv W) (ro_regs (final W call [] ops) r).
Proof. exact system_inv_lemma. Qed.
Print Assumptions C04_system_inv.

(* ------------------------------------------------------------------ the kernel regenerated from adapter.py
   Gen/WalkersKernel.v is rewritten from the current source text on every run (harness/translate/walkers.py,
   fail closed): g_lookup / g_lookupAll / g_subscriptions (module-level walkers, on an explicit fuel),
   g_uncached_* (AdapterLookupBase entry points), g_add_extendor / g_remove_extendor / g_init_extendors,
   g_convert_None_to_Interface. *)

(* the generated walkers are the hand-written nested-dictionary walkers of Model/Trie.v, for every
   registry list and key; any fuel above the arity is sufficient *)
Theorem C04_generated_walkers_eq_trie : forall W ts required,
  (forall p n, g_uncached_lookup W ts required p n = t_uncached_lookup W ts required p n)
  /\ (forall p, g_uncached_lookupAll W ts required p = t_uncached_lookupAll W ts required p)
  /\ (forall p, g_uncached_subscriptions W ts required p = t_uncached_subscriptions W ts required p)
  /\ (forall fuel c specs prov n, length specs < fuel ->
        g_lookup fuel W c specs prov n 0 (length specs) = t_lookup W c specs prov n)
  /\ (forall fuel c specs prov acc, length specs < fuel ->
        g_lookupAll fuel W c specs prov acc 0 (length specs) = t_lookupAll W c specs prov acc)
  /\ (forall fuel c specs prov acc, length specs < fuel ->
        g_subscriptions fuel W c specs prov 0 acc 0 (length specs) = acc ++ t_subscriptions W c specs prov).
Proof. exact generated_walkers_eq_trie_lemma. Qed.
Print Assumptions C04_generated_walkers_eq_trie.

(* the generated extendors surgery and None conversion are Model/Adapter.v's (the object of
   C04_extendors_inv) *)
Theorem C04_generated_extendors_eq_model : forall W,
  (forall e p, g_add_extendor W e p = add_extendor W e p)
  /\ (forall e p, g_remove_extendor W e p = remove_extendor W e p)
  /\ (forall c, g_init_extendors W c = fold_left (add_extendor W) (map fst c) [])
  /\ (forall x, g_convert_None_to_Interface x = conv x).
Proof. exact generated_extendors_eq_model_lemma. Qed.
Print Assumptions C04_generated_extendors_eq_model.

(* on nested-dictionary registries that represent flat ones (R = Spec/TrieRel.v, preserved by every
   mutator: C09) the generated entry points answer what Model/Adapter's uncached walkers answer *)
Theorem C04_generated_walkers_eq_model : forall W ts rs required, Forall2 (R W) ts rs ->
  (forall p n, g_uncached_lookup W ts required p n = uncached_lookup W rs required p n)
  /\ (forall p, g_uncached_subscriptions W ts required p = uncached_subscriptions W rs required p)
  /\ (forall p n, aget Nat.eqb (g_uncached_lookupAll W ts required p) n
                  = aget Nat.eqb (uncached_lookupAll W rs required p) n).
Proof. exact generated_walkers_eq_model_lemma. Qed.
Print Assumptions C04_generated_walkers_eq_model.

(* hence, for registries reached by ANY histories (nested dictionaries and flat map in lockstep), the
   source-generated _uncached_lookup is complete and returns the preferred applicable registration *)
Theorem C04_generated_lookup_meets_spec : forall W hs looked p n, wf_world W -> w_iface W p = true ->
  let ro := reached_flat W hs in
  (g_uncached_lookup W (reached_tries W hs) looked p n = None <->
   forall r req pr v, In r ro -> live r req pr n v -> ~ applicable W req pr n looked p n)
  /\ forall v, g_uncached_lookup W (reached_tries W hs) looked p n = Some v ->
     exists iw rw reqw pw,
       nth_error ro iw = Some rw /\ live rw reqw pw n v /\ applicable W reqw pw n looked p n /\
       forall ic rc reqc pc vc,
         nth_error ro ic = Some rc -> live rc reqc pc n vc -> applicable W reqc pc n looked p n ->
         preferred W looked iw reqw pw ic reqc pc.
Proof. exact generated_lookup_meets_spec_lemma. Qed.
Print Assumptions C04_generated_lookup_meets_spec.

(* ------------------------------------------------------------------ non-vacuity *)
(* world: 0 = Interface, 1 = IA, 2 = IB(IA), 3 = IC; everything is an interface *)
Definition exW : world :=
  mkW (fun x => match x with
                | 0 => [0] | 1 => [1; 0] | 2 => [2; 1; 0]
                | S (S (S n)) => [S (S (S n)); 0]
                end)
      (fun _ => true).

Example exW_wf : wf_world exW /\ root_everywhere exW.
Proof.
  assert (Hroot : root_everywhere exW).
  { intros [|[|[|x]]]; cbn; auto. }
  split; [|exact Hroot]. split; [|split].
  - intros [|[|[|x]]]; cbn; auto.
  - intros [|[|[|x]]]; cbn; repeat constructor; cbn; intuition discriminate.
  - intros x y Hy z Hz.
    destruct x as [|[|[|x]]]; cbn in Hy;
      repeat (destruct Hy as [<-|Hy]; [cbn in Hz; cbn; intuition auto|]); try contradiction.
Qed.

Definition v1 := mkV 1 1. Definition v2 := mkV 2 2. Definition v3 := mkV 3 3. Definition v4 := mkV 4 4.

(* two 2-adapters: ([IA, IB] -> IA) = v1 and ([IB, IA] -> IA) = v2; then two 1-adapters from IA
   under one name providing IB (v3, registered first) and IA (v4) *)
Definition exOps : list regop :=
  [RRegister [Some 1; Some 2] 1 0 (Some v1);
   RRegister [Some 2; Some 1] 1 0 (Some v2);
   RSubscribe [Some 1] (Some 2) v1;
   RRegister [Some 1] 2 0 (Some v3);
   RRegister [Some 1] 1 0 (Some v4);
   RRegister [None] 1 1 (Some v3);
   RUnsubscribe [Some 1] (Some 2) None].
Definition exReg : reg := fold_left (reg_step exW) exOps empty_reg.

Example ex_inv : Forall (ext_inv exW) [exReg].
Proof. constructor; [|constructor]. apply C04_extendors_inv. apply exW_wf. Qed.

(* looking up (IB, IB): the first position decides ([IB, IA] is at positions (0, 1), [IA, IB] at
   (1, 0)) although the second position alone would prefer v1 *)
Example ex_first_position_decides :
  uncached_lookup exW [exReg] [2; 2] 1 0 = Some v2 /\
  lex_lt (rank exW [2; 2] 0 [2; 1]) (rank exW [2; 2] 0 [1; 2]).
Proof. split; [reflexivity | cbn; lia]. Qed.

(* provided: the more general IA (v4) wins over IB (v3) although IB was registered first *)
Example ex_provided_general : uncached_lookup exW [exReg] [2] 1 0 = Some v4.
Proof. reflexivity. Qed.

(* asking for IB only the IB adapter applies *)
Example ex_provided_specific : uncached_lookup exW [exReg] [1] 2 0 = Some v3.
Proof. reflexivity. Qed.

(* nothing applicable: IC has no registration under the name '' *)
Example ex_none : uncached_lookup exW [exReg] [3] 1 0 = None.
Proof. reflexivity. Qed.

(* a None registration applies to any specification *)
Example ex_none_any : uncached_lookup exW [exReg] [3] 1 1 = Some v3.
Proof. reflexivity. Qed.

(* an earlier registry wins whatever the positions *)
Example ex_registry_first :
  uncached_lookup exW [register exW empty_reg [None] 1 0 (Some v1); exReg] [2] 1 0 = Some v1.
Proof. reflexivity. Qed.

(* the extendors list in the example is [IA; IB] under IA: generalisations first *)
Example ex_extendors : ext_get (extendors exReg) 1 = [1; 2].
Proof. reflexivity. Qed.

(* the generated kernel on the nested dictionaries of the same history *)
Definition exBops : list bop :=
  [BRegister [Some 1; Some 2] 1 0 (Some v1);
   BRegister [Some 2; Some 1] 1 0 (Some v2);
   BSubscribe [Some 1] (Some 2) v1;
   BRegister [Some 1] 2 0 (Some v3);
   BRegister [Some 1] 1 0 (Some v4);
   BRegister [None] 1 1 (Some v3);
   BRebuild;
   BUnsubscribe [Some 1] (Some 2) None].

Example ex_generated :
  g_uncached_lookup exW (reached_tries exW [exBops]) [2; 2] 1 0 = Some v2
  /\ g_uncached_lookup exW (reached_tries exW [exBops]) [2] 1 0 = Some v4
  /\ g_uncached_lookup exW (reached_tries exW [exBops]) [3] 1 0 = None
  /\ map vid (g_uncached_subscriptions exW (reached_tries exW [firstn 7 exBops]) [2] (Some 1)) = [1]
  /\ g_uncached_lookupAll exW (reached_tries exW [exBops]) [3] 1 = [(1, v3)].
Proof. repeat split; reflexivity. Qed.
