(* Property C13 — Specifications pickle by reference and unpickle to the equivalent live object.
   Only statements here; proofs are in Proofs/Pickle.v, the model in Model/Pickle.v.

   Reading guide.  [w] is the world of importable modules (interfaces, classes, instances),
   [wf_globals w] says every interface/class is importable under its own name.  [run fuel w ops]
   is the state after an arbitrary history [ops] of declaration operations (implementedBy,
   classImplements/implementer, classImplementsOnly/implementer_only, classImplementsFirst,
   directlyProvides(cls)/provider, directlyProvides/alsoProvides on instances, garbage collection).
   [reduce_*] is the __reduce__ of the respective class, [rebuild] is unpickling: look the names
   up and call the named constructor.  A [reduced] value can only hold names (and, for plain
   instances, integer attribute values): "the pickle stores only names, never the definition"
   holds by the type of [reduced].  The pickle machinery itself (GLOBAL, REDUCE, NEWOBJ/BUILD) is
   trusted, not modelled; real payloads are inspected with pickletools on every run. *)
From Coq Require Import List NArith ZArith Bool Arith String.
Import ListNotations.
From ZI Require Import Lib.Str Lib.Util Model.Pickle Proofs.Pickle Gen.ReduceKernel Proofs.PickleGen.
Local Open Scope nat_scope.

(* an interface unpickles to the identical object, in every state *)
Theorem C13_iface_roundtrip_identity : forall fuel w st i,
  wf_globals w = true -> i < List.length (w_ifaces w) ->
  rebuild fuel w st (reduce_iface w i) = (st, Some (OIface i)).
Proof. exact iface_roundtrip. Qed.
Print Assumptions C13_iface_roundtrip_identity.

(* a class (the object that carries a class-provides declaration) unpickles to the identical class *)
Theorem C13_class_roundtrip_identity : forall fuel w st c,
  wf_globals w = true -> c < List.length (w_classes w) ->
  rebuild fuel w st (reduce_class w c) = (st, Some (OClass c)).
Proof. exact class_roundtrip. Qed.
Print Assumptions C13_class_roundtrip_identity.

(* after ANY history, the reduction of a class's specification names that very class: whether the
   spec is inherited-only, declared with the *only* forms (inherit = None) or the *first* form *)
Theorem C13_implements_reduce_names_own_class : forall fuel w ops c r,
  assoc_nat c (st_impl (run fuel w ops)) = Some r ->
  reduce_impl w r = Call FImplementedBy [ByName (cname w c)].
Proof. exact reduce_impl_names_own_class. Qed.
Print Assumptions C13_implements_reduce_names_own_class.

(* ... and therefore unpickles to the identical specification object, leaving the state untouched *)
Theorem C13_implements_roundtrip_identity : forall fuel w ops c r,
  wf_globals w = true -> c < List.length (w_classes w) ->
  assoc_nat c (st_impl (run fuel w ops)) = Some r ->
  rebuild fuel w (run fuel w ops) (reduce_impl w r) = (run fuel w ops, Some (OImpl c)).
Proof. exact implements_roundtrip. Qed.
Print Assumptions C13_implements_roundtrip_identity.

(* the empty declaration is a singleton pickled by name *)
Theorem C13_empty_roundtrip_identity : forall fuel w st,
  rebuild fuel w st reduce_empty = (st, Some OEmpty).
Proof. exact empty_roundtrip. Qed.
Print Assumptions C13_empty_roundtrip_identity.

(* an instance's provides-declaration that is still shared (the weak cache maps its arguments to
   it): unpickling in the same process returns the identical object, in any state *)
Theorem C13_provides_roundtrip_identity_shared : forall fuel w st pr p,
  wf_globals w = true -> ids_ok w (pv_cls pr) (pv_ifaces pr) = true ->
  assoc_key (pv_cls pr, pv_ifaces pr) (st_cache st) = Some p ->
  rebuild fuel w st (reduce_prov w pr) = (st, Some (OProv p)).
Proof. exact provides_roundtrip_shared. Qed.
Print Assumptions C13_provides_roundtrip_identity_shared.

(* after every module-ordered history (class-level operations, then any instance operations and
   collections) every declaration an instance holds is alive, hence still shared, hence unpickles
   to the identical object.  (A class-level operation AFTER the instance was declared makes the
   declaration leave the cache -- Provides.changed -- and it is then no longer current either:
   see C13_stale_declaration_is_rebuilt_current below.) *)
Theorem C13_provides_roundtrip_identity_live : forall fuel w cops iops o io p,
  wf_globals w = true ->
  forallb is_class_op cops = true -> forallb (fun x => negb (is_class_op x)) iops = true ->
  nth_error (st_insts (run fuel w (cops ++ iops))) o = Some io -> in_provides io = Some p ->
  exists pr, nth_error (st_provs (run fuel w (cops ++ iops))) p = Some pr /\
    assoc_key (pv_cls pr, pv_ifaces pr) (st_cache (run fuel w (cops ++ iops))) = Some p /\
    (ids_ok w (pv_cls pr) (pv_ifaces pr) = true ->
     rebuild fuel w (run fuel w (cops ++ iops)) (reduce_prov w pr) = (run fuel w (cops ++ iops), Some (OProv p))).
Proof. exact provides_roundtrip_live. Qed.
Print Assumptions C13_provides_roundtrip_identity_live.

(* in EVERY reachable state every shared declaration is current: its bases are what its
   constructor arguments give in the present state of its class *)
Theorem C13_shared_declarations_are_current : forall fuel w ops,
  cache_current fuel w (run fuel w ops) = true.
Proof. exact run_current. Qed.
Print Assumptions C13_shared_declarations_are_current.

(* a provides-declaration unpickled in ANY process [st2] that has the same class declarations
   ([get_impl] agrees) and whose cached declarations are current: the result has the same
   constructor arguments, the same bases and exactly the same interfaces.  [prov_current]: the
   declaration describes the present state of its class (not stale in the sense of property C01) *)
Theorem C13_provides_roundtrip_same_interfaces : forall fuel w st st2 pr,
  wf_globals w = true -> ids_ok w (pv_cls pr) (pv_ifaces pr) = true ->
  (forall k, get_impl w st2 k = get_impl w st k) ->
  prov_current fuel w st pr = true -> cache_current fuel w st2 = true ->
  exists st2' p' pr',
    rebuild fuel w st2 (reduce_prov w pr) = (st2', Some (OProv p')) /\
    nth_error (st_provs st2') p' = Some pr' /\
    pv_cls pr' = pv_cls pr /\ pv_ifaces pr' = pv_ifaces pr /\ pv_bases pr' = pv_bases pr /\
    obj_interfaces fuel w st2' (OProv p') = decl_interfaces fuel w st (pv_bases pr).
Proof. exact provides_roundtrip_same. Qed.
Print Assumptions C13_provides_roundtrip_same_interfaces.

(* a declaration the factory has just created is current *)
Theorem C13_provides_fresh_is_current : forall fuel w st c is,
  assoc_key (c, is) (st_cache st) = None ->
  exists pr,
    nth_error (st_provs (fst (provides_factory fuel w st c is))) (snd (provides_factory fuel w st c is)) = Some pr
    /\ pv_cls pr = c /\ pv_ifaces pr = is
    /\ prov_current fuel w (fst (provides_factory fuel w st c is)) pr = true.
Proof. exact provides_factory_fresh. Qed.
Print Assumptions C13_provides_fresh_is_current.

(* the hypotheses above are met by every module-ordered history (classes declared first, then any
   instance operations and collections): pickled in the process with history cops ++ iops, loaded
   in a process that ran the same class-level operations and any instance operations of its own
   (iops' = [] is the freshly imported module), the declaration has the same arguments, bases and
   interfaces *)
Theorem C13_provides_roundtrip_fresh_process : forall fuel w cops iops iops' o io p,
  wf_globals w = true ->
  forallb is_class_op cops = true ->
  forallb (fun x => negb (is_class_op x)) iops = true ->
  forallb (fun x => negb (is_class_op x)) iops' = true ->
  nth_error (st_insts (run fuel w (cops ++ iops))) o = Some io -> in_provides io = Some p ->
  exists pr, nth_error (st_provs (run fuel w (cops ++ iops))) p = Some pr /\
    (ids_ok w (pv_cls pr) (pv_ifaces pr) = true ->
     exists st2' p' pr',
       rebuild fuel w (run fuel w (cops ++ iops')) (reduce_prov w pr) = (st2', Some (OProv p')) /\
       nth_error (st_provs st2') p' = Some pr' /\
       pv_cls pr' = pv_cls pr /\ pv_ifaces pr' = pv_ifaces pr /\ pv_bases pr' = pv_bases pr /\
       obj_interfaces fuel w st2' (OProv p') = obj_interfaces fuel w (run fuel w (cops ++ iops)) (OProv p)).
Proof. exact provides_roundtrip_fresh_process. Qed.
Print Assumptions C13_provides_roundtrip_fresh_process.

(* any histories at all: a still-shared declaration of a reachable state, unpickled in any reachable
   state of a process whose classes are declared alike, has the same arguments, bases, interfaces *)
Theorem C13_provides_roundtrip_reachable : forall fuel w ops ops2 p pr,
  wf_globals w = true -> ids_ok w (pv_cls pr) (pv_ifaces pr) = true ->
  (forall k, get_impl w (run fuel w ops2) k = get_impl w (run fuel w ops) k) ->
  nth_error (st_provs (run fuel w ops)) p = Some pr ->
  assoc_key (pv_cls pr, pv_ifaces pr) (st_cache (run fuel w ops)) = Some p ->
  exists st2' p' pr',
    rebuild fuel w (run fuel w ops2) (reduce_prov w pr) = (st2', Some (OProv p')) /\
    nth_error (st_provs st2') p' = Some pr' /\
    pv_cls pr' = pv_cls pr /\ pv_ifaces pr' = pv_ifaces pr /\ pv_bases pr' = pv_bases pr /\
    obj_interfaces fuel w st2' (OProv p') = obj_interfaces fuel w (run fuel w ops) (OProv p).
Proof. exact provides_roundtrip_reachable. Qed.
Print Assumptions C13_provides_roundtrip_reachable.

(* a class's provides-declaration (ClassProvides) is rebuilt, not shared: the result is a
   declaration with the same arguments, bases and interfaces, after any history *)
Theorem C13_classprovides_roundtrip_same_interfaces : forall fuel w ops q qr,
  wf_globals w = true ->
  nth_error (st_cprovs (run fuel w ops)) q = Some qr ->
  ids_ok w (cp_cls qr) (cp_ifaces qr) = true ->
  exists st' q' qr',
    rebuild fuel w (run fuel w ops) (reduce_cprov w qr) = (st', Some (OCProv q')) /\
    nth_error (st_cprovs st') q' = Some qr' /\
    cp_cls qr' = cp_cls qr /\ cp_ifaces qr' = cp_ifaces qr /\ cp_bases qr' = cp_bases qr /\
    obj_interfaces fuel w st' (OCProv q') = obj_interfaces fuel w (run fuel w ops) (OCProv q).
Proof. exact classprovides_roundtrip. Qed.
Print Assumptions C13_classprovides_roundtrip_same_interfaces.

(* an instance carrying (or not carrying) a declaration, in any state; the declaration, if any,
   is importable and still shared.  Unpickling creates a NEW instance whose record -- class,
   declaration object, plain attributes -- equals the original's, touches nothing else, and the
   new instance provides the same interfaces *)
Theorem C13_object_with_declaration_roundtrip : forall fuel w st io,
  wf_globals w = true ->
  in_cls io < List.length (w_classes w) ->
  (forall p, in_provides io = Some p ->
     exists pr, nth_error (st_provs st) p = Some pr /\ ids_ok w (pv_cls pr) (pv_ifaces pr) = true /\
                assoc_key (pv_cls pr, pv_ifaces pr) (st_cache st) = Some p) ->
  exists st',
    rebuild fuel w st (reduce_inst w st io) = (st', Some (OInst (List.length (st_insts st)))) /\
    nth_error (st_insts st') (List.length (st_insts st)) = Some io /\
    st_impl st' = st_impl st /\ st_provs st' = st_provs st /\ st_cache st' = st_cache st /\
    inst_provided fuel w st' io = inst_provided fuel w st io.
Proof. exact object_roundtrip. Qed.
Print Assumptions C13_object_with_declaration_roundtrip.

(* ... which holds for every instance after every module-ordered history *)
Theorem C13_object_roundtrip_module_ordered : forall fuel w cops iops o io,
  wf_globals w = true ->
  forallb is_class_op cops = true -> forallb (fun x => negb (is_class_op x)) iops = true ->
  nth_error (st_insts (run fuel w (cops ++ iops))) o = Some io ->
  in_cls io < List.length (w_classes w) ->
  (forall p pr, in_provides io = Some p -> nth_error (st_provs (run fuel w (cops ++ iops))) p = Some pr ->
                ids_ok w (pv_cls pr) (pv_ifaces pr) = true) ->
  exists st',
    rebuild fuel w (run fuel w (cops ++ iops)) (reduce_inst w (run fuel w (cops ++ iops)) io)
      = (st', Some (OInst (List.length (st_insts (run fuel w (cops ++ iops)))))) /\
    nth_error (st_insts st') (List.length (st_insts (run fuel w (cops ++ iops)))) = Some io /\
    st_impl st' = st_impl (run fuel w (cops ++ iops)) /\ st_provs st' = st_provs (run fuel w (cops ++ iops)) /\
    st_cache st' = st_cache (run fuel w (cops ++ iops)) /\
    inst_provided fuel w st' io = inst_provided fuel w (run fuel w (cops ++ iops)) io.
Proof. exact object_roundtrip_ordered. Qed.
Print Assumptions C13_object_roundtrip_module_ordered.

(* the unpickled value is equal and hash-equal to the original: interfaces (key equality, key hash),
   class specifications and still-shared provides-declarations (identity).  For ClassProvides and for
   declarations rebuilt in another process "equal" can only mean "same arguments, bases and
   interfaces" (the two theorems above): Python's == on them is identity *)
Theorem C13_roundtrip_eq_hash : forall fuel w ops,
  wf_globals w = true ->
  (forall i, i < List.length (w_ifaces w) ->
     exists y, rebuild fuel w (run fuel w ops) (reduce_iface w i) = (run fuel w ops, Some y) /\
       py_eq w y (OIface i) = true /\
       forall hk hid, py_hash w hk hid y = py_hash w hk hid (OIface i)) /\
  (forall c r, c < List.length (w_classes w) -> assoc_nat c (st_impl (run fuel w ops)) = Some r ->
     exists y, rebuild fuel w (run fuel w ops) (reduce_impl w r) = (run fuel w ops, Some y) /\
       py_eq w y (OImpl c) = true /\
       forall hk hid, py_hash w hk hid y = py_hash w hk hid (OImpl c)) /\
  (forall p pr, nth_error (st_provs (run fuel w ops)) p = Some pr -> ids_ok w (pv_cls pr) (pv_ifaces pr) = true ->
     assoc_key (pv_cls pr, pv_ifaces pr) (st_cache (run fuel w ops)) = Some p ->
     exists y, rebuild fuel w (run fuel w ops) (reduce_prov w pr) = (run fuel w ops, Some y) /\
       py_eq w y (OProv p) = true /\
       forall hk hid, py_hash w hk hid y = py_hash w hk hid (OProv p)).
Proof. exact roundtrip_eq_hash. Qed.
Print Assumptions C13_roundtrip_eq_hash.

(* ------------------------------------------------------------------ the model is the source text *)
(* Gen/ReduceKernel.v is re-derived from interface.py / declarations.py by the fail-closed translator
   harness/translate/reduce.py on every run; the functions the theorems above speak about are
   proved equal to what the source says now. *)

(* InterfaceClass.__reduce__ *)
Theorem C13_generated_iface_reduce_eq_model : forall w i, gen_iface_reduce w i = reduce_iface w i.
Proof. exact gen_iface_reduce_eq. Qed.
Print Assumptions C13_generated_iface_reduce_eq_model.

(* _ImmutableDeclaration.__reduce__ *)
Theorem C13_generated_empty_reduce_eq_model : gen_empty_reduce = reduce_empty.
Proof. exact gen_empty_reduce_eq. Qed.
Print Assumptions C13_generated_empty_reduce_eq_model.

(* Implements.__reduce__ with the _implements_cls fallback *)
Theorem C13_generated_implements_reduce_eq_model : forall w r, gen_impl_reduce w r = reduce_impl w r.
Proof. exact gen_impl_reduce_eq. Qed.
Print Assumptions C13_generated_implements_reduce_eq_model.

(* Provides.__init__ (the stored argument tuple) + Provides.__reduce__ *)
Theorem C13_generated_provides_reduce_eq_model : forall w pr, gen_prov_reduce w pr = reduce_prov w pr.
Proof. exact gen_prov_reduce_eq. Qed.
Print Assumptions C13_generated_provides_reduce_eq_model.

(* ClassProvides.__init__ + ClassProvides.__reduce__ *)
Theorem C13_generated_classprovides_reduce_eq_model : forall w qr, gen_cprov_reduce w qr = reduce_cprov w qr.
Proof. exact gen_cprov_reduce_eq. Qed.
Print Assumptions C13_generated_classprovides_reduce_eq_model.

(* implementedBy: the specification created for a class, including that `spec._implements_cls = cls`
   is executed for every class (it stands before the try: that stores the spec in the class) *)
Theorem C13_generated_new_spec_eq_model : forall w c, gen_default_impl w c = default_impl w c.
Proof. exact gen_default_impl_eq. Qed.
Print Assumptions C13_generated_new_spec_eq_model.

(* the Provides factory over InstanceDeclarations *)
Theorem C13_generated_factory_eq_model : forall fuel w st c is,
  gen_provides_factory fuel w st c is = provides_factory fuel w st c is.
Proof. exact gen_provides_factory_eq. Qed.
Print Assumptions C13_generated_factory_eq_model.

(* Provides.changed: the model's notify deletes exactly the entries the two guards of the source
   select among the declarations that hear of the change (their class, or a class specification
   among their arguments, depends on the changed class: prov_depends) *)
Theorem C13_generated_changed_eq_model : forall fuel w st c,
  notify fuel w st c =
  mkState (st_impl st) (st_cprov_of st) (st_cprovs st) (st_provs st)
          (filter (fun kp : ckey * nat =>
                     negb (prov_depends fuel w st (fst kp) c && gen_prov_changed true true))
                  (st_cache st))
          (st_insts st).
Proof. exact gen_prov_changed_eq. Qed.
Print Assumptions C13_generated_changed_eq_model.

(* directlyProvides: both constructors receive the list flattened by _normalizeargs, never the raw
   arguments (which may be Declaration objects that would be pickled by value) *)
Theorem C13_generated_directlyProvides_normalises : forall (A : Type) (normalizeargs : A -> list nat) (raw : A),
  gen_dp_class_args normalizeargs raw = inr (normalizeargs raw) /\
  gen_dp_instance_args normalizeargs raw = inr (normalizeargs raw).
Proof. exact gen_dp_args_normalised. Qed.
Print Assumptions C13_generated_directlyProvides_normalises.

(* ------------------------------------------------------------------ non-vacuity *)

Definition nm (s : string) : gname := (str_of_string "m", str_of_string s).

(* class 4 is the built-in type complex (no attribute can be set on it) *)
(* module m:  I0; I1(I0); I2; I3;   C0; C1(C0); C2(C1); C3(C1, C0);   o0 = C2() with a0 = 7, o1 = C3() *)
Definition w0 : world :=
  mkWorld [(nm "I0", []); (nm "I1", [0]); (nm "I2", []); (nm "I3", [])]
          [(nm "C0", []); (nm "C1", [0]); (nm "C2", [1]); (nm "C3", [1; 0]);
           ((str_of_string "builtins", str_of_string "complex"), [])]
          [(2, [7%Z]); (3, [])] [4] [] [] None.

(* @implementer(I1) C0; @implementer_only(I2) C1; classImplementsFirst(C3, I3); implementedBy(C2);
   @provider(I2) C0 *)
Definition cops0 : list op :=
  [OpClassImplements 0 [1]; OpClassImplementsOnly 1 [2]; OpClassImplementsFirst 3 3; OpImplementedBy 2;
   OpClassProvides 0 [2]].
(* directlyProvides(o0, I0, I2); alsoProvides(o0, I1); directlyProvides(o1, I1); gc *)
Definition iops0 : list op :=
  [OpDirectlyProvides 0 [0; 2]; OpAlsoProvides 0 [1]; OpDirectlyProvides 1 [1]; OpGc].
Definition st0 : state := run 10 w0 (cops0 ++ iops0).

(* the hypotheses of the theorems are met by a world with every declaration shape *)
Example C13_witness_world :
  wf_globals w0 = true /\
  forallb is_class_op cops0 = true /\ forallb (fun x => negb (is_class_op x)) iops0 = true /\
  cache_current 10 w0 st0 = true.
Proof. vm_compute. repeat split. Qed.

(* the shapes: C1 is an *only* spec (inherit = None, _implements_cls = C1), C2 purely inherited,
   C3 a *first* spec; each unpickles to itself and lists the expected interfaces *)
Example C13_witness_shapes :
  option_map im_inherit (assoc_nat 1 (st_impl st0)) = Some None /\
  option_map im_cls (assoc_nat 1 (st_impl st0)) = Some (Some 1) /\
  snd (rebuild 10 w0 st0 (reduce_impl w0 (get_impl w0 st0 1))) = Some (OImpl 1) /\
  snd (rebuild 10 w0 st0 (reduce_impl w0 (get_impl w0 st0 2))) = Some (OImpl 2) /\
  snd (rebuild 10 w0 st0 (reduce_impl w0 (get_impl w0 st0 3))) = Some (OImpl 3) /\
  obj_interfaces 10 w0 st0 (OImpl 0) = [1] /\
  obj_interfaces 10 w0 st0 (OImpl 1) = [2] /\
  obj_interfaces 10 w0 st0 (OImpl 2) = [2] /\
  obj_interfaces 10 w0 st0 (OImpl 3) = [3; 2; 1].
Proof. vm_compute. repeat split. Qed.

(* the theorem depends on the fix: with the reduction used before it (inherit only), the *only*
   class C1 unpickles as the empty declaration, while the other shapes were fine *)
Example C13_prefix_reduce_loses_only_class :
  reduce_impl_prefix w0 (get_impl w0 st0 1) = Call FImplementedBy [RNone] /\
  snd (rebuild 10 w0 st0 (reduce_impl_prefix w0 (get_impl w0 st0 1))) = Some OEmpty /\
  snd (rebuild 10 w0 st0 (reduce_impl_prefix w0 (get_impl w0 st0 2))) = Some (OImpl 2) /\
  obj_interfaces 10 w0 st0 (OImpl 1) = [2] /\ obj_interfaces 10 w0 st0 OEmpty = [].
Proof. vm_compute. repeat split. Qed.

(* instances: o0 holds Provides(C2, I0, I1) -- alsoProvides re-declared what directlyProvidedBy
   reported, I2 had been dropped because the class implies it -- which reduces to names only, is
   found again in the weak cache (identical), and is rebuilt with the same interfaces in the
   freshly imported module *)
Example C13_witness_provides :
  option_map in_provides (nth_error (st_insts st0) 0) = Some (Some 1) /\
  option_map (reduce_prov w0) (nth_error (st_provs st0) 1)
    = Some (Call FProvides [ByName (nm "C2"); ByName (nm "I0"); ByName (nm "I1")]) /\
  option_map (fun pr => snd (rebuild 10 w0 st0 (reduce_prov w0 pr))) (nth_error (st_provs st0) 1)
    = Some (Some (OProv 1)) /\
  obj_interfaces 10 w0 st0 (OProv 1) = [0; 1; 2] /\
  option_map (fun pr => let '(s, y) := rebuild 10 w0 (run 10 w0 cops0) (reduce_prov w0 pr) in
                        option_map (obj_interfaces 10 w0 s) y) (nth_error (st_provs st0) 1)
    = Some (Some [0; 1; 2]) /\
  (* o1: Provides(C3, I1): I1 is implied by the class and not a base, but stays an argument *)
  option_map (reduce_prov w0) (nth_error (st_provs st0) 2)
    = Some (Call FProvides [ByName (nm "C3"); ByName (nm "I1")]) /\
  option_map pv_bases (nth_error (st_provs st0) 2) = Some [RC 3] /\
  obj_interfaces 10 w0 st0 (OProv 2) = [3; 2; 1].
Proof. vm_compute. repeat split. Qed.

(* class-provides and whole instances *)
Example C13_witness_classprovides_and_objects :
  option_map (reduce_cprov w0) (nth_error (st_cprovs st0) 4)
    = Some (Call FClassProvides [ByName (nm "C0"); ByName g_type; ByName (nm "I2")]) /\
  assoc_nat 0 (st_cprov_of st0) = Some 4 /\
  option_map (fun qr => let '(s, y) := rebuild 10 w0 st0 (reduce_cprov w0 qr) in
                        (y, option_map (obj_interfaces 10 w0 s) y)) (nth_error (st_cprovs st0) 4)
    = Some (Some (OCProv 5), Some [2]) /\
  option_map (reduce_inst w0 st0) (nth_error (st_insts st0) 0)
    = Some (Call FNewObj [ByName (nm "C2"); Call FProvides [ByName (nm "C2"); ByName (nm "I0"); ByName (nm "I1")]; RInt 7%Z]) /\
  option_map (fun io => snd (rebuild 10 w0 st0 (reduce_inst w0 st0 io))) (nth_error (st_insts st0) 0)
    = Some (Some (OInst 2)) /\
  option_map (fun io => nth_error (st_insts (fst (rebuild 10 w0 st0 (reduce_inst w0 st0 io)))) 2)
             (nth_error (st_insts st0) 0) = Some (nth_error (st_insts st0) 0).
Proof. vm_compute. repeat split. Qed.

(* why "still shared" / "module-ordered" is needed: declare the instance first, narrow its class
   afterwards.  o0 = C2(); directlyProvides(o0, I2) while C2 inherits nothing that implies I2, then
   classImplements(C2, I2): the old declaration leaves the cache, the instance keeps it (stale,
   bases still [I2; C2]); unpickling builds a new, current declaration (bases [C2]) that lists the
   same interfaces here -- and the cache is current again *)
Definition ops1 : list op := [OpDirectlyProvides 0 [2]; OpClassImplements 2 [2]].
Example C13_stale_declaration_is_rebuilt_current :
  let st := run 10 w0 ops1 in
  option_map in_provides (nth_error (st_insts st) 0) = Some (Some 0) /\
  st_cache st = [] /\
  option_map (prov_current 10 w0 st) (nth_error (st_provs st) 0) = Some false /\
  option_map (fun pr => snd (rebuild 10 w0 st (reduce_prov w0 pr))) (nth_error (st_provs st) 0)
    = Some (Some (OProv 1)) /\
  option_map (fun pr => map pv_bases (st_provs (fst (rebuild 10 w0 st (reduce_prov w0 pr)))))
             (nth_error (st_provs st) 0) = Some [[RI 2; RC 2]; [RC 2]] /\
  obj_interfaces 10 w0 st (OProv 0) = [2] /\
  option_map (fun pr => let '(s, y) := rebuild 10 w0 st (reduce_prov w0 pr) in
                        (option_map (obj_interfaces 10 w0 s) y, cache_current 10 w0 s))
             (nth_error (st_provs st) 0) = Some (Some [2], true).
Proof. vm_compute. repeat split. Qed.

(* a built-in type declared with an *only* form, and a class-provides declaration built up with
   alsoProvides(cls, ..) / noLongerProvides(cls, ..): the reductions still hold names only *)
Definition ops2 : list op :=
  cops0 ++ [OpClassImplementsOnly 4 [0]; OpClassAlsoProvides 0 [3]; OpClassNoLongerProvides 0 2].
Example C13_witness_builtin_and_class_also_provides :
  let st := run 11 w0 ops2 in
  option_map im_inherit (assoc_nat 4 (st_impl st)) = Some None /\
  assoc_nat 4 (st_cprov_of st) = None /\
  reduce_impl w0 (get_impl w0 st 4)
    = Call FImplementedBy [ByName (str_of_string "builtins", str_of_string "complex")] /\
  snd (rebuild 11 w0 st (reduce_impl w0 (get_impl w0 st 4))) = Some (OImpl 4) /\
  snd (rebuild 11 w0 st (reduce_impl_prefix w0 (get_impl w0 st 4))) = Some OEmpty /\
  obj_interfaces 11 w0 st (OImpl 4) = [0] /\
  assoc_nat 0 (st_cprov_of st) = Some 6 /\
  option_map (reduce_cprov w0) (nth_error (st_cprovs st) 5)
    = Some (Call FClassProvides [ByName (nm "C0"); ByName g_type; ByName (nm "I2"); ByName (nm "I3")]) /\
  option_map (reduce_cprov w0) (nth_error (st_cprovs st) 6)
    = Some (Call FClassProvides [ByName (nm "C0"); ByName g_type; ByName (nm "I3")]) /\
  obj_interfaces 11 w0 st (OCProv 6) = [3].
Proof. vm_compute. repeat split. Qed.

(* a class whose metaclass is not `type` (one that makes the class object falsy, say) declared with
   an old-style `__implemented__ = I2` in its body: inherit = None from the start, the reduction
   names the class, the ClassProvides names the metaclass *)
Definition w1 : world :=
  mkWorld [(nm "I0", []); (nm "I1", [0]); (nm "I2", [])]
          [(nm "C0", []); (nm "Outer1.C1", [0])]
          [(1, [])] [] [(0, nm "Falsy"); (1, nm "Falsy")] [(1, [2])] None.
Example C13_witness_falsy_metaclass_oldstyle :
  let st := run 8 w1 [OpImplementedBy 1; OpClassImplements 1 [0]; OpClassProvides 1 [1]] in
  wf_globals w1 = true /\
  option_map im_inherit (assoc_nat 1 (st_impl st)) = Some None /\
  obj_interfaces 8 w1 st (OImpl 1) = [2; 0] /\
  reduce_impl w1 (get_impl w1 st 1) = Call FImplementedBy [ByName (nm "Outer1.C1")] /\
  snd (rebuild 8 w1 st (reduce_impl w1 (get_impl w1 st 1))) = Some (OImpl 1) /\
  snd (rebuild 8 w1 st (reduce_impl_prefix w1 (get_impl w1 st 1))) = Some OEmpty /\
  option_map (reduce_cprov w1) (nth_error (st_cprovs st) 2)
    = Some (Call FClassProvides [ByName (nm "Outer1.C1"); ByName (nm "Falsy"); ByName (nm "I1")]) /\
  option_map (fun qr => let '(s, y) := rebuild 8 w1 st (reduce_cprov w1 qr) in
                        (y, option_map (obj_interfaces 8 w1 s) y)) (nth_error (st_cprovs st) 2)
    = Some (Some (OCProv 3), Some [1]).
Proof. vm_compute. repeat split. Qed.

(* declarations that name Interface itself and another class's specification:
   index 3 is zope.interface.Interface (the base of I0 and I2), argument 4 + c is implementedBy(class c) *)
Definition w2 : world :=
  mkWorld [(nm "I0", [3]); (nm "I1", [0]); (nm "I2", [3]);
           ((str_of_string "zope.interface", str_of_string "Interface"), [])]
          [(nm "C0", []); (nm "C1", [])] [(1, [])] [] [] [] (Some 3).
Example C13_witness_interface_and_spec_arguments :
  let st := run 9 w2 [OpClassImplements 0 [1]; OpClassImplements 1 [3];
                      OpDirectlyProvides 0 [4; 3; 2]; OpClassProvides 1 [4; 3]] in
  wf_globals w2 = true /\
  obj_interfaces 9 w2 st (OImpl 1) = [3] /\
  option_map pv_bases (nth_error (st_provs st) 0) = Some [RC 0; RI 2; RC 1] /\
  option_map (reduce_prov w2) (nth_error (st_provs st) 0)
    = Some (Call FProvides [ByName (nm "C1"); Call FImplementedBy [ByName (nm "C0")];
                            ByName (str_of_string "zope.interface", str_of_string "Interface"); ByName (nm "I2")]) /\
  option_map (fun pr => snd (rebuild 9 w2 st (reduce_prov w2 pr))) (nth_error (st_provs st) 0) = Some (Some (OProv 0)) /\
  obj_interfaces 9 w2 st (OProv 0) = [1; 2; 3] /\
  option_map (fun pr => let '(s, y) := rebuild 9 w2 (run 9 w2 [OpClassImplements 0 [1]; OpClassImplements 1 [3]])
                                                (reduce_prov w2 pr) in option_map (obj_interfaces 9 w2 s) y)
             (nth_error (st_provs st) 0) = Some (Some [1; 2; 3]) /\
  option_map cp_bases (nth_error (st_cprovs st) 2) = Some [RC 0; RType] /\
  option_map (fun qr => let '(s, y) := rebuild 9 w2 st (reduce_cprov w2 qr) in option_map (obj_interfaces 9 w2 s) y)
             (nth_error (st_cprovs st) 2) = Some (Some [1]).
Proof. vm_compute. repeat split. Qed.
