(* Property C11 — Lookups stay memory-safe and atomic when other code mutates the registry.
   Only statements here; proofs are in Proofs/Own.v, Proofs/OwnToday.v, Proofs/Race.v.

   Two models.  (1) Model/Own.v: the reference-ownership machine for the C lookup functions; the
   code is the event skeleton extracted from the C source on this run (Gen/CSkeleton.v); the
   environment acts at every point where Python code can run.  (2) Model/Race.v: lookups as
   take-handle / compute / store-through-handle against mutators that end with changed(). *)
From Coq Require Import List Arith Bool.
Import ListNotations.
From ZI Require Import Model.Adapter Model.Lookup Model.Own Model.Race Proofs.Own Proofs.OwnInline Proofs.OwnToday
  Proofs.Race Gen.CSkeleton.

(* A path that keeps to the ownership discipline D (every pointer used after a may-call point was
   fetched after it or is owned since before it; every reference taken is given back exactly once)
   never dereferences a freed object, never releases a reference it does not hold, never reads a NULL
   slot, and returns with every reference count balanced, from every well-formed start state and for
   EVERY behaviour of the environment: the oracle [orc] supplies, at each may-call point, an arbitrary
   finite list of environment steps (changed(), nested or concurrent lookups, other threads'
   reference traffic) and every choice the outside world makes.  [strict] = dictionary key
   __hash__/__eq__ callbacks count as may-call points. *)
Theorem C11_discipline_safe : forall strict params p, D strict params p = true ->
  forall orc s k, init_ok params s = true ->
  match exec strict orc p s k with
  | Done s' => balanced params s' = true
  | Infeasible => True
  | Running _ _ => False
  | Fault _ => False
  end.
Proof. exact discipline_safe. Qed.
Print Assumptions C11_discipline_safe.

(* The skeleton extracted from TODAY'S C source keeps to the discipline on every path of every
   function, key callbacks included: D, and the stronger Dc (= D and every parameter stays owned after
   every step, Proofs/OwnInline.v) that makes each function a sound callee.  23 functions: the lookup
   code proper and providedBy, implementedBy, implementedByFallback, getObjectSpecification,
   SB_extends, _foreign_decl_implies, CPB_descr_get, OSD_descr_get, IB__adapt__, IB__call__.
   (Breaks when the C code regresses.) *)
Theorem C11_skeleton_disciplined : forallb (D_fn true) skeleton && forallb (Dc_fn true) skeleton = true.
Proof. exact skeleton_disciplined. Qed.
Print Assumptions C11_skeleton_disciplined.

(* COMPOSITIONALITY.  Model/Own.v replaces a call between two functions of the skeleton by a summary.
   Inlining a disciplined path (qbody, qret) of the callee g at a call site of a disciplined caller path
   -- parameters replaced by the arguments, every other variable of the callee renamed to k + v beyond
   all variables of the caller, "return v" turned into EMoveRef -- gives a disciplined caller path
   again, provided the site and the path fit: one argument per parameter, no object passed twice, the
   callee path does not mention a parameter that gets NULL, and it returns an object iff the call site
   is the one that receives one.  ([inline], [Dc], [dom_in] are defined in Proofs/OwnInline.v.) *)
Theorem C11_inlining_preserves_discipline :
  forall strict cps gps pre g args ret post cret qbody qret k,
  Dc strict cps (pre ++ ECall g args ret :: post) cret = true ->
  Dc strict gps qbody qret = true ->
  length args = length gps ->
  NoDup (somes args) ->
  (forall a, In a (somes args) -> a < k) ->
  (forall c, In c cps -> c < k) ->
  (forall e, In e (expand pre) -> forall v, In v (ev_vars e) -> v < k) ->
  match ret with
  | Some r => r < k /\ ~ In r (somes args) /\ qret <> None
  | None => qret = None
  end ->
  (forall e, In e (expand qbody) -> forall v, In v (ev_vars e) -> dom_in gps args v) ->
  (forall v, qret = Some v -> dom_in gps args v) ->
  Dc strict cps (pre ++ inline gps args ret k qbody qret ++ post) cret = true.
Proof.
  intros. eapply inline_preserves_Dc; eauto. constructor; auto.
Qed.
Print Assumptions C11_inlining_preserves_discipline.

(* Hence whole CALL TREES of today's code are safe: every path obtained from a path of an extracted
   function by replacing any of its calls, and the calls inside the replacements, to any depth, by
   fitting paths of the callees ([Tree], Proofs/OwnInline.v) -- _lookup1 -> _lookup -> _getcache ->
   _subcache, _adapter_hook -> providedBy -> implementedBy .., _verify -> _generations_tuple,
   IB__call__ -> IB__adapt__ -> providedBy .. -- never faults and returns balanced, under every
   environment. *)
Theorem C11_call_trees_safe : forall fid cps body r, Tree skeleton fid cps body r ->
  forall orc s k, init_ok cps s = true ->
  match exec true orc (expand body ++ [EReturn r]) s k with
  | Done s' => balanced cps s' = true
  | Infeasible => True
  | Running _ _ => False
  | Fault _ => False
  end.
Proof. exact today_trees_safe. Qed.
Print Assumptions C11_call_trees_safe.

(* the same for the trees built by computation ([inline_all]: call after call replaced by the first
   fitting path of the callee) *)
Theorem C11_inlined_paths_safe : forall f p b r fuel b', In f skeleton -> In p (fn_paths f) ->
  split_ret p = Some (b, r) -> inline_all fuel skeleton (fn_params f) b r = Some b' ->
  forall orc s k, init_ok (fn_params f) s = true ->
  match exec true orc (expand b' ++ [EReturn r]) s k with
  | Done s' => balanced (fn_params f) s' = true
  | Infeasible => True
  | Running _ _ => False
  | Fault _ => False
  end.
Proof. exact today_inlined_safe. Qed.
Print Assumptions C11_inlined_paths_safe.

(* LOOPS, for every iteration count.  A loop is given by the events [pre] up to its head and the event
   lists [conts] of its complete iterations.  If every iteration, started in the discipline state of the
   head, ends in a state at least as permissive as that one ([loop_ok]: same ownership everywhere, the
   loop's temporaries given back), then a path that passes the head stays disciplined -- hence safe and
   balanced under every environment -- with ANY sequence of iterations inserted there.  (Induction over
   the list of iterations, Proofs/OwnInline.v.) *)
Theorem C11_loops_safe_for_any_count : forall strict ps pre conts rest r,
  loop_ok strict ps pre conts = true ->
  Dc strict ps (pre ++ rest) r = true ->
  forall bs, Forall (fun b => In b conts) bs ->
  Dc strict ps (pre ++ concat bs ++ rest) r = true /\
  forall orc s k, init_ok ps s = true ->
  match exec strict orc (expand (pre ++ concat bs ++ rest) ++ [EReturn r]) s k with
  | Done s' => balanced ps s' = true
  | Infeasible => True
  | Running _ _ => False
  | Fault _ => False
  end.
Proof.
  intros. split; [eapply loops_any_count; eauto | intros; eapply loops_safe; eauto].
Qed.
Print Assumptions C11_loops_safe_for_any_count.

(* every loop extracted from today's source (the for-loop of _generations_tuple, the hook loop of
   IB__adapt__ on each way of reaching it) satisfies the invariant form, so its function's paths are safe
   with any number of iterations *)
Theorem C11_todays_loops_safe :
  forallb (fun l => loop_ok true (fst (fst l)) (snd (fst l)) (snd l)) skeleton_loops = true /\
  forall ps pre conts, In (ps, pre, conts) skeleton_loops ->
  forall f p rest r, In f skeleton -> In p (fn_paths f) -> fn_params f = ps ->
  split_ret p = Some (pre ++ rest, r) ->
  forall bs, Forall (fun b => In b conts) bs ->
  forall orc s k, init_ok ps s = true ->
  match exec true orc (expand (pre ++ concat bs ++ rest) ++ [EReturn r]) s k with
  | Done s' => balanced ps s' = true
  | Infeasible => True
  | Running _ _ => False
  | Fault _ => False
  end.
Proof. split; [exact loops_ok_today | exact today_loops_safe]. Qed.
Print Assumptions C11_todays_loops_safe.

(* ... and every extracted path of every extracted function on its own (calls as summaries) is
   memory-safe and leak-free under every environment. *)
Theorem C11_todays_code_safe : forall f p, In f skeleton -> In p (fn_paths f) ->
  forall orc s k, init_ok (fn_params f) s = true ->
  match exec true orc (expand p) s k with
  | Done s' => balanced (fn_params f) s' = true
  | Infeasible => True
  | Running _ _ => False
  | Fault _ => False
  end.
Proof. exact today_safe. Qed.
Print Assumptions C11_todays_code_safe.

(* After a mutator's changed(), and until the next write, whatever lookups were or are in flight:
   every entry reachable from the owner slot is the uncached answer in the CURRENT registry state.
   No answer computed before the mutation survives in the cache.  For any number of threads, any
   schedule [xs] before and [ys] after the changed(). *)
Theorem C11_no_stale_survivor : forall (R K A : Type) (keqb : K -> K -> bool) (answer : R -> K -> A),
  (forall a b, keqb a b = true -> a = b) ->
  forall r xs ys k a,
  forallb (fun x => negb (is_write R K x)) ys = true ->
  let g := grun R K A keqb answer (g_init R K A r) (xs ++ GChanged R K :: ys) in
  aget keqb (dict_of R K A g (g_owner R K A g)) k = Some a -> a = answer (g_cur R K A g) k.
Proof. exact no_stale_survivor_lemma. Qed.
Print Assumptions C11_no_stale_survivor.

(* A lookup that holds its cache handle while changed() runs stores into a DETACHED dictionary: its
   handle never again equals what the owner slot holds, and a store through it leaves the reachable
   dictionary untouched. *)
Theorem C11_store_detached : forall (R K A : Type) (keqb : K -> K -> bool) (answer : R -> K -> A),
  (forall a b, keqb a b = true -> a = b) ->
  forall r xs t h ys,
  let g := grun R K A keqb answer (g_init R K A r) xs in
  handle_of R K A (thr_of R K A g t) = Some h ->
  let g' := grun R K A keqb answer (gstep_run R K A keqb answer g (GChanged R K)) ys in
  h <> g_owner R K A g' /\
  forall q a, aget Nat.eqb (aset Nat.eqb (g_dicts R K A g') h (aset keqb (dict_of R K A g' h) q a)) (g_owner R K A g')
              = aget Nat.eqb (g_dicts R K A g') (g_owner R K A g').
Proof. exact store_detached_lemma. Qed.
Print Assumptions C11_store_detached.

(* Every lookup that returned, in any schedule of any number of lookup threads against any mutator
   steps, returned the uncached answer of a registry state in its window: a state the registry was in
   between the last mutation completed before the lookup started and the lookup's end (see
   Model/Race.v for the definition of the ghost window). *)
Theorem C11_atomic_answer : forall (R K A : Type) (keqb : K -> K -> bool) (answer : R -> K -> A),
  (forall a b, keqb a b = true -> a = b) ->
  forall r xs res,
  In res (g_log R K A (grun R K A keqb answer (g_init R K A r) xs)) ->
  exists r', In r' (r_win R K A res) /\ r_a R K A res = answer r' (r_q R K A res).
Proof. exact atomic_answer_lemma. Qed.
Print Assumptions C11_atomic_answer.

(* With no mutator step, interleaved lookups of any number of threads all return the uncached answer
   of the one registry state. *)
Theorem C11_readers_only_safe : forall (R K A : Type) (keqb : K -> K -> bool) (answer : R -> K -> A),
  (forall a b, keqb a b = true -> a = b) ->
  forall r xs,
  forallb (fun x => negb (is_mutation R K x)) xs = true ->
  forall res, In res (g_log R K A (grun R K A keqb answer (g_init R K A r) xs)) ->
  r_a R K A res = answer r (r_q R K A res).
Proof. exact readers_only_lemma. Qed.
Print Assumptions C11_readers_only_safe.

(* ------------------------------------------------------------------ non-vacuity and the pre-fix code *)

(* the heap the examples start from: slot 0 (_cache) holds the dictionary 0, which holds the inner
   dictionary 1; two parameter objects 2 and 3 held by the caller through variables 0 and 1 *)
Definition ex_heap : st :=
  mkSt [(HSlot 0, 0); (HItem 0, 1); (HVar 0, 2); (HVar 1, 3); (HExt, 2); (HExt, 3)] [] [] 4 [(0, 2); (1, 3)].
(* changed() as the environment performs it: the slot is cleared, the freed outer dictionary's
   reference to the inner one is dropped *)
Definition ex_changed : list estep := [XClearSlot 0; XDecExt 1].
Definition ex_oracle : oracle := mkOracle (fun _ => ex_changed) (fun _ => 0) (fun _ => (false, [])).

Example ex_heap_ok : init_ok [0; 1] ex_heap = true.
Proof. vm_compute. reflexivity. Qed.

(* the PRE-FIX _lookup (before 63c974a), by hand: the inner cache dictionary is fetched borrowed, the
   uncached lookup runs Python, then the dictionary is written *)
Definition prefix_lookup_path : path :=
  [EUse 0; EMayCall; EUse 0; ENewRef 4;                       (* required = PySequence_Tuple(required) *)
   EAssumeSlot 0 true; EFetchSlot 5 0; EFetchItem 6 5;        (* cache = _getcache(..)   BORROWED *)
   EUse 6; EUse 4; EKeyCall; EUse 4; EUse 6;                  (* PyDict_GetItem(cache, key): miss *)
   EUse 4; EUse 1; EMayCall; EUse 4; EUse 1; ENewRef 7;       (* result = self._uncached_lookup(..) *)
   EUse 6; EUse 4; EUse 7; EKeyCall; EUse 4; EUse 6; EStoreItem 6 7; EMayCall;   (* cache[key] = result *)
   EDecref 4; EReturn (Some 7)].

Example prefix_lookup_undisciplined : D true [0; 1] prefix_lookup_path = false /\ D false [0; 1] prefix_lookup_path = false.
Proof. vm_compute. split; reflexivity. Qed.

(* ... and the machine reaches a use-after-free on its six-event core *)
Definition prefix_core : path :=
  [EAssumeSlot 0 true; EFetchSlot 5 0; EFetchItem 6 5; EMayCall; EUse 6; EReturn None].

Example prefix_use_after_free : exec true ex_oracle prefix_core ex_heap 0 = Fault (UseFreed 6).
Proof. vm_compute. reflexivity. Qed.

(* today's shape of the same core (own the dictionary across the callback) survives the same
   environment, balanced; the theorem's hypotheses are satisfiable *)
Definition fixed_core : path :=
  [EAssumeSlot 0 true; EFetchSlot 5 0; EIncref 5; EFetchItem 6 5; EIncref 6; EDecref 5;
   EMayCall; EUse 6; EDecref 6; EReturn None].

Example fixed_core_disciplined : D true [0; 1] fixed_core = true.
Proof. vm_compute. reflexivity. Qed.

Example fixed_core_runs : match exec true ex_oracle fixed_core ex_heap 0 with
                          | Done s' => balanced [0; 1] s' && mem 1 (freed s') && mem 0 (freed s')
                          | _ => false
                          end = true.
Proof. vm_compute. reflexivity. Qed.

(* over-release (Py_DECREF twice) and a leak are both rejected by D, and the machine shows why *)
Example double_decref_rejected :
  D true [] [ENewRef 4; EDecref 4; EDecref 4; EReturn None] = false /\
  exec true ex_oracle [ENewRef 4; EDecref 4; EDecref 4; EReturn None] ex_heap 0 = Fault (OverRelease 4).
Proof. vm_compute. split; reflexivity. Qed.

Example leak_rejected :
  D true [0; 1] [ENewRef 4; EReturn None] = false /\
  match exec true ex_oracle [ENewRef 4; EReturn None] ex_heap 0 with
  | Done s' => balanced [0; 1] s' | _ => true end = false.
Proof. vm_compute. split; reflexivity. Qed.

(* the reference implementation: a Python frame's locals own what they point to, so the frame of
   LookupBasePy.lookup (adapter.py) keeps to the discipline by construction *)
Definition python_lookup_frame : path :=
  [EMayCall; ENewRef 4;                                        (* cache = self._getcache(provided, name) *)
   EUse 0; EMayCall; EUse 0; ENewRef 5;                        (* tuple(required) *)
   EUse 4; EUse 5; EKeyCall; EUse 5; EUse 4;                   (* cache.get(key): miss *)
   EUse 5; EUse 1; EMayCall; EUse 5; EUse 1; ENewRef 6;        (* self._uncached_lookup(..) *)
   EUse 4; EUse 5; EUse 6; EKeyCall; EUse 5; EUse 4; EStoreItem 4 6; EMayCall;   (* cache[key] = result *)
   EDecref 4; EDecref 5; EReturn (Some 6)].                     (* frame exit *)

Example python_frame_disciplined : D true [0; 1] python_lookup_frame = true.
Proof. vm_compute. reflexivity. Qed.

(* today's skeleton is not empty: 23 functions, at least the 13 of the lookup code proper have paths *)
Example skeleton_is_there :
  (23 <=? length skeleton) && (13 <=? length (filter (fun f => 1 <=? length (fn_paths f)) skeleton)) = true.
Proof. exact skeleton_nonempty. Qed.

(* loops were found *)
Example loops_were_extracted : 2 <=? length skeleton_loops = true.
Proof. exact loops_exist. Qed.

(* the three borrow rules at work *)
Example tuple_item_rule :
  (* an item of a tuple we own may be used across a may-call point ... *)
  D true [0] [EFetchTuple 2 0; EMayCall; EUse 2; EReturn None] = true /\
  (* ... not any more once we gave the tuple up ... *)
  D true [] [ENewRef 1; EFetchTuple 2 1; EDecref 1; EUse 2; EReturn None] = false /\
  (* ... and never an item of a tuple we only borrowed *)
  D true [] [EAssumeSlot 3 true; EFetchSlot 1 3; EFetchTuple 2 1; EUse 2; EReturn None] = false.
Proof. vm_compute. repeat split; reflexivity. Qed.

Example mutable_container_rule :
  (* a dictionary value or list item is good only until the next may-call point, however well the
     container is owned *)
  D true [0] [EFetchItem 2 0; EUse 2; EReturn None] = true /\
  D true [0] [EFetchItem 2 0; EMayCall; EUse 2; EReturn None] = false /\
  D true [0] [EFetchItem 2 0; EIncref 2; EMayCall; EUse 2; EDecref 2; EReturn None] = true.
Proof. vm_compute. repeat split; reflexivity. Qed.

(* call trees exist: every path of _lookup1, _adapter_hook, _verify, providedBy and IB__call__ inlines
   completely (no call left) *)
Example call_trees_exist :
  forallb fully_inlines (filter (fun f => existsb (Nat.eqb (fn_id f)) [6; 7; 12; 18; 22]) skeleton) = true
  /\ length (filter (fun f => existsb (Nat.eqb (fn_id f)) [6; 7; 12; 18; 22]) skeleton) = 5.
Proof. exact trees_exist. Qed.

(* the race model on a concrete schedule: registry = a number, answer r q = r + q.
   thread 1 takes the handle and computes in state 10; a mutator writes 20 and calls changed();
   thread 1 stores (into the detached dictionary); thread 2 looks up the same key: it computes afresh
   and gets the post-mutation answer, and that is what the reachable cache holds *)
Definition ex_sched : list (gstep nat nat) :=
  [GStart _ _ 1 7; GCompute _ _ 1; GWrite _ _ (fun _ => 20); GChanged _ _; GStore _ _ 1;
   GStart _ _ 2 7; GCompute _ _ 2; GStore _ _ 2; GStart _ _ 3 7].
Definition ex_final := grun nat nat nat Nat.eqb (fun r q => r + q) (g_init nat nat nat 10) ex_sched.

Example race_example :
  map (fun res => (r_tid _ _ _ res, r_a _ _ _ res)) (g_log _ _ _ ex_final) = [(3, 27); (2, 27); (1, 17)]
  /\ aget Nat.eqb (dict_of _ _ _ ex_final (g_owner _ _ _ ex_final)) 7 = Some 27
  /\ aget Nat.eqb (dict_of _ _ _ ex_final 0) 7 = Some 17            (* the detached dictionary got the old answer *)
  /\ g_owner _ _ _ ex_final = 1.
Proof. vm_compute. repeat split; reflexivity. Qed.
