(* Property C17 — verifyObject / verifyClass accept exactly the candidates meeting the contract.
   Only statements here; proofs are in Proofs/Verify.v and Proofs/VerifyKernel.v.  [incompat] is
   Gen/Incompat.v, the translation of verify.py:_incompat regenerated on every run, so these
   statements are about the arity rules the source contains NOW; gen_verify_element / gen_verify /
   gen_verifyClass / gen_verifyObject / gen_from_method are Gen/VerifyKernel.v, the translation of
   the rest of verify.py (and of interface.py:fromMethod) regenerated on every run, and the
   C17_generated_* theorems show the model [verify] the other theorems are about IS that code.
   sig = (req, npos, varargs, kwargs); shape = (k positional arguments, an unknown keyword?);
   admits / binds / call_binds / callee / spec_failures / elem_wf: Spec/Binds.v;
   verify / from_function / err_class: Model/Verify.v. *)
From Coq Require Import List Arith Bool.
Import ListNotations.
From ZI Require Import Spec.Binds Model.Verify Gen.Incompat Proofs.Verify Gen.VerifyKernel Proofs.VerifyKernel.

(* _incompat finds nothing to complain about exactly when every call shape the interface's
   signature admits binds to the implementation's signature — all arities, no bound *)
Theorem C17_incompat_none_iff_all_shapes_bind : forall iface impl, req iface <= npos iface ->
  (incompat iface impl = None <->
   forall sh : nat * bool,
     (* admitted: required..all positionals, more if *args; an unknown keyword if **kwargs *)
     ((req iface <= fst sh /\ fst sh <= npos iface) \/ (npos iface < fst sh /\ varargs iface = true))
     /\ (snd sh = true -> kwargs iface = true) ->
     (* binds: as inspect.Signature.bind *)
     req impl <= fst sh /\ (fst sh <= npos impl \/ varargs impl = true)
     /\ (snd sh = true -> kwargs impl = true)).
Proof. exact incompat_none_iff_all_shapes_bind. Qed.
Print Assumptions C17_incompat_none_iff_all_shapes_bind.

(* the shapes a signature admits are exactly the calls that bind to a function declared with it *)
Theorem C17_admits_iff_binds : forall s sh, req s <= npos s -> (admits s sh <-> binds s sh).
Proof. exact admits_iff_binds. Qed.
Print Assumptions C17_admits_iff_binds.

(* fromMethod / fromFunction(imlevel=1): the signature computed for a function reached through
   an instance binds k arguments exactly when the raw function binds instance + k arguments,
   whether the instance lands in a first parameter or in *args *)
Theorem C17_self_stripped_binds : forall raw sh, req raw <= npos raw ->
  (1 <= npos raw \/ varargs raw = true) ->
  (binds (from_function raw 1) sh <-> binds raw (S (fst sh), snd sh)).
Proof. exact binds_from_method. Qed.
Print Assumptions C17_self_stripped_binds.

(* NOT covered by the property's quantifier ("with self"), stated so that nothing is hidden: a
   def with no positional parameter and no *args - def m() or def m( **kw ) in a class body - cannot
   be called through an instance with any shape, yet verification accepts it for def m() *)
Theorem C17_selfless_method_accepted_refuted :
  exists iface raw, req iface <= npos iface /\ req raw <= npos raw /\ npos raw = 0 /\ varargs raw = false /\
    incompat iface (from_function raw 1) = None /\
    (forall sh, ~ call_binds true raw sh).
Proof. exact selfless_method_accepted. Qed.
Print Assumptions C17_selfless_method_accepted_refuted.

(* the finite enumeration used by the executable Spec (and by the run-time oracle) loses
   nothing: checking arities up to one more than every positional parameter decides all shapes *)
Theorem C17_bounded_shapes_suffice : forall iface self_bound raw,
  (forallb (fun sh => implb (admitsb iface sh) (call_bindsb self_bound raw sh))
           (shapes_upto (S (Nat.max (npos iface) (npos raw)))) = true
   <-> forall sh, admits iface sh -> call_binds self_bound raw sh).
Proof. exact bounded_shapes_suffice. Qed.
Print Assumptions C17_bounded_shapes_suffice.

(* verification succeeds iff the candidate declares the interface (unless tentative), every
   named attribute is there, methods are callable, and every admitted call shape binds to every
   implementation whose signature can be introspected.  [elem_wf]: signatures come from real
   defs (req <= npos; a function reached through an instance has a first parameter or *args). *)
Theorem C17_verify_success_iff : forall vt tentative declares cand_is_type elems,
  Forall (elem_wf vt cand_is_type) elems ->
  (verify incompat vt tentative declares cand_is_type elems = Ok <->
   (tentative = true \/ declares = true) /\
   forall n d a, In (n, d, a) elems ->
     (a = VMissing -> d = DAttr /\ vt = VClass) /\
     (forall s, d = DMethod s -> a <> VOther /\ (a = VProperty -> vt = VClass)) /\
     (forall s self_bound raw, d = DMethod s -> callee vt cand_is_type a = Some (self_bound, raw) ->
        forall sh, admits s sh -> call_binds self_bound raw sh)).
Proof. exact verify_success_iff. Qed.
Print Assumptions C17_verify_success_iff.

(* everything that is wrong is reported: nothing raised when nothing is wrong, the single
   Invalid when one thing is, MultipleInvalid carrying exactly the individual failures (in the
   order of the interface's names) otherwise *)
Theorem C17_errors_reported_exactly : forall vt tentative declares cand_is_type elems,
  Forall (elem_wf vt cand_is_type) elems ->
  match verify incompat vt tentative declares cand_is_type elems with
  | Ok => spec_failures vt tentative declares cand_is_type elems = []
  | Single e => spec_failures vt tentative declares cand_is_type elems = [err_class e]
  | Multiple es => 2 <= length es /\
                   map err_class es = spec_failures vt tentative declares cand_is_type elems
  end.
Proof. exact errors_reported_exactly. Qed.
Print Assumptions C17_errors_reported_exactly.

(* and the kind of outcome is determined by how many things are wrong *)
Theorem C17_outcome_by_failure_count : forall vt tentative declares cand_is_type elems,
  Forall (elem_wf vt cand_is_type) elems ->
  let fs := spec_failures vt tentative declares cand_is_type elems in
  (length fs = 0 -> verify incompat vt tentative declares cand_is_type elems = Ok) /\
  (length fs = 1 -> exists e, verify incompat vt tentative declares cand_is_type elems = Single e) /\
  (2 <= length fs -> exists es, verify incompat vt tentative declares cand_is_type elems = Multiple es).
Proof. exact outcome_by_count. Qed.
Print Assumptions C17_outcome_by_failure_count.

(* ---- the regenerated transcription of verify.py equals the model, for all inputs ---- *)

(* _verify_element: attribute lookup and its AttributeError handling, the isinstance case
   analysis, the imlevel selection, the argument order of the _incompat call *)
Theorem C17_generated_verify_element_eq_model : forall vt cand_is_type e,
  gen_verify_element vt cand_is_type e = verify_element incompat vt cand_is_type e.
Proof. exact gen_verify_element_eq. Qed.
Print Assumptions C17_generated_verify_element_eq_model.

(* _verify: tester selection (implementedBy for 'c', providedBy otherwise), the tentative
   check, the collecting loop, the none / one / many policy *)
Theorem C17_generated_verify_eq_model : forall vt tentative implemented_by provided_by cand_is_type elems,
  gen_verify vt tentative implemented_by provided_by cand_is_type elems
  = verify incompat vt tentative (match vt with VClass => implemented_by | VObject => provided_by end)
           cand_is_type elems.
Proof. exact gen_verify_eq. Qed.
Print Assumptions C17_generated_verify_eq_model.

(* verifyClass / verifyObject *)
Theorem C17_generated_verify_wrappers_eq_model : forall tentative implemented_by provided_by cand_is_type elems,
  gen_verifyClass tentative implemented_by provided_by cand_is_type elems
  = verify incompat VClass tentative implemented_by cand_is_type elems /\
  gen_verifyObject tentative implemented_by provided_by cand_is_type elems
  = verify incompat VObject tentative provided_by cand_is_type elems.
Proof. exact gen_wrappers_eq. Qed.
Print Assumptions C17_generated_verify_wrappers_eq_model.

(* interface.py: fromMethod strips one parameter, fromFunction none unless told *)
Theorem C17_generated_verify_from_method_eq_model :
  (forall raw, gen_from_method raw = from_method raw) /\ gen_from_function_default_imlevel = 0.
Proof. exact (conj gen_from_method_eq gen_default_imlevel_eq). Qed.
Print Assumptions C17_generated_verify_from_method_eq_model.

(* ---- non-vacuity ---- *)

(* def m(a, b=1, *args, **kw) against def m(self, a, *rest, **kw): compatible *)
Example ex_compatible :
  incompat (mkSig 1 2 true true) (from_function (mkSig 2 2 true true) 1) = None.
Proof. vm_compute. reflexivity. Qed.

(* def m(a) against a method def m( *args ): the instance is absorbed by *args *)
Example ex_instance_in_varargs :
  incompat (mkSig 1 1 false false) (from_function (mkSig 0 0 true false) 1) = None /\
  elem_wf VObject false (0, DMethod (mkSig 1 1 false false), VMethod (mkSig 0 0 true false)).
Proof. split; [vm_compute; reflexivity|apply elem_wfb_sound; vm_compute; reflexivity]. Qed.

(* each of the four complaints is reachable *)
Example ex_complaints :
  exists m0 m1 m2 m3,
    incompat (mkSig 1 1 false false) (mkSig 2 2 false false) = Some m0 /\
    incompat (mkSig 1 2 false false) (mkSig 1 1 false false) = Some m1 /\
    incompat (mkSig 0 0 false true) (mkSig 0 0 false false) = Some m2 /\
    incompat (mkSig 0 0 true false) (mkSig 0 3 false false) = Some m3.
Proof. vm_compute. repeat eexists. Qed.

(* an admitted shape that does not bind: iface (a, *args), impl (a, b=None): three positionals *)
Example ex_shape_does_not_bind :
  admits (mkSig 1 1 true false) (3, false) /\ ~ binds (mkSig 1 2 false false) (3, false).
Proof.
  unfold admits, binds; cbn. split; [split; [right; split; [repeat constructor|reflexivity]|discriminate]|].
  intros [_ [[H|H] _]]; [|discriminate]. repeat apply le_S_n in H. inversion H.
Qed.

(* a candidate with three things wrong (undeclared, attribute 0 missing, method 2 takes too
   many arguments), one thing right (method 1, a bound method), one thing that cannot be
   checked (method 3, a builtin): MultipleInvalid with exactly the three *)
Definition ex_elems : list elem :=
  [ (0, DAttr, VMissing);
    (1, DMethod (mkSig 1 2 false false), VMethod (mkSig 2 3 false true));
    (2, DMethod (mkSig 0 0 false false), VMethod (mkSig 2 2 false false));
    (3, DMethod (mkSig 1 1 false false), VBuiltin) ].

Example ex_wf : Forall (elem_wf VObject false) ex_elems /\ Forall (elem_wf VClass true) ex_elems.
Proof. split; apply forallb_elem_wfb; vm_compute; reflexivity. Qed.

Example ex_multiple :
  exists m, verify incompat VObject false false false ex_elems
            = Multiple [EDoesNotImplement; EBrokenImplementation 0; EBrokenMethod 2 m].
Proof. vm_compute. eexists. reflexivity. Qed.

Example ex_single :
  verify incompat VObject false true false ex_elems <> Ok /\
  verify incompat VClass false true true ex_elems <> Ok /\
  exists e, verify incompat VObject true false false (tl ex_elems) = Single e.
Proof. vm_compute. repeat split; try discriminate. eexists. reflexivity. Qed.

Example ex_ok : verify incompat VObject false true false [nth 1 ex_elems (0, DAttr, VMissing); (3, DMethod (mkSig 1 1 false false), VBuiltin)] = Ok.
Proof. vm_compute. reflexivity. Qed.

(* the generated code computes, e.g. the MultipleInvalid of ex_multiple, through verifyObject *)
Example ex_generated :
  exists m, gen_verifyObject false false false false ex_elems
            = Multiple [EDoesNotImplement; EBrokenImplementation 0; EBrokenMethod 2 m].
Proof. vm_compute. eexists. reflexivity. Qed.
