(* Property C12 — Interfaces have a total, hash-consistent, process-independent order.
   Only statements here; proofs are in Proofs/Order.v.  [uc] = "C optimizations in use". *)
From Coq Require Import List NArith Bool ZArith Sorting.Sorted Sorting.Permutation.
Import ListNotations.
From ZI Require Import Lib.Str Model.Order Proofs.Order Gen.Compare Proofs.OrderGen Gen.CompareC Proofs.OrderGenC.

(* equal exactly when (__name__, __module__) are equal *)
Theorem C12_eq_iff_key : forall uc a b, is_iface a -> is_iface b ->
  (binop uc OpEq a b = BBool true <-> okey a = okey b).
Proof. exact eq_iff_key_lemma. Qed.
Print Assumptions C12_eq_iff_key.

(* equal interfaces hash equal, whatever the hash function and the memo state *)
Theorem C12_hash_respects_eq : forall (h : key -> Z) (hid : nat -> Z) uc ma mb a b,
  is_iface a -> is_iface b -> memo_ok h ma a -> memo_ok h mb b ->
  binop uc OpEq a b = BBool true ->
  fst (hash_of h hid ma a) = fst (hash_of h hid mb b).
Proof. exact hash_respects_eq_lemma. Qed.
Print Assumptions C12_hash_respects_eq.

(* != is the negation of == *)
Theorem C12_ne_is_negb_eq : forall uc a b, is_iface a -> is_iface b ->
  exists r, binop uc OpEq a b = BBool r /\ binop uc OpNe a b = BBool (negb r).
Proof. exact ne_is_negb_eq_lemma. Qed.
Print Assumptions C12_ne_is_negb_eq.

(* < is a strict total order on keys (trichotomy), for interfaces and class specs alike *)
Theorem C12_lt_irrefl : forall uc a, is_spec a -> ~ lt uc a a.
Proof. exact lt_irrefl. Qed.
Print Assumptions C12_lt_irrefl.

Theorem C12_lt_trans : forall uc a b c, is_spec a -> is_spec b -> is_spec c ->
  lt uc a b -> lt uc b c -> lt uc a c.
Proof. exact lt_trans. Qed.
Print Assumptions C12_lt_trans.

Theorem C12_lt_trichotomy : forall uc a b, is_spec a -> is_spec b ->
  (lt uc a b /\ okey a <> okey b /\ ~ lt uc b a) \/
  (~ lt uc a b /\ okey a = okey b /\ ~ lt uc b a) \/
  (~ lt uc a b /\ okey a <> okey b /\ lt uc b a).
Proof. exact lt_trichotomy. Qed.
Print Assumptions C12_lt_trichotomy.

(* <, <=, >, >= all read off the same three-way comparison of the keys *)
Theorem C12_order_ops_consistent : forall uc a b, is_spec a -> is_spec b ->
  exists c, c = key_cmp (okey a) (okey b) /\
    binop uc OpLt a b = BBool (match c with Lt => true | _ => false end) /\
    binop uc OpLe a b = BBool (match c with Gt => false | _ => true end) /\
    binop uc OpGt a b = BBool (match c with Gt => true | _ => false end) /\
    binop uc OpGe a b = BBool (match c with Lt => false | _ => true end).
Proof. exact order_ops_consistent. Qed.
Print Assumptions C12_order_ops_consistent.

(* reflected comparisons agree — for every pair of operands, foreign ones included *)
Theorem C12_reflected_agree : forall uc o a b, binop uc o a b = binop uc (swap_op o) b a.
Proof. exact reflected_agree_lemma. Qed.
Print Assumptions C12_reflected_agree.

(* every specification sorts before None; never equal to it *)
Theorem C12_none_is_greatest : forall uc a, is_spec a ->
  binop uc OpLt a none_op = BBool true /\ binop uc OpLe a none_op = BBool true /\
  binop uc OpGt a none_op = BBool false /\ binop uc OpGe a none_op = BBool false /\
  binop uc OpLt none_op a = BBool false /\ binop uc OpLe none_op a = BBool false /\
  binop uc OpGt none_op a = BBool true /\ binop uc OpGe none_op a = BBool true /\
  binop uc OpEq a none_op = BBool false /\ binop uc OpNe a none_op = BBool true /\
  binop uc OpEq none_op a = BBool false /\ binop uc OpNe none_op a = BBool true.
Proof. exact none_is_greatest_lemma. Qed.
Print Assumptions C12_none_is_greatest.

(* class specifications keep identity equality *)
Theorem C12_impl_eq_identity : forall uc a b, is_impl a -> is_impl b ->
  binop uc OpEq a b = BBool (same_obj a b) /\ binop uc OpNe a b = BBool (negb (same_obj a b)).
Proof. exact impl_eq_identity. Qed.
Print Assumptions C12_impl_eq_identity.

(* mixed collections: incomparability is "same key" (strict weak order) *)
Theorem C12_incomparable_iff_key : forall uc a b, is_spec a -> is_spec b ->
  (~ lt uc a b /\ ~ lt uc b a) <-> okey a = okey b.
Proof. exact incomparable_iff_key. Qed.
Print Assumptions C12_incomparable_iff_key.

(* sorting a mixed collection with < : sorted by key, a permutation, and the key sequence of
   the result is a function of the key sequence of the input alone (no hash, address,
   implementation or process enters) *)
Theorem C12_sort_sorted : forall uc l, Forall is_spec l ->
  StronglySorted kle (sort (lt_of uc) l) /\ Permutation l (sort (lt_of uc) l).
Proof. exact sort_sorted_lemma. Qed.
Print Assumptions C12_sort_sorted.

Theorem C12_sort_deterministic : forall uc l, Forall is_spec l ->
  map okey (sort (lt_of uc) l) = sort_k (map okey l).
Proof. exact sort_keys_lemma. Qed.
Print Assumptions C12_sort_deterministic.

(* the C rich-compare slot equals the Python methods on every operand and operator *)
Theorem C12_c_richcompare_eq_py : forall o a b, is_iface a -> c_richcompare o a b = py_method o a b.
Proof. exact c_richcompare_eq_py_lemma. Qed.
Print Assumptions C12_c_richcompare_eq_py.

(* the two implementations give the same answer to every comparison expression *)
Theorem C12_binop_c_eq_py : forall uc o a b, binop uc o a b = binop false o a b.
Proof. exact binop_uc. Qed.
Print Assumptions C12_binop_c_eq_py.

(* the kernel regenerated from interface.py on this run IS the model the theorems above are about *)
Theorem C12_generated_compare_eq_model : forall self other,
  compare_gen self other = compare_mixin self other.
Proof. exact compare_gen_eq_model. Qed.
Print Assumptions C12_generated_compare_eq_model.

Theorem C12_generated_methods_eq_model : forall o self other, okind_of self = KIface ->
  py_method o self other =
    match o with
    | OpLt => gen__lt self other | OpLe => gen__le self other
    | OpGt => gen__gt self other | OpGe => gen__ge self other
    | OpEq => gen__eq self other | OpNe => gen__ne self other
    end.
Proof. exact gen_py_method_iface. Qed.
Print Assumptions C12_generated_methods_eq_model.

(* the C slot IB_richcompare as extracted from the C source on this run IS the model's c_richcompare
   (identity and None short cuts, name decides unless equal, then module), for all operands *)
Theorem C12_generated_c_richcompare_eq_model : forall o self other,
  gen_c_richcompare o self other = c_richcompare o self other.
Proof. exact gen_c_richcompare_eq_model. Qed.
Print Assumptions C12_generated_c_richcompare_eq_model.

Theorem C12_generated_c_method_table : forall o self other, okind_of self = KIface ->
  method_table true o self other = gen_c_richcompare o self other.
Proof. exact gen_c_method_table. Qed.
Print Assumptions C12_generated_c_method_table.

(* non-vacuity: concrete operands meeting the hypotheses, with non-trivial answers *)
Example C12_witness :
  let a := mkOp KIface 1 [73%N; 65%N] [109%N] in       (* IA in m *)
  let b := mkOp KIface 2 [73%N; 65%N] [109%N; 50%N] in (* IA in m2: equal names, module decides *)
  let c := mkOp KImpl 3 [73%N; 65%N] [109%N] in
  is_iface a /\ is_iface b /\ is_impl c /\ lt true a b /\ ~ lt true b a /\
  binop true OpEq a c = BBool true /\ binop false OpEq c c = BBool true /\
  map okey (sort (lt_of true) [b; c; a]) = [okey c; okey a; okey b].
Proof. cbv. repeat split; try reflexivity; discriminate. Qed.
