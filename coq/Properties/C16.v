(* Property C16 -- Components listings, lookups and events stay mutually consistent.
   Only statements here; proofs are in Proofs/Components.v.

   Model: Model/Components.v ([cstep]: the eight register*/unregister* methods and re-__init__ of
   zope.interface.registry.Components over the two adapter registries of Model/Adapter.v, with
   the _UtilityRegistrations counting cache).  Spec: Spec/Components.v (a ledger of live
   registrations, [spec_step]; what a call removed / added; [events_ok]).

   Histories are arbitrary lists of operations; [final W hashable ops] is the state they reach
   from a fresh Components.  Standing hypotheses, all boolean / satisfiable (Examples at the end):
     ok_op cls      every component / factory in the history has equality class cls(identity),
                    i.e. ``==`` is an equivalence that identical objects satisfy;
     hash_cls       hashability is a function of the equality class (an unhashable component is
                    never equal to a hashable one; __hash__ consistent with __eq__).
   [W] (the specification world: resolution orders) and [hashable] are arbitrary. *)
From Coq Require Import List Arith Bool.
Import ListNotations.
From ZI Require Import Model.Ro Model.Adapter Model.Lookup Model.RegSys Model.Components Model.ComponentsSys
  Spec.Components Proofs.Components Proofs.ComponentsLookup Gen.ComponentsKernel Proofs.ComponentsKernel
  Proofs.ComponentsSys Proofs.ComponentsRepair.

(* registered*() list exactly the live registrations: each listing IS the ledger of the history
   (in order; the ledger is defined by filter / append / replace on plain lists) *)
Theorem C16_listings_exact : forall (W : world) (hashable : value -> bool) (cls : nat -> nat),
  (forall a b, veq a = veq b -> hashable a = hashable b) ->
  forall ops, forallb (ok_op cls) ops = true ->
    registeredUtilities (final W hashable ops) = map rec_u (l_u (ledger_of ops)) /\
    registeredAdapters (final W hashable ops) = map rec_a (l_a (ledger_of ops)) /\
    registeredSubscriptionAdapters (final W hashable ops) = map rec_s (l_s (ledger_of ops)) /\
    registeredHandlers (final W hashable ops) = map rec_h (l_h (ledger_of ops)).
Proof. exact listings_exact_lemma. Qed.
Print Assumptions C16_listings_exact.

(* the two underlying registries hold exactly what the listings determine:
   utilities: one registration ((), provided, name) -> component per listed utility (same order);
              no subscription under any key other than ((), provided); under ((), provided) the
              subscribed components are pairwise unequal and "an object == c is subscribed" iff
              "a utility == c is listed under provided" -- one subscription per distinct
              (provided, ==-class);
   adapters:  one registration per listed adapter (same order); under (required, provided) exactly
              the listed subscription-adapter factories, under (required, None) exactly the listed
              handlers -- in listing order, with multiplicity.
   Hence every query method (a walk over these two stores) is a function of the listings; how a
   store answers lookups is the subject of C04 / C07.  (The registries' _provided counters, which
   only prune the search, are not part of this statement.) *)
Theorem C16_registries_determined_by_listings :
  forall (W : world) (hashable : value -> bool) (cls : nat -> nat),
  (forall a b, veq a = veq b -> hashable a = hashable b) ->
  forall ops, forallb (ok_op cls) ops = true ->
    let st := final W hashable ops in
    adapters (c_utils st) = util_regs (registeredUtilities st)
    /\ (forall k, (forall p, k <> ([], Some p)) -> sub_leaf (c_utils st) k = [])
    /\ (forall p, nodupeq (sub_leaf (c_utils st) ([], Some p))
                  /\ forall c, okv cls c = true ->
                       existsb (fun x => v_eq x c) (sub_leaf (c_utils st) ([], Some p))
                       = util_has (registeredUtilities st) p c)
    /\ adapters (c_adapters st) = adapter_regs (registeredAdapters st)
    /\ (forall q p, sub_leaf (c_adapters st) (q, Some p) = sub_facs (registeredSubscriptionAdapters st) q (Some p))
    /\ (forall q, sub_leaf (c_adapters st) (q, None) = sub_facs (registeredHandlers st) q None).
Proof. exact registries_determined_lemma. Qed.
Print Assumptions C16_registries_determined_by_listings.

(* F13 (recorded finding): the literal reading "answers as registries populated with exactly the
   listed registrations would" fails by identity for getAllUtilitiesRegisteredFor: it can return a
   component that no listing mentions (it is == to a listed one, which is all that
   C16_registries_determined_by_listings promises) *)
Theorem C16_subscribed_utility_may_be_unlisted :
  exists W hashable cls ops p v,
    (forall a b, veq a = veq b -> hashable a = hashable b) /\ forallb (ok_op cls) ops = true /\
    In v (getAllUtilitiesRegisteredFor W (final W hashable ops) p) /\
    forall p' n c i f, In (RU p' n c i f) (registeredUtilities (final W hashable ops)) -> vid c <> vid v.
Proof. exact stale_utility_lemma. Qed.
Print Assumptions C16_subscribed_utility_may_be_unlisted.

(* rebuildUtilityRegistryFromLocalCache() finds nothing to repair in any reachable state:
   (needed_registered, did_not_register, needed_subscribed, did_not_subscribe) = (0, n, 0, n) *)
Theorem C16_probe_finds_nothing : forall (W : world) (hashable : value -> bool) (cls : nat -> nat),
  (forall a b, veq a = veq b -> hashable a = hashable b) ->
  forall ops, forallb (ok_op cls) ops = true ->
    probe (final W hashable ops)
    = (0, length (registeredUtilities (final W hashable ops)), 0, length (registeredUtilities (final W hashable ops))).
Proof. exact probe_lemma. Qed.
Print Assumptions C16_probe_finds_nothing.

(* rebuildUtilityRegistryFromLocalCache in general ([rebuildUtilityRegistry rebuild st] returns the
   new state and the four counters).  rebuild=False is the probe and changes nothing. *)
Theorem C16_probe_is_rebuild_false : forall (W : world) st,
  rebuildUtilityRegistry W false st = (st, probe st).
Proof. exact rebuild_false_is_probe. Qed.
Print Assumptions C16_probe_is_rebuild_false.

(* rebuild=True repairs: from ANY state whose utility registrations have distinct keys -- reachable
   or not, however the ``utilities`` registry was tampered with -- afterwards every listed utility
   is registered (an ==-equal object under its key) and subscribed, nothing else of the object
   changed, and the probe finds nothing more to repair.  (It only adds: entries put into the
   registry behind the object's back are not removed.) *)
Theorem C16_probe_repairs : forall (W : world) st, NoDup (map fst (c_ureg st)) ->
  let st' := fst (rebuildUtilityRegistry W true st) in
  (forall p n v i f, In ((p, n), (v, i, f)) (c_ureg st) ->
     (exists v', registered (c_utils st') [] p n = Some v' /\ v_eq v' v = true)
     /\ subscribed (c_utils st') [] (Some p) v = true)
  /\ c_ureg st' = c_ureg st /\ c_cache st' = c_cache st /\ c_adapters st' = c_adapters st
  /\ c_areg st' = c_areg st /\ c_sreg st' = c_sreg st /\ c_hreg st' = c_hreg st
  /\ probe st' = (0, length (c_ureg st), 0, length (c_ureg st)).
Proof. exact rebuild_true_repairs. Qed.
Print Assumptions C16_probe_repairs.

(* The event clause in full -- "each call emits exactly one Unregistered event per registration
   it removed, then one Registered event per registration it added, and nothing else" -- reads
       forall W hashable cls, hash_cls -> forall ops o, ok ops -> ok o ->
         events_ok (events of the call o after ops) o (spec_step (ledger_of ops) o) = true.
   It is FALSE of the faithful model (findings F9 and F11): *)
Theorem C16_events_exact_refuted :
  ~ (forall (W : world) (hashable : value -> bool) (cls : nat -> nat),
       (forall a b, veq a = veq b -> hashable a = hashable b) ->
       forall ops o, forallb (ok_op cls) ops = true -> ok_op cls o = true ->
       events_ok (evs_of (cstep W hashable (final W hashable ops) o)) o (spec_step (ledger_of ops) o) = true).
Proof. exact events_exact_refuted_lemma. Qed.
Print Assumptions C16_events_exact_refuted.

(* F9: an unregisterSubscriptionAdapter / unregisterHandler call that removes several
   registrations emits one event (witness: the same subscription adapter registered twice) *)
Theorem C16_events_exact_refuted_multi_removal :
  exists W hashable cls ops o,
    (forall a b, veq a = veq b -> hashable a = hashable b) /\
    forallb (ok_op cls) ops = true /\ ok_op cls o = true /\
    multi_removal (ledger_of ops) o = true /\
    events_ok (evs_of (cstep W hashable (final W hashable ops) o)) o (spec_step (ledger_of ops) o) = false.
Proof. exact events_refuted_multi_lemma. Qed.
Print Assumptions C16_events_exact_refuted_multi_removal.

(* F11: registerAdapter over a live (required, provided, name) emits just one Registered event:
   no Unregistered for the displaced registration (and a Registered even when nothing changes) *)
Theorem C16_events_exact_refuted_adapter_overwrite :
  exists W hashable cls ops o,
    (forall a b, veq a = veq b -> hashable a = hashable b) /\
    forallb (ok_op cls) ops = true /\ ok_op cls o = true /\
    adapter_overwrite (ledger_of ops) o = true /\
    events_ok (evs_of (cstep W hashable (final W hashable ops) o)) o (spec_step (ledger_of ops) o) = false.
Proof. exact events_refuted_overwrite_lemma. Qed.
Print Assumptions C16_events_exact_refuted_adapter_overwrite.

(* ... and it holds for every other call: [benign] excludes exactly the two shapes above (an
   unregisterSubscriptionAdapter / unregisterHandler call matching more than one live registration;
   a registerAdapter call on a live key).  What is missing for the full clause: those two shapes. *)
Theorem C16_events_exact_partial : forall (W : world) (hashable : value -> bool) (cls : nat -> nat),
  (forall a b, veq a = veq b -> hashable a = hashable b) ->
  forall ops o, forallb (ok_op cls) ops = true -> ok_op cls o = true ->
    benign (ledger_of ops) o = true ->
    events_ok (evs_of (cstep W hashable (final W hashable ops) o)) o (spec_step (ledger_of ops) o) = true.
Proof. exact events_partial_lemma. Qed.
Print Assumptions C16_events_exact_partial.

(* unregister* return whether anything was removed (or raise TypeError for a named subscriber /
   handler, removing nothing) *)
Theorem C16_unregister_returns_removed : forall (W : world) (hashable : value -> bool) (cls : nat -> nat),
  (forall a b, veq a = veq b -> hashable a = hashable b) ->
  forall ops o, forallb (ok_op cls) ops = true -> ok_op cls o = true -> is_unregister o = true ->
    ret_of (cstep W hashable (final W hashable ops) o) = RTypeError
    \/ ret_of (cstep W hashable (final W hashable ops) o)
       = RBool (nonempty (o_removed (spec_step (ledger_of ops) o))).
Proof. exact unregister_returns_lemma. Qed.
Print Assumptions C16_unregister_returns_removed.

(* registerUtility on a key that lists (oc, oi, of): an equal (component, info) is a no-op -- state
   unchanged, no event; anything else yields exactly Unregistered(old) then Registered(new);
   on a key that lists nothing: exactly Registered(new).  With event=False the Registered event is
   left out (the Unregistered event of the displaced registration is not) *)
Theorem C16_replace_order : forall (W : world) (hashable : value -> bool) (cls : nat -> nat),
  (forall a b, veq a = veq b -> hashable a = hashable b) ->
  forall ops c p n i f ev, forallb (ok_op cls) ops = true -> okv cls c = true ->
    let st := final W hashable ops in
    (forall oc oi of, In (RU p n oc oi of) (registeredUtilities st) ->
       if v_eq oc c && Nat.eqb oi i
       then cstep W hashable st (RegUtility c p n i f ev) = (st, RNone, [])
       else evs_of (cstep W hashable st (RegUtility c p n i f ev))
            = Unregistered (RU p n oc oi of) :: (if ev then [Registered (RU p n c i f)] else []))
    /\ ((forall oc oi of, ~ In (RU p n oc oi of) (registeredUtilities st)) ->
        evs_of (cstep W hashable st (RegUtility c p n i f ev)) = if ev then [Registered (RU p n c i f)] else []).
Proof. exact replace_order_lemma. Qed.
Print Assumptions C16_replace_order.

(* the registries' pruning structures (_provided counts driving the lookup object's _extendors)
   never hide what is stored, in ANY history (no hypothesis at all): a stored registration or
   non-empty subscription leaf with provided p is listed among the extendors of every interface
   p extends, and extendors only list specifications that extend the interface asked for.
   Together with C16_registries_determined_by_listings: the walkers behind every query method see
   exactly the listed registrations. *)
Theorem C16_pruning_never_hides : forall (W : world) (hashable : value -> bool) ops,
  let st := final W hashable ops in
  forall r, r = c_utils st \/ r = c_adapters st ->
    (forall q p n v i, In ((q, p, n), v) (adapters r) -> In i (iro W p) -> In p (ext_get (extendors r) i))
    /\ (forall q p i, sub_leaf r (q, Some p) <> [] -> In i (iro W p) -> In p (ext_get (extendors r) i))
    /\ (forall i p, In p (ext_get (extendors r) i) -> In i (iro W p)).
Proof. exact pruning_never_hides_lemma. Qed.
Print Assumptions C16_pruning_never_hides.

(* queryUtility answers from the listings: what it returns is a listed utility of that name whose
   provided interface extends the one asked for; and it returns something whenever such a utility
   is listed.  (Which one, among several applicable, is C04's subject.) *)
Theorem C16_queryUtility_from_listings : forall (W : world) (hashable : value -> bool) (cls : nat -> nat),
  (forall a b, veq a = veq b -> hashable a = hashable b) ->
  forall ops, forallb (ok_op cls) ops = true ->
    let st := final W hashable ops in
    (forall p n c, queryUtility W st p n = Some c ->
       exists p' i f, In (RU p' n c i f) (registeredUtilities st) /\ In p (iro W p'))
    /\ (forall p p' n c i f, In (RU p' n c i f) (registeredUtilities st) -> In p (iro W p') ->
          queryUtility W st p n <> None).
Proof. exact queryUtility_lemma. Qed.
Print Assumptions C16_queryUtility_from_listings.

(* ---- several Components objects connected by __bases__ (Model/ComponentsSys.v): histories of
   SNew bases / SSetBases r bases / SOp r <one of the calls above on object r>.
   [sys_wf]: objects exist when used, __bases__ name earlier objects, an object still listed as a
   base is not re-initialised. *)

(* listings only list local registrations: whatever its bases, each object lists exactly the ledger
   of the operations addressed to it *)
Theorem C16_listings_local : forall (W : world) (hashable : value -> bool) (cls : nat -> nat),
  (forall a b, veq a = veq b -> hashable a = hashable b) ->
  forall ops i, sys_wf ops = true ->
    forallb (fun o => match o with SOp _ c => ok_op cls c | _ => true end) ops = true ->
    let st := comp (sys_final W hashable ops) i in
    registeredUtilities st = map rec_u (l_u (ledger_of (proj i ops))) /\
    registeredAdapters st = map rec_a (l_a (ledger_of (proj i ops))) /\
    registeredSubscriptionAdapters st = map rec_s (l_s (ledger_of (proj i ops))) /\
    registeredHandlers st = map rec_h (l_h (ledger_of (proj i ops))).
Proof. exact listings_local_lemma. Qed.
Print Assumptions C16_listings_local.

(* the query methods follow the current bases: the registries consulted are those of the C3 order
   [fresh_ro] of the CURRENT __bases__ graph; every object of that chain is in the state a single
   Components reaches on the operations addressed to it -- so all theorems above (storage determined
   by its listings, pruning, probe) hold of each link --; single lookups return the answer of the
   nearest object that has one; getAllUtilitiesRegisteredFor / subscribers / handle return what
   every object of the chain contributes, bases first.  (That the real registries -- with lookup
   caches, stored ``ro`` and change propagation -- compute these walkers is C05 / C06.) *)
Theorem C16_queries_follow_bases : forall (W : world) (hashable : value -> bool) ops r,
  let S := sys_final W hashable ops in
  chain S r = fresh_ro (bases_view S) r
  /\ (sys_wf ops = true -> forall j, comp S j = final W hashable (proj j ops))
  /\ (forall p n, sys_queryUtility W S r p n = first_some (fun j => queryUtility W (comp S j) p n) (chain S r))
  /\ (forall p, sys_getAllUtilitiesRegisteredFor W S r p
                = flat_map (fun j => getAllUtilitiesRegisteredFor W (comp S j) p) (rev (chain S r)))
  /\ (forall call os p n, sys_queryMultiAdapter W call S r os p n
                          = match first_some (fun j => uncached_lookup W [c_adapters (comp S j)] (map fst os) p n) (chain S r) with
                            | Some f => call f (map snd os)
                            | None => None
                            end)
  /\ (forall call os p, snd (sys_subscribers W call S r os p)
                        = flat_map (fun j => snd (subscribersOf W call (comp S j) os p)) (rev (chain S r)))
  /\ (forall os, sys_handle W S r os = flat_map (fun j => handle W (comp S j) os) (rev (chain S r))).
Proof. exact queries_follow_bases_lemma. Qed.
Print Assumptions C16_queries_follow_bases.

(* ---- the tie to the source TEXT.  Gen/ComponentsKernel.v is rewritten on every run by the
   fail-closed translator harness/translate/components.py from the current registry.py; the
   theorems below are re-checked against that text and say that what the source says IS the model
   the theorems above are about -- for all states and arguments.  [gup], [gn], [gap], [gar] stand for
   the inference helpers _getUtilityProvided, _getName, _getAdapterProvided, _getAdapterRequired,
   which the model leaves out: the equalities are for calls that pass provided / required
   explicitly ([gar] then only converts None to Interface) and components without a
   __component_name__.  Still hand-modelled: __init__ / __bases__, the _utility_registrations_cache property, the
   inference helpers, and what the registries' own lookup / subscriptions / queryAdapter do (C04-C08). *)
Theorem C16_generated_counter_eq_model : forall l c n,
  g_counter_init l = l /\ g_counter_getitem l c = cnt l c /\
  g_counter_setitem l c n = cnt_set l c n /\ g_counter_delitem l c = cnt_del l c.
Proof.
  intros l c n. exact (conj (g_counter_init_eq l) (conj (g_counter_getitem_eq l c)
                        (conj (g_counter_setitem_eq l c n) (g_counter_delitem_eq l c)))).
Qed.
Print Assumptions C16_generated_counter_eq_model.

(* class _UtilityRegistrations: _is_utility_subscribed, __cache_utility (with the switch to the
   counter), __uncache_utility, registerUtility, unregisterUtility *)
Theorem C16_generated_utility_cache_eq_model : forall (W : world) (hashable : value -> bool) st C p n c i f,
  g_is_utility_subscribed hashable C p c = is_subscribed hashable C p c /\
  g_cache_utility hashable C p c = cache_utility hashable C p c /\
  g_uncache_utility hashable C p c = uncache_utility hashable C p c /\
  g_ur_registerUtility W hashable (c_utils st) (c_ureg st) (c_cache st) p n c i f
  = (c_utils (ur_register W hashable st p n c i f), c_ureg (ur_register W hashable st p n c i f),
     c_cache (ur_register W hashable st p n c i f)) /\
  g_ur_unregisterUtility W hashable (c_utils st) (c_ureg st) (c_cache st) p n c
  = (c_utils (fst (ur_unregister W hashable st p n c)), c_ureg (fst (ur_unregister W hashable st p n c)),
     c_cache (fst (ur_unregister W hashable st p n c)), snd (ur_unregister W hashable st p n c)).
Proof.
  intros W hashable st C p n c i f.
  exact (conj (g_is_utility_subscribed_eq hashable C p c) (conj (g_cache_utility_eq hashable C p c)
        (conj (g_uncache_utility_eq hashable C p c) (conj (g_ur_registerUtility_eq W hashable st p n c i f)
        (g_ur_unregisterUtility_eq W hashable st p n c))))).
Qed.
Print Assumptions C16_generated_utility_cache_eq_model.

(* Components.registerUtility / unregisterUtility / registeredUtilities: component given, component
   produced by factory= (identity f returning c), and both given (TypeError, nothing happens) *)
Theorem C16_generated_utilities_eq_model :
  forall (W : world) (hashable : value -> bool) (gup : value -> option spec) (gn : value -> name),
  (forall c, gn c = 0) ->
  forall st c c' co f p po n i ev,
    g_registerUtility W hashable gup gn st (Some c) (Some p) n i ev None = cstep W hashable st (RegUtility c p n i None ev) /\
    g_registerUtility W hashable gup gn st None (Some p) n i ev (Some (f, c)) = cstep W hashable st (RegUtility c p n i (Some f) ev) /\
    g_registerUtility W hashable gup gn st (Some c') po n i ev (Some (f, c)) = cstep W hashable st (UtilityBoth false c' p n) /\
    g_unregisterUtility W hashable gup st co (Some p) n None = cstep W hashable st (UnregUtility co p n) /\
    g_unregisterUtility W hashable gup st None (Some p) n (Some (f, c)) = cstep W hashable st (UnregUtility (Some c) p n) /\
    g_unregisterUtility W hashable gup st (Some c') po n (Some (f, c)) = cstep W hashable st (UtilityBoth true c' p n) /\
    g_registeredUtilities st = registeredUtilities st.
Proof.
  intros W hashable gup gn Hgn st c c' co f p po n i ev.
  exact (conj (g_registerUtility_eq W hashable gup gn Hgn st c p n i ev)
        (conj (g_registerUtility_factory_eq W hashable gup gn Hgn st f c p n i ev)
        (conj (g_registerUtility_both W hashable gup gn st f c c' po n i ev)
        (conj (g_unregisterUtility_eq W hashable gup st co p n)
        (conj (g_unregisterUtility_factory_eq W hashable gup st f c p n)
        (conj (g_unregisterUtility_both W hashable gup st f c c' po n) (g_registeredUtilities_eq st))))))).
Qed.
Print Assumptions C16_generated_utilities_eq_model.

Theorem C16_generated_adapters_eq_model :
  forall (W : world) (gn : value -> name) (gap : value -> option spec)
         (gar : option value -> option (list (option spec)) -> option (list spec)),
  (forall c, gn c = 0) -> (forall f req, gar f (Some req) = Some (map conv req)) ->
  forall st f fo req p n i ev,
    g_registerAdapter W gn gap gar st f (Some req) (Some p) n i ev = cstep W (fun _ => true) st (RegAdapter f req p n i ev) /\
    g_unregisterAdapter W gap gar st fo (Some req) (Some p) n = cstep W (fun _ => true) st (UnregAdapter fo req p n) /\
    g_registeredAdapters st = registeredAdapters st.
Proof.
  intros W gn gap gar Hgn Hgar st f fo req p n i ev.
  exact (conj (g_registerAdapter_eq W gn gap gar Hgn Hgar st f req p n i ev)
        (conj (g_unregisterAdapter_eq W gap gar Hgar st fo req p n) (g_registeredAdapters_eq st))).
Qed.
Print Assumptions C16_generated_adapters_eq_model.

Theorem C16_generated_subscriptions_eq_model :
  forall (W : world) (gap : value -> option spec)
         (gar : option value -> option (list (option spec)) -> option (list spec)),
  (forall f req, gar f (Some req) = Some (map conv req)) ->
  forall st f fo req p n i ev,
    g_registerSubscriptionAdapter W gap gar st f (Some req) (Some p) n i ev = cstep W (fun _ => true) st (RegSub f req p n i ev) /\
    g_unregisterSubscriptionAdapter W gap gar st fo (Some req) (Some p) n = cstep W (fun _ => true) st (UnregSub fo req p n) /\
    g_registerHandler W gar st f (Some req) n i ev = cstep W (fun _ => true) st (RegHandler f req n i ev) /\
    g_unregisterHandler W gar st fo (Some req) n = cstep W (fun _ => true) st (UnregHandler fo req n) /\
    g_registeredSubscriptionAdapters st = registeredSubscriptionAdapters st /\
    g_registeredHandlers st = registeredHandlers st.
Proof.
  intros W gap gar Hgar st f fo req p n i ev.
  exact (conj (g_registerSubscriptionAdapter_eq W gap gar Hgar st f req p n i ev)
        (conj (g_unregisterSubscriptionAdapter_eq W gap gar Hgar st fo req p n)
        (conj (g_registerHandler_eq W gar Hgar st f req n i ev)
        (conj (g_unregisterHandler_eq W gar Hgar st fo req n)
        (conj (g_registeredSubscriptionAdapters_eq st) (g_registeredHandlers_eq st)))))).
Qed.
Print Assumptions C16_generated_subscriptions_eq_model.

Theorem C16_generated_rebuild_eq_model : forall (W : world) rebuild st,
  g_rebuildUtilityRegistry W rebuild st = rebuildUtilityRegistry W rebuild st.
Proof. exact g_rebuildUtilityRegistry_eq. Qed.
Print Assumptions C16_generated_rebuild_eq_model.

(* the repair path (rebuild=True) of rebuildUtilityRegistryFromLocalCache as regenerated from the
   source text is the model's, hence (C16_probe_repairs) it repairs *)
Theorem C16_generated_rebuild_from_cache_eq_model : forall (W : world) st,
  g_rebuildUtilityRegistry W true st = rebuildUtilityRegistry W true st.
Proof. intros W st. exact (g_rebuildUtilityRegistry_eq W true st). Qed.
Print Assumptions C16_generated_rebuild_from_cache_eq_model.

(* inferred arguments = explicit arguments.  For ARBITRARY answers of the inference helpers ([gup]
   _getUtilityProvided, [gn] _getName, [gap] _getAdapterProvided, [gar] _getAdapterRequired), a call
   of the regenerated kernels that leaves provided / required / name to inference (from
   ``implementer`` declarations, ``__component_adapts__``, ``named()``) IS the model's call with the
   inferred values passed explicitly -- so it is listed, queried and announced exactly like it --, and
   a failing inference is a TypeError that changes nothing. *)
Theorem C16_generated_inference_eq_explicit :
  forall (W : world) (hashable : value -> bool) (gup : value -> option spec) (gn : value -> name)
         (gap : value -> option spec) (gar : option value -> option (list (option spec)) -> option (list spec))
         st c f ro po n i ev,
    g_registerUtility W hashable gup gn st (Some c) po n i ev None
    = match or_infer po (gup c) with
      | None => (st, RTypeError, [])
      | Some p => cstep W hashable st (RegUtility c p (name_or n (gn c)) i None ev)
      end /\
    g_unregisterUtility W hashable gup st (Some c) None n None
    = match gup c with
      | None => (st, RTypeError, [])
      | Some p => cstep W hashable st (UnregUtility (Some c) p n)
      end /\
    g_registerAdapter W gn gap gar st f ro po n i ev
    = match or_infer po (gap f) with
      | None => (st, RTypeError, [])
      | Some p => match gar (Some f) ro with
                  | None => (st, RTypeError, [])
                  | Some q => cstep W hashable st (RegAdapter f (map Some q) p (name_or n (gn f)) i ev)
                  end
      end /\
    g_unregisterAdapter W gap gar st (Some f) None None n
    = match gap f with
      | None => (st, RTypeError, [])
      | Some p => match gar (Some f) None with
                  | None => (st, RTypeError, [])
                  | Some q => cstep W hashable st (UnregAdapter (Some f) (map Some q) p n)
                  end
      end /\
    g_registerSubscriptionAdapter W gap gar st f ro po 0 i ev
    = match or_infer po (gap f) with
      | None => (st, RTypeError, [])
      | Some p => match gar (Some f) ro with
                  | None => (st, RTypeError, [])
                  | Some q => cstep W hashable st (RegSub f (map Some q) p 0 i ev)
                  end
      end /\
    g_registerHandler W gar st f ro 0 i ev
    = match gar (Some f) ro with
      | None => (st, RTypeError, [])
      | Some q => cstep W hashable st (RegHandler f (map Some q) 0 i ev)
      end.
Proof.
  intros W hashable gup gn gap gar st c f ro po n i ev.
  exact (conj (g_registerUtility_inferred W hashable gup gn st c po n i ev)
        (conj (g_unregisterUtility_inferred W hashable gup st c n)
        (conj (g_registerAdapter_inferred W gn gap gar st f ro po n i ev)
        (conj (g_unregisterAdapter_inferred W gap gar st f n)
        (conj (g_registerSubscriptionAdapter_inferred W gap gar st f ro po i ev)
              (g_registerHandler_inferred W gar st f ro i ev)))))).
Qed.
Print Assumptions C16_generated_inference_eq_explicit.

(* the query methods delegate to the right registry with the right arguments ([u_regs] / [a_regs]:
   the ``utilities`` / ``adapters`` registries along the object's base chain) *)
Theorem C16_generated_queries_eq_model : forall (W : world) (call : value -> list nat -> option nat) S r,
  (forall p n, g_queryUtility W (u_regs S r) p n = sys_queryUtility W S r p n) /\
  (forall p, g_getUtilitiesFor W (u_regs S r) p = sys_getUtilitiesFor W S r p) /\
  (forall p, g_getAllUtilitiesRegisteredFor W (u_regs S r) p = sys_getAllUtilitiesRegisteredFor W S r p) /\
  (forall o p n, g_queryAdapter W call (a_regs S r) o p n = sys_queryMultiAdapter W call S r [o] p n) /\
  (forall os p n, g_queryMultiAdapter W call (a_regs S r) os p n = sys_queryMultiAdapter W call S r os p n) /\
  (forall os p, g_getAdapters W call (a_regs S r) os p = sys_getAdapters W call S r os p) /\
  (forall os p, g_subscribers W call (a_regs S r) os p = sys_subscribers W call S r os p) /\
  (forall os, g_handle W call (a_regs S r) os = sys_handle W S r os).
Proof. exact g_queries_eq. Qed.
Print Assumptions C16_generated_queries_eq_model.

(* ---- non-vacuity: a history with equal-but-distinct (1, 2) and unhashable (5, 6) components,
   a replacement, removals, adapters, subscription adapters and handlers meets the hypotheses and
   reaches a non-trivial state *)
Example C16_ex_hypotheses :
  (forall a b, veq a = veq b -> hashable0 a = hashable0 b) /\
  forallb (ok_op cls0) ex_ops = true /\ ok_op cls0 ex_op = true /\ ok_op cls0 ex_op2 = true /\
  benign (ledger_of ex_ops) ex_op = true /\ benign (ledger_of ex_ops) ex_op2 = true /\
  is_unregister ex_op2 = true.
Proof. split; [exact hashable0_cls | vm_compute; repeat split]. Qed.

Example C16_ex_state :
  registeredUtilities (final W0 hashable0 ex_ops)
  = [RU 3 2 (mkV 5 5) 1 (Some 7); RU 3 0 (mkV 6 5) 0 None] /\
  registeredAdapters (final W0 hashable0 ex_ops) = [] /\
  registeredSubscriptionAdapters (final W0 hashable0 ex_ops)
  = [RS [1] 2 (Some (mkV 4 4)) 0; RS [1] 2 (Some (mkV 3 3)) 1] /\
  registeredHandlers (final W0 hashable0 ex_ops) = [RH [0] (Some (mkV 4 4)) 0] /\
  sub_leaf (c_utils (final W0 hashable0 ex_ops)) ([], Some 3) = [mkV 5 5] /\
  probe (final W0 hashable0 ex_ops) = (0, 2, 0, 2).
Proof. vm_compute. repeat split. Qed.

(* a benign unregister that removes something, and one that removes nothing *)
Example C16_ex_unregister :
  cstep W0 hashable0 (final W0 hashable0 ex_ops) ex_op2
  = (st_of (cstep W0 hashable0 (final W0 hashable0 ex_ops) ex_op2), RBool true,
     [Unregistered (RS [1] 2 (Some (mkV 4 4)) 0)]) /\
  o_removed (spec_step (ledger_of ex_ops) ex_op2) = [RS [1] 2 (Some (mkV 4 4)) 0] /\
  ret_of (cstep W0 hashable0 (final W0 hashable0 ex_ops) ex_op) = RBool false.
Proof. vm_compute. repeat split. Qed.

(* a replaced utility (the 4th operation replaces component 1 by the unhashable 6 under (3, '')) *)
Example C16_ex_replace :
  evs_of (cstep W0 hashable0 (final W0 hashable0 (firstn 3 ex_ops)) (RegUtility (mkV 6 5) 3 0 0 None true))
  = [Unregistered (RU 3 0 (mkV 1 1) 0 None); Registered (RU 3 0 (mkV 6 5) 0 None)] /\
  evs_of (cstep W0 hashable0 (final W0 hashable0 (firstn 3 ex_ops)) (RegUtility (mkV 2 1) 3 0 0 (Some 9) true)) = [] /\
  evs_of (cstep W0 hashable0 (final W0 hashable0 (firstn 3 ex_ops)) (RegUtility (mkV 6 5) 3 0 0 None false))
  = [Unregistered (RU 3 0 (mkV 1 1) 0 None)].
Proof. vm_compute. repeat split. Qed.

(* a lookup through the hierarchy: utility 6 is listed under interface 3, which extends 0 *)
Example C16_ex_query :
  queryUtility W0 (final W0 hashable0 ex_ops) 0 0 = Some (mkV 6 5) /\
  In 0 (iro W0 3) /\ queryUtility W0 (final W0 hashable0 ex_ops) 0 1 = None.
Proof. vm_compute. repeat split. right. left. reflexivity. Qed.

(* the hypotheses on the inference oracles are satisfiable: no __component_name__, and
   _getAdapterRequired on an explicit ``required`` only maps None to Interface *)
Example C16_ex_oracles :
  (forall c : value, (fun _ : value => 0) c = 0) /\
  (forall (f : option value) req,
     (fun (_ : option value) (r : option (list (option spec))) => option_map (map conv) r) f (Some req)
     = Some (map conv req)).
Proof. split; reflexivity. Qed.

(* two objects: object 1 (bases = (0,)) sees object 0's utility and subscription adapter through its
   chain [1; 0]; after re-basing it away it does not *)
Example C16_ex_bases :
  sys_wf sys_ex_ops = true /\
  chain (sys_final W0 hashable0 sys_ex_ops) 1 = [1; 0] /\
  sys_queryUtility W0 (sys_final W0 hashable0 sys_ex_ops) 1 3 0 = Some (mkV 1 1) /\
  registeredUtilities (comp (sys_final W0 hashable0 sys_ex_ops) 1) = [RU 3 1 (mkV 4 4) 0 None] /\
  snd (sys_subscribers W0 (fun _ _ => None) (sys_final W0 hashable0 sys_ex_ops) 1 [(1, 0)] 2) = [mkV 4 4; mkV 3 3] /\
  sys_queryUtility W0 (sys_final W0 hashable0 (sys_ex_ops ++ [SSetBases 1 []])) 1 3 0 = None.
Proof. vm_compute. repeat split. Qed.

(* the repair on a tampered state: the utilities registry of the example state emptied behind the
   object's back is rebuilt from the two listed utilities *)
Example C16_ex_repair :
  let st := with_utils (final W0 hashable0 ex_ops) empty_reg in
  NoDup (map fst (c_ureg st)) /\ probe st = (2, 0, 2, 0) /\
  snd (rebuildUtilityRegistry W0 true st) = (2, 0, 1, 1) /\
  probe (fst (rebuildUtilityRegistry W0 true st)) = (0, 2, 0, 2).
Proof. vm_compute. repeat split; repeat constructor; cbn; intuition discriminate. Qed.
