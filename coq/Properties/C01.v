(* Property C01 — providedBy / implementedBy report exactly the declared and inherited
   interfaces.  Only statements here; proofs are in Proofs/Decl.v.

   [run true g ops]  the model of declarations.py (Model/Decl.v, cache eviction on = current code)
                     after the history [ops] over the interface DAG [g];
   [run false g ops] the same model without Provides.changed (the code before the fix);
   [lrun g ops]      the abstract ledger of Spec/Provided.v after the same history.
   Histories are arbitrary lists of class creation (multiple inheritance), instance creation,
   instance drops and the nine declaration calls on classes, instances and class objects. *)
From Coq Require Import List Arith Bool.
Import ListNotations.
From ZI Require Import Lib.Util Model.Decl Spec.Provided Proofs.Decl.

(* The central statement: after every history, for every instance / class object t and every
   class c, what the model answers to providedBy(t) and implementedBy(c) lies between the two
   bounds of the ledger: everything declared and not redundant when declared (plus what is
   inherited, plus what those extend) is reported, and nothing is reported that was not asked
   for or inherited.  Inheritance stops at a class declared with an *only* form
   (lc_inherit = false in impl_lo / impl_hi). *)
Theorem C01_provided_within_ledger : forall g ops,
  (forall t, incl (lo_provided g (lrun g ops) t) (provided g (run true g ops) t) /\
             incl (provided g (run true g ops) t) (hi_provided g (lrun g ops) t)) /\
  (forall c, incl (lo_implemented g (lrun g ops) c) (implemented g (run true g ops) c) /\
             incl (implemented g (run true g ops) c) (hi_implemented g (lrun g ops) c)).
Proof. exact provided_within_ledger_lemma. Qed.
Print Assumptions C01_provided_within_ledger.

(* Sharper: the model drops exactly the declarations that are redundant when made — its
   answers (and directlyProvidedBy) are, as sets, the ledger's lower bound. *)
Theorem C01_model_is_lower_bound : forall g ops,
  (forall t x, In x (provided g (run true g ops) t) <-> In x (lo_provided g (lrun g ops) t)) /\
  (forall c x, In x (implemented g (run true g ops) c) <-> In x (lo_implemented g (lrun g ops) c)) /\
  (forall t x, In x (dpb (run true g ops) t) <-> In x (lo_dpb (lrun g ops) t)).
Proof. exact model_is_lower_bound_lemma. Qed.
Print Assumptions C01_model_is_lower_bound.

(* I.providedBy(t) / I.implementedBy(c) agree with membership in the flattened answers,
   in every state *)
Theorem C01_I_providedBy_iff : forall g st,
  (forall t i, i_providedBy g st t i = true <-> In i (provided g st t)) /\
  (forall c i, i_implementedBy g st c i = true <-> In i (implemented g st c)).
Proof. exact I_providedBy_iff_lemma. Qed.
Print Assumptions C01_I_providedBy_iff.

(* One declaration call changes only what it may change.  A class-level call on c leaves
   implementedBy(d) and the instances of d alone unless d is c or currently inherits from c
   ([depends]); it never touches what class objects provide.  An object-level call on t leaves
   every implementedBy and every other instance / class object alone.  (Either cache flavour.) *)
Theorem C01_non_interference : forall ev g st o,
  (forall c, decl_class o = Some c ->
     (forall d, depends st d c = false -> implemented g (step ev g st o) d = implemented g st d) /\
     (forall o' r, nth_error (insts st) o' = Some r -> depends st (i_cls r) c = false ->
        provided g (step ev g st o) (TInst o') = provided g st (TInst o') /\
        dpb (step ev g st o) (TInst o') = dpb st (TInst o')) /\
     (forall c', provided g (step ev g st o) (TCls c') = provided g st (TCls c') /\
                 dpb (step ev g st o) (TCls c') = dpb st (TCls c'))) /\
  (forall t, decl_target o = Some t ->
     (forall d, implemented g (step ev g st o) d = implemented g st d) /\
     (forall t', t' <> t -> provided g (step ev g st o) t' = provided g st t' /\
                            dpb (step ev g st o) t' = dpb st t')).
Proof. exact non_interference_lemma. Qed.
Print Assumptions C01_non_interference.

(* The shared cache is invisible: deleting from a history every declaration call made on
   OTHER instances changes nothing in what instance o provides, now or later.  This is the
   statement that needs Provides.changed (it is refuted below for the model without it). *)
Theorem C01_history_non_interference : forall g ops o,
  let ops' := filter (fun p => negb (other_inst_decl o p)) ops in
  (forall x, In x (provided g (run true g ops) (TInst o)) <-> In x (provided g (run true g ops') (TInst o))) /\
  (forall x, In x (dpb (run true g ops) (TInst o)) <-> In x (dpb (run true g ops') (TInst o))).
Proof. exact history_non_interference_lemma. Qed.
Print Assumptions C01_history_non_interference.

(* the invariant behind it: every specification in InstanceDeclarations is what
   Provides(cls, *args) would build now *)
Theorem C01_cache_entries_fresh : forall g ops d args k,
  In ((d, args), k) (cache (run true g ops)) -> k = keepnew (cflat g (run true g ops) d) args.
Proof. exact cache_entries_fresh_lemma. Qed.
Print Assumptions C01_cache_entries_fresh.

(* Without the eviction the three statements above fail on the 5-call history of finding F1:
   the lower bound is missed (directlyProvides(b, I0) leaves I0 unreported), the answer depends
   on a declaration made on another instance, and the cache holds a stale specification. *)
Theorem C01_stale_cache_refuted_without_eviction :
  exists g ops o,
    ~ incl (lo_provided g (lrun g ops) (TInst o)) (provided g (run false g ops) (TInst o)) /\
    ~ (forall x, In x (provided g (run false g ops) (TInst o)) <->
                 In x (provided g (run false g (filter (fun p => negb (other_inst_decl o p)) ops)) (TInst o))) /\
    (exists k, In ((0, [0]), k) (cache (run false g ops)) /\
               k <> keepnew (cflat g (run false g ops) 0) [0]).
Proof. exact stale_cache_refuted_lemma. Qed.
Print Assumptions C01_stale_cache_refuted_without_eviction.

(* A class's own __provides__ never shows up on its instances (nor in implementedBy), and an
   instance's never on a class object. *)
Theorem C01_class_instance_no_leak : forall ev g st o,
  (forall c, decl_target o = Some (TCls c) ->
     (forall d, implemented g (step ev g st o) d = implemented g st d) /\
     (forall o', provided g (step ev g st o) (TInst o') = provided g st (TInst o') /\
                 dpb (step ev g st o) (TInst o') = dpb st (TInst o'))) /\
  (forall o1, decl_target o = Some (TInst o1) ->
     forall c, provided g (step ev g st o) (TCls c) = provided g st (TCls c) /\
               dpb (step ev g st o) (TCls c) = dpb st (TCls c)).
Proof. exact class_instance_no_leak_lemma. Qed.
Print Assumptions C01_class_instance_no_leak.

(* noLongerProvides raises exactly when the interface is still provided afterwards *)
Theorem C01_noLongerProvides_raises_iff : forall ev g st t x,
  raises g (step ev g st (NoLongerProvides t x)) (NoLongerProvides t x) = true <->
  In x (provided g (step ev g st (NoLongerProvides t x)) t).
Proof. exact raises_iff_lemma. Qed.
Print Assumptions C01_noLongerProvides_raises_iff.

(* "plus everything those interfaces extend": the closure used on both sides is reachability
   in the interface DAG *)
Theorem C01_closure_is_reachability : forall g, wf_igraph g -> forall x y,
  In y (ups g x) <-> Reach g x y.
Proof. exact ups_iff_reach. Qed.
Print Assumptions C01_closure_is_reachability.

(* "declared on its class or inherited from the class's bases, stopping at *only*": the
   ledger's impl sets are the inheritance relation [Impl] (no fuel artefact) *)
Theorem C01_ledger_impl_is_inheritance : forall g ops c x,
  (In x (impl_lo (lrun g ops) c) <-> Impl lc_kept (lcs (lrun g ops)) c x) /\
  (In x (impl_hi (lrun g ops) c) <-> Impl lc_asked (lcs (lrun g ops)) c x).
Proof. exact ledger_impl_is_inheritance_lemma. Qed.
Print Assumptions C01_ledger_impl_is_inheritance.

(* ---- non-vacuity.  I1 extends I0; I2 alone.  C2(C0, C1): multiple inheritance. *)
Definition ex_g : igraph := [[]; [0]; []].
Definition ex_ops : list op :=
  [NewClass []; Implementer 0 [1]; NewClass []; NewClass [0; 1]; NewInstance 2;
   DirectlyProvides (TInst 0) [0; 2];      (* I0 is redundant (C2 inherits I1 from C0): dropped *)
   ClassImplementsOnly 0 [2];              (* the base is narrowed: the shared declaration is evicted *)
   NewInstance 2; DirectlyProvides (TInst 1) [0; 2];  (* same arguments: now I0 is kept, I2 dropped *)
   NewInstance 1; Provider (TCls 1) [1]; AlsoProvides (TInst 2) [1]; NoLongerProvides (TInst 2) 1].

Example C01_witness :
  wf_igraph ex_g /\
  let st := run true ex_g ex_ops in
  provided ex_g st (TInst 0) = [2; 2] /\     (* asked I0, I2; I0 redundant when made, lost with the base *)
  provided ex_g st (TInst 1) = [0; 2] /\
  lo_provided ex_g (lrun ex_g ex_ops) (TInst 0) = [2; 2] /\
  hi_provided ex_g (lrun ex_g ex_ops) (TInst 0) = [0; 2; 2] /\
  implemented ex_g st 2 = [2] /\ implemented ex_g st 1 = [] /\
  provided ex_g st (TCls 1) = [1; 0] /\ provided ex_g st (TInst 2) = [] /\
  depends st 2 0 = true /\ depends st 1 0 = false /\
  cache st <> [] /\
  filter (fun p => negb (other_inst_decl 1 p)) ex_ops <> ex_ops /\
  raises ex_g (run true ex_g (firstn 12 ex_ops ++ [NoLongerProvides (TInst 1) 0]))
         (NoLongerProvides (TInst 1) 0) = false /\
  raises ex_g (run true ex_g (firstn 12 ex_ops ++ [NoLongerProvides (TInst 1) 2]))
         (NoLongerProvides (TInst 1) 2) = true.
Proof.
  split; [apply wf_igraphb_ok; reflexivity|].
  vm_compute. repeat split; try reflexivity; discriminate.
Qed.
