(* Property C01 — providedBy / implementedBy report exactly the declared and inherited
   interfaces.  Only statements here; proofs are in Proofs/Decl.v.

   [run true g ops]  the model of declarations.py (Model/Decl.v, cache eviction on = current code)
                     after the history [ops] over the interface DAG [g];
   [run false g ops] the same model without Provides.changed (the code before the fix);
   [lrun g ops]      the abstract ledger of Spec/Provided.v after the same history.
   Histories are arbitrary lists of class creation (multiple inheritance), instance creation,
   instance drops and the nine declaration calls on classes, instances and class objects. *)
From Coq Require Import List Arith Bool.
Import ListNotations.
From ZI Require Import Lib.Util Model.Decl Spec.Provided Proofs.Decl.
From ZI Require Import Model.DeclKernelPrims Gen.DeclKernel Proofs.DeclKernel.
From ZI Require Import Model.DeclLazy Proofs.DeclLazy.

(* The central statement: after every history, for every instance / class object t and every
   class c, what the model answers to providedBy(t) and implementedBy(c) lies between the two
   bounds of the ledger: everything declared and not redundant when declared (plus what is
   inherited, plus what those extend) is reported, and nothing is reported that was not asked
   for or inherited.  Inheritance stops at a class declared with an *only* form
   (lc_inherit = false in impl_lo / impl_hi). *)
Theorem C01_provided_within_ledger : forall g ops,
  (forall t, incl (lo_provided g (lrun g ops) t) (provided g (run true g ops) t) /\
             incl (provided g (run true g ops) t) (hi_provided g (lrun g ops) t)) /\
  (forall c, incl (lo_implemented g (lrun g ops) c) (implemented g (run true g ops) c) /\
             incl (implemented g (run true g ops) c) (hi_implemented g (lrun g ops) c)).
Proof. exact provided_within_ledger_lemma. Qed.
Print Assumptions C01_provided_within_ledger.

(* Sharper: the model drops exactly the declarations that are redundant when made — its
   answers (and directlyProvidedBy) are, as sets, the ledger's lower bound. *)
Theorem C01_model_is_lower_bound : forall g ops,
  (forall t x, In x (provided g (run true g ops) t) <-> In x (lo_provided g (lrun g ops) t)) /\
  (forall c x, In x (implemented g (run true g ops) c) <-> In x (lo_implemented g (lrun g ops) c)) /\
  (forall t x, In x (dpb (run true g ops) t) <-> In x (lo_dpb (lrun g ops) t)).
Proof. exact model_is_lower_bound_lemma. Qed.
Print Assumptions C01_model_is_lower_bound.

(* I.providedBy(t) / I.implementedBy(c) agree with membership in the flattened answers, in
   every state (interface 0, ``Interface`` itself, is implied by every specification: the model's
   flattened lists leave it implicit when nothing is declared) *)
Theorem C01_I_providedBy_iff : forall g st,
  (forall t i, i_providedBy g st t i = true <-> i = 0 \/ In i (provided g st t)) /\
  (forall c i, i_implementedBy g st c i = true <-> i = 0 \/ In i (implemented g st c)).
Proof. exact I_providedBy_iff_lemma. Qed.
Print Assumptions C01_I_providedBy_iff.

(* One declaration call changes only what it may change.  A class-level call on c leaves
   implementedBy(d) and the instances of d alone unless d is c or currently inherits from c
   ([depends]); it never touches what class objects provide.  An object-level call on t leaves
   every implementedBy and every other instance / class object alone.  (Either cache flavour.) *)
Theorem C01_non_interference : forall ev g st o,
  (forall c, decl_class o = Some c ->
     (forall d, depends st d c = false -> implemented g (step ev g st o) d = implemented g st d) /\
     (forall o' r, nth_error (insts st) o' = Some r -> depends st (i_cls r) c = false ->
        provided g (step ev g st o) (TInst o') = provided g st (TInst o') /\
        dpb (step ev g st o) (TInst o') = dpb st (TInst o')) /\
     (forall c', provided g (step ev g st o) (TCls c') = provided g st (TCls c') /\
                 dpb (step ev g st o) (TCls c') = dpb st (TCls c'))) /\
  (forall t, decl_target o = Some t ->
     (forall d, implemented g (step ev g st o) d = implemented g st d) /\
     (forall t', t' <> t -> provided g (step ev g st o) t' = provided g st t' /\
                            dpb (step ev g st o) t' = dpb st t')).
Proof. exact non_interference_lemma. Qed.
Print Assumptions C01_non_interference.

(* The shared cache is invisible: deleting from a history every declaration call made on
   OTHER instances changes nothing in what instance o provides, now or later.  This is the
   statement that needs Provides.changed (it is refuted below for the model without it). *)
Theorem C01_history_non_interference : forall g ops o,
  (* the calls that stay do not take declaration objects of OTHER instances as arguments *)
  forallb (fun p => other_inst_decl o p || op_local o p) ops = true ->
  let ops' := filter (fun p => negb (other_inst_decl o p)) ops in
  (forall x, In x (provided g (run true g ops) (TInst o)) <-> In x (provided g (run true g ops') (TInst o))) /\
  (forall x, In x (dpb (run true g ops) (TInst o)) <-> In x (dpb (run true g ops') (TInst o))).
Proof. exact history_non_interference_lemma. Qed.
Print Assumptions C01_history_non_interference.

(* the invariant behind it: every specification in InstanceDeclarations is what
   Provides(cls, *args) would build now *)
Theorem C01_cache_entries_fresh : forall g ops d args k,
  In ((d, args), k) (cache (run true g ops)) -> k = keepnew (cflat g (run true g ops) d) args.
Proof. exact cache_entries_fresh_lemma. Qed.
Print Assumptions C01_cache_entries_fresh.

(* Without the eviction the three statements above fail on the 5-call history of finding F1:
   the lower bound is missed (directlyProvides(b, I0) leaves I0 unreported), the answer depends
   on a declaration made on another instance, and the cache holds a stale specification. *)
Theorem C01_stale_cache_refuted_without_eviction :
  exists g ops o,
    ~ incl (lo_provided g (lrun g ops) (TInst o)) (provided g (run false g ops) (TInst o)) /\
    ~ (forall x, In x (provided g (run false g ops) (TInst o)) <->
                 In x (provided g (run false g (filter (fun p => negb (other_inst_decl o p)) ops)) (TInst o))) /\
    (exists k, In ((0, [1]), k) (cache (run false g ops)) /\
               k <> keepnew (cflat g (run false g ops) 0) [1]).
Proof. exact stale_cache_refuted_lemma. Qed.
Print Assumptions C01_stale_cache_refuted_without_eviction.

(* A class's own __provides__ never shows up on its instances (nor in implementedBy), and an
   instance's never on a class object. *)
Theorem C01_class_instance_no_leak : forall ev g st o,
  (forall c, decl_target o = Some (TCls c) ->
     (forall d, implemented g (step ev g st o) d = implemented g st d) /\
     (forall o', provided g (step ev g st o) (TInst o') = provided g st (TInst o') /\
                 dpb (step ev g st o) (TInst o') = dpb st (TInst o'))) /\
  (forall o1, decl_target o = Some (TInst o1) ->
     forall c, provided g (step ev g st o) (TCls c) = provided g st (TCls c) /\
               dpb (step ev g st o) (TCls c) = dpb st (TCls c)).
Proof. exact class_instance_no_leak_lemma. Qed.
Print Assumptions C01_class_instance_no_leak.

(* noLongerProvides raises exactly when the interface is still provided afterwards *)
Theorem C01_noLongerProvides_raises_iff : forall ev g st t x,
  raises g (step ev g st (NoLongerProvides t x)) (NoLongerProvides t x) = true <->
  x = 0 \/ In x (provided g (step ev g st (NoLongerProvides t x)) t).
Proof. exact raises_iff_lemma. Qed.
Print Assumptions C01_noLongerProvides_raises_iff.

(* "plus everything those interfaces extend": the closure used on both sides is reachability
   in the interface DAG *)
Theorem C01_closure_is_reachability : forall g, wf_igraph g -> forall x y,
  In y (ups g x) <-> Reach g x y.
Proof. exact ups_iff_reach. Qed.
Print Assumptions C01_closure_is_reachability.

(* "declared on its class or inherited from the class's bases, stopping at *only*": the
   ledger's impl sets are the inheritance relation [Impl] (no fuel artefact) *)
Theorem C01_ledger_impl_is_inheritance : forall g ops c x,
  (In x (impl_lo (lrun g ops) c) <-> Impl lc_kept (lcs (lrun g ops)) c x) /\
  (In x (impl_hi (lrun g ops) c) <-> Impl lc_asked (lcs (lrun g ops)) c x).
Proof. exact ledger_impl_is_inheritance_lemma. Qed.
Print Assumptions C01_ledger_impl_is_inheritance.

(* super proxies: providedBy / implementedBy(super(B, x)) report what the classes after B in the
   MRO of type(x) implement — between the ledger's bounds for exactly those classes, whatever
   was asked before for other classes that share B *)
Theorem C01_super_within_ledger : forall g ops rest,
  incl (flat_map (lo_implemented g (lrun g ops)) rest) (super_implemented g (run true g ops) rest) /\
  incl (super_implemented g (run true g ops) rest) (flat_map (hi_implemented g (lrun g ops)) rest).
Proof. exact super_within_ledger_lemma. Qed.
Print Assumptions C01_super_within_ledger.

(* ---- The tie to the source TEXT.  Gen/DeclKernel.v is regenerated on every run from
   /repo/src/zope/interface/declarations.py by harness/translate/decl.py (fail closed); its
   functions gen_* are statement-by-statement translations over the primitives of
   Model/DeclKernelPrims.v.  Each equals the corresponding definition of Model/Decl.v (the
   object of the theorems above, eviction on) on every embedded state [embed st]. *)

(* Declaration._add_interfaces_to_cls = the strip [keepnew] + the class specification *)
Theorem C01_generated_add_interfaces_to_cls_eq_model : forall g st x l d,
  gen_add_interfaces_to_cls g (embed_exc st x) (map NI l) (RClass d) =
  map NI (keepnew (cflat g st d) l) ++ [NC d].
Proof. exact generated_add_interfaces_to_cls_eq. Qed.
Print Assumptions C01_generated_add_interfaces_to_cls_eq_model.

(* Provides.changed: nothing when the change originated at the specification itself, otherwise
   the specification leaves InstanceDeclarations if it is the cached one *)
Theorem C01_generated_Provides_changed_eq_model : forall g s self o,
  gen_Provides_changed g s self o =
  if p_origin_is o self then s
  else if p_opt_is (p_cache_get s (fst self)) self then p_cache_del s (fst self) else s.
Proof. exact generated_Provides_changed_eq. Qed.
Print Assumptions C01_generated_Provides_changed_eq_model.

(* _classImplements_ordered: elision, dedupe, bases = declared + the bases' specifications (the
   stored __bases__ of the result are [spec_bases] of the model's record: [embed]), and the
   notification through Provides.changed is the model's eviction *)
Theorem C01_generated_classImplements_ordered_eq_model : forall g st x c b a,
  NoDup (map fst (cache st)) ->
  gen_classImplements_ordered g (embed_exc st x) (NC c) (map NI b) (map NI a) =
  embed_exc (class_ordered true g st c b a) x.
Proof. exact generated_classImplements_ordered_eq. Qed.
Print Assumptions C01_generated_classImplements_ordered_eq_model.

Theorem C01_generated_classImplements_eq_model : forall g st x c l,
  NoDup (map fst (cache st)) ->
  (* no Declaration object sits un-normalised in ``declared`` (the *only* forms can put one there) *)
  (forall r, nth_error (classes st) c = Some r -> c_plain r = c_decl r) ->
  gen_classImplements g (embed_exc st x) (RClass c) (map NI l) = embed_exc (class_implements true g st c l) x.
Proof. exact generated_classImplements_eq. Qed.
Print Assumptions C01_generated_classImplements_eq_model.

Theorem C01_generated_classImplementsOnly_eq_model : forall g st x c l pl,
  NoDup (map fst (cache st)) ->
  gen_classImplementsOnly g (embed_exc st x) (RClass c) (map NI l) = embed_exc (class_only true g st c l pl) x.
Proof. exact generated_classImplementsOnly_eq. Qed.
Print Assumptions C01_generated_classImplementsOnly_eq_model.

Theorem C01_generated_classImplementsFirst_eq_model : forall g st x c i,
  NoDup (map fst (cache st)) ->
  gen_classImplementsFirst g (embed_exc st x) (RClass c) (NI i) = embed_exc (class_ordered true g st c [i] []) x.
Proof. exact generated_classImplementsFirst_eq. Qed.
Print Assumptions C01_generated_classImplementsFirst_eq_model.

(* implementedBy(): the ClassProvides installed on a new class names its metaclass, so that
   computing implementedBy(cls) does not change what the class object provides *)
Theorem C01_generated_implementedBy_class_provides_eq_model : forall g st x c r,
  nth_error (classes st) c = Some r -> c_cprov r = [] ->
  gen_implementedBy_class_provides g (embed_exc st x) (TCls c) = embed_exc st x.
Proof. exact generated_implementedBy_class_provides_eq. Qed.
Print Assumptions C01_generated_implementedBy_class_provides_eq_model.

(* the Provides factory: cache hit or construction + store *)
Theorem C01_generated_Provides_eq_model : forall g st x d args st1 k,
  provides g st d args = (st1, k) ->
  gen_Provides g (embed_exc st x) (RClass d, map NI args) =
  (embed_exc st1 x, ((RClass d, map NI args), map NI k ++ [NC d])).
Proof. exact generated_Provides_eq. Qed.
Print Assumptions C01_generated_Provides_eq_model.

Theorem C01_generated_directlyProvidedBy_eq_model : forall g st x t,
  gen_directlyProvidedBy g (embed_exc st x) t = map NI (dpb_raw st t) /\
  p_decl_interfaces (gen_directlyProvidedBy g (embed_exc st x) t) = map NI (dpb st t).
Proof. exact generated_directlyProvidedBy_both. Qed.
Print Assumptions C01_generated_directlyProvidedBy_eq_model.

(* directlyProvides, instance branch (through the factory) and class branch (ClassProvides) *)
Theorem C01_generated_directlyProvides_eq_model : forall g st x t l,
  target_live st t ->
  gen_directlyProvides g (embed_exc st x) t (map NI l) = embed_exc (directly g st t l) x.
Proof. exact generated_directlyProvides_eq. Qed.
Print Assumptions C01_generated_directlyProvides_eq_model.

Theorem C01_generated_alsoProvides_eq_model : forall g st x t l,
  target_live st t ->
  gen_alsoProvides g (embed_exc st x) t (map NI l) = embed_exc (directly g st t (dpb st t ++ l)) x.
Proof. exact generated_alsoProvides_eq. Qed.
Print Assumptions C01_generated_alsoProvides_eq_model.

(* noLongerProvides, including the ValueError test *)
Theorem C01_generated_noLongerProvides_eq_model : forall g st t i,
  target_live st t ->
  let st' := directly g st t (filter (fun y => negb (ext g y i)) (dpb st t)) in
  gen_noLongerProvides g (embed st) t (NI i) =
  embed_exc st' (if raises g st' (NoLongerProvides t i) then Some exc_ValueError else None).
Proof. exact generated_noLongerProvides_eq. Qed.
Print Assumptions C01_generated_noLongerProvides_eq_model.

(* every declaration step of a history, through the generated kernel, is the model's step;
   its hypothesis about the cache holds in every reachable state *)
Theorem C01_generated_step_eq_model : forall g st o,
  NoDup (map fst (cache st)) ->
  (decl_class o <> None \/ decl_target o <> None) ->
  (forall t, decl_target o = Some t -> target_live st t) ->
  (forall c r, decl_class o = Some c -> nth_error (classes st) c = Some r -> c_plain r = c_decl r) ->
  gen_step g (embed st) o (nargs st (op_args o)) =
  embed_exc (step true g st o) (if raises g (step true g st o) o then Some exc_ValueError else None).
Proof. exact generated_step_eq_spelled. Qed.
Print Assumptions C01_generated_step_eq_model.

Theorem C01_generated_cache_keys_unique : forall ev g ops, NoDup (map fst (cache (run ev g ops))).
Proof. exact cku_run. Qed.
Print Assumptions C01_generated_cache_keys_unique.

(* ---- Lazy creation of class specifications (Model/DeclLazy.v: implementedBy creates a
   specification on first demand, from its bases' specifications, recursively).  Histories
   [qs] interleave the declaration / creation steps with queries (implementedBy(c),
   providedBy(t), directlyProvidedBy(t)) in any order; [ops_of qs] forgets the queries. *)

(* "in any order relative to subclass creation, instance creation and earlier queries": every
   answer of the lazy model, after any history with any queries anywhere in it, is the answer
   of the model of the theorems above after the same history without the queries *)
Theorem C01_lazy_answers_eq_eager : forall g qs,
  let z := zrun g qs in
  let st := run true g (ops_of qs) in
  (forall c, snd (zq_implemented g z c) = implemented g st c) /\
  (forall c i, snd (zq_i_implementedBy g z c i) = i_implementedBy g st c i) /\
  (forall t, snd (zq_provided g z t) = provided g st t) /\
  (forall t, zq_dpb z t = dpb st t).
Proof. exact lazy_answers_eq_eager. Qed.
Print Assumptions C01_lazy_answers_eq_eager.

(* hence the ledger sandwich for the lazy model, whatever was queried before *)
Theorem C01_lazy_provided_within_ledger : forall g qs,
  let z := zrun g qs in
  let L := lrun g (ops_of qs) in
  (forall t, incl (lo_provided g L t) (snd (zq_provided g z t)) /\ incl (snd (zq_provided g z t)) (hi_provided g L t)) /\
  (forall c, incl (lo_implemented g L c) (snd (zq_implemented g z c)) /\
             incl (snd (zq_implemented g z c)) (hi_implemented g L c)).
Proof. exact lazy_provided_within_ledger. Qed.
Print Assumptions C01_lazy_provided_within_ledger.

(* why: a class whose specification does not exist yet holds exactly what the specification
   will contain when implementedBy creates it (declared = () and inherit, or the interfaces of
   an old-style __implemented__ attribute and inherit = None; every call that changes a
   specification creates it first); an existing specification that inherits points only to
   existing ones; an instance with its own
   __provides__ has a class specification *)
Theorem C01_lazy_invariant : forall g qs,
  let z := zrun g qs in
  (forall c r, nth_error (classes (fst z)) c = Some r -> zcreated (snd z) c = false ->
     (c_inherit r = true -> c_decl r = []) /\ c_cprov r = []) /\
  (forall c r b, zcreated (snd z) c = true -> nth_error (classes (fst z)) c = Some r -> c_inherit r = true ->
     In b (c_bases r) -> zcreated (snd z) b = true) /\
  (forall o r k, nth_error (insts (fst z)) o = Some r -> i_prov r = Some k -> zcreated (snd z) (i_cls r) = true).
Proof. exact lazy_invariant. Qed.
Print Assumptions C01_lazy_invariant.

(* implementedBy itself, as translated from the source text (the path for a class whose
   __dict__ can be read: dict lookup, isinstance Implements, the builtin table, creation from
   [implementedBy(b) for b in cls.__bases__], the store with its ``except TypeError`` branch for
   immutable types, installation of __provides__): on every reachable lazy state it returns the
   class's specification and changes the state exactly as [zensure] of Model/DeclLazy.v does *)
Theorem C01_generated_implementedBy_eq_model : forall g qs x c,
  let z := zrun g qs in
  c < length (classes (fst z)) ->
  gen_implementedBy (S c) g (zembed z x) (RClass c) = (zembed (zensure z c) x, NC c).
Proof. exact generated_implementedBy_eq_lazy. Qed.
Print Assumptions C01_generated_implementedBy_eq_model.

(* ---- non-vacuity.  I0 is zope.interface.Interface; I2 extends I1; I3 alone.  C2(C0, C1):
   multiple inheritance; C1 has a custom metaclass that implements I2. *)
Definition ex_g : igraph := [[]; [0]; [1]; [0]].
Definition ex_ops : list op :=
  [NewClass [] None false None; Implementer 0 [AI 2]; NewClass [] (Some [2]) false None; NewClass [0; 1] None false None; NewInstance 2;
   DirectlyProvides (TInst 0) [AI 1; AI 3];      (* I1 is redundant (C2 inherits I2 from C0): dropped *)
   ClassImplementsOnly 0 [AI 3];              (* the base is narrowed: the shared declaration is evicted *)
   NewInstance 2; DirectlyProvides (TInst 1) [AI 1; AI 3];  (* same arguments: now I1 is kept, I3 dropped *)
   NewInstance 1; Provider (TCls 1) [AI 1; AI 3]; AlsoProvides (TInst 2) [AI 2]; NoLongerProvides (TInst 2) 2].

Example C01_witness :
  wf_igraph ex_g /\
  let st := run true ex_g ex_ops in
  provided ex_g st (TInst 0) = [3; 0; 3; 0] /\     (* asked I1, I3; I1 redundant when made, lost with the base *)
  provided ex_g st (TInst 1) = [1; 0; 3; 0] /\
  lo_provided ex_g (lrun ex_g ex_ops) (TInst 0) = [3; 0; 3; 0] /\
  hi_provided ex_g (lrun ex_g ex_ops) (TInst 0) = [1; 0; 3; 0; 3; 0] /\
  implemented ex_g st 2 = [3; 0] /\ implemented ex_g st 1 = [] /\
  (* C1's metaclass implements I2: I1 asked on the class object is redundant, I3 is kept *)
  provided ex_g st (TCls 1) = [3; 0; 2; 1; 0] /\ dpb st (TCls 1) = [3] /\ provided ex_g st (TInst 2) = [] /\
  depends st 2 0 = true /\ depends st 1 0 = false /\
  cache st <> [] /\
  filter (fun p => negb (other_inst_decl 1 p)) ex_ops <> ex_ops /\
  raises ex_g (run true ex_g (firstn 12 ex_ops ++ [NoLongerProvides (TInst 1) 1]))
         (NoLongerProvides (TInst 1) 1) = false /\
  raises ex_g (run true ex_g (firstn 12 ex_ops ++ [NoLongerProvides (TInst 1) 3]))
         (NoLongerProvides (TInst 1) 3) = true.
Proof.
  split; [apply wf_igraphb_ok; reflexivity|].
  vm_compute. repeat split; try reflexivity; discriminate.
Qed.

(* lazy creation: C0 <- C1 <- C2, declarations on the base before the subclasses exist, no
   query until an instance of C2 is asked: implementedBy(C2) then creates C2, C1 (C0 exists since
   it was declared on); C3 stays without specification. *)
Definition lazy_qs : list zop :=
  [ZOp (NewClass [] None false None); ZOp (Implementer 0 [AI 2]); ZOp (NewClass [0] None false None);
   ZOp (NewClass [1] None false None); ZOp (NewClass [] None false None); ZOp (NewInstance 2);
   ZQProvidedBy (TCls 2); ZQDirectlyProvidedBy (TInst 0)].

Example C01_lazy_witness :
  snd (zrun ex_g lazy_qs) = [true; false; false; false] /\
  snd (zq_provided ex_g (zrun ex_g lazy_qs) (TInst 0)) = [2; 1; 0] /\
  snd (fst (zq_provided ex_g (zrun ex_g lazy_qs) (TInst 0))) = [true; true; true; false] /\
  snd (zrun ex_g (lazy_qs ++ [ZOp (ClassImplementsOnly 1 [AI 3]); ZQImplementedBy 2])) = [true; true; true; false] /\
  snd (zq_implemented ex_g (zrun ex_g (lazy_qs ++ [ZOp (ClassImplementsOnly 1 [AI 3])])) 2) = [3; 0].
Proof. vm_compute. repeat split; reflexivity. Qed.

(* a built-in type and an instance of it: declarations on the class work (through
   BuiltinImplementationSpecifications), object-level declarations raise and change nothing *)
Example C01_builtin_witness :
  let ops := [NewClass [] None true None; NewInstance 0; Implementer 0 [AI 2]] in
  let st := run true ex_g ops in
  provided ex_g st (TInst 0) = [2; 1; 0] /\
  exc_code ex_g st (step true ex_g st (DirectlyProvides (TInst 0) [AI 3])) (DirectlyProvides (TInst 0) [AI 3]) = 3 /\
  exc_code ex_g st (step true ex_g st (AlsoProvides (TCls 0) [AI 3])) (AlsoProvides (TCls 0) [AI 3]) = 2 /\
  step true ex_g st (DirectlyProvides (TInst 0) [AI 3]) = st /\ step true ex_g st (AlsoProvides (TCls 0) [AI 3]) = st.
Proof. vm_compute. repeat split; reflexivity. Qed.

(* declaration OBJECTS as arguments: alsoProvides(o1, directlyProvidedBy(o0), I1) and
   classImplements(C1, providedBy(o0)) expand, at the moment of the call, into the interfaces the
   object names; later changes of o0 do not follow *)
Example C01_argument_objects_witness :
  let ops := [NewClass [] None false None; Implementer 0 [AI 1]; NewInstance 0; NewInstance 0; NewClass [] None false None;
              DirectlyProvides (TInst 0) [AI 2; AI 3];                       (* I2 kept (extends I1), I3 kept *)
              AlsoProvides (TInst 1) [ADirectlyProvidedBy (TInst 0); AI 1];  (* I2, I3 and the redundant I1 *)
              ClassImplements 1 [AProvidedBy (TInst 0)];                    (* I2, I3 and C0's I1 *)
              DirectlyProvides (TInst 0) []] in
  let st := run true ex_g ops in
  dpb st (TInst 1) = [2; 3] /\ implemented ex_g st 1 = [2; 1; 0; 3; 0; 1; 0] /\ dpb st (TInst 0) = [] /\
  nargs (run true ex_g (firstn 6 ops)) [AProvidedBy (TInst 0); ADirectlyProvidedBy (TInst 1)] = [2; 3; 1].
Proof. vm_compute. repeat split; reflexivity. Qed.

(* old-style ``__implemented__ = I2`` class attribute on C1(C0): the first implementedBy makes it
   declared = [I2], inherit = None — C0's I3 is not inherited — and the usual calls then apply:
   classImplements adds to it, a new-style subclass inherits it *)
Example C01_oldstyle_witness :
  let ops := [NewClass [] None false None; Implementer 0 [AI 3];
              NewClass [0] None false (Some [2]); NewClass [1] None false None; NewInstance 1] in
  let st := run true ex_g ops in
  implemented ex_g st 1 = [2; 1; 0] /\ implemented ex_g st 2 = [2; 1; 0] /\ provided ex_g st (TInst 0) = [2; 1; 0] /\
  implemented ex_g (step true ex_g st (ClassImplements 1 [AI 3])) 1 = [2; 1; 0; 3; 0] /\
  implemented ex_g (step true ex_g st (ClassImplementsOnly 1 [AI 3])) 2 = [3; 0] /\
  snd (zrun ex_g (map ZOp ops ++ [ZQImplementedBy 1])) = [true; true; false] /\
  snd (zrun ex_g (map ZOp ops ++ [ZQProvidedBy (TInst 0)])) = [true; true; false].
Proof. vm_compute. repeat split; reflexivity. Qed.

(* ``Interface`` itself (interface 0) as a declared interface: on a class it is recorded only
   while nothing else is declared (also by the *only* forms, which start from nothing); on an
   instance it is always redundant; noLongerProvides(ob, Interface) withdraws every direct
   declaration (they all extend it) and then raises, since Interface is still provided *)
Example C01_Interface_declared_witness :
  let ops := [NewClass [] None false None; ClassImplements 0 [AI 0]; NewClass [] None false None;
              ClassImplements 1 [AI 3]; ClassImplements 1 [AI 0];
              NewInstance 0; DirectlyProvides (TInst 0) [AI 0; AI 2]; ClassImplementsOnly 1 [AI 0; AI 3; AI 0]] in
  let st := run true ex_g ops in
  map c_decl (classes st) = [[0]; [0; 3]] /\ dpb st (TInst 0) = [2] /\
  dpb (step true ex_g st (NoLongerProvides (TInst 0) 0)) (TInst 0) = [] /\
  raises ex_g (step true ex_g st (NoLongerProvides (TInst 0) 0)) (NoLongerProvides (TInst 0) 0) = true.
Proof. vm_compute. repeat split; reflexivity. Qed.
