(* placeholder, replaced below *)
From ZI Require Import Model.Decl Spec.Provided.
