(* Property C18 — Method descriptions mirror the described function's real signature.
   Only statements here; proofs are in Proofs/FromFunction.v.

   [fromFunction] / [fromMethod] are Gen/FromFunction.v, REGENERATED from
   zope/interface/interface.py on every run, so these theorems are re-proved against what the
   source says now.  [layout] (Spec/Signature.v) is CPython's code-object layout of a signature
   (validated against real ``def``s on every run by Tie/C18.v); [spec_info] / [render] are what
   the property statement asks getSignatureInfo() / getSignatureString() to report.
   Names and default values are abstract identifiers (nat). *)
From Coq Require Import List ZArith Bool Arith NArith.
Import ListNotations.
From ZI Require Import Lib.Str Model.PyFunc Spec.Signature Gen.FromFunction Model.FromFunctionPrefix Proofs.FromFunction.

(* For every valid signature (any number of positional-only, positional-or-keyword and
   keyword-only parameters with any defaults satisfying Python's rule, optional *name and
   **name), any local variables after the parameters, any function attributes, and ANY number
   [iml] of bound leading arguments (0 for a function, 1 for a method; an [iml] beyond the
   positional parameters strips all of them and nothing else — ``def m( *args)`` described as a
   method is ``( *args)``): fromFunction raises nothing and reports
     positional = the remaining positional parameter names in order,
     required   = those without a default,
     optional   = name -> default for the others, in order,
     varargs / kwargs = the actual * / ** names (None if absent),
     tagged values = the function's attributes. *)
Theorem C18_fromFunction_correct :
  forall (s : signature) (locals : list name) (fd : list (name * dflt)) (iml : nat),
  valid s -> NoDup (map fst fd) ->
  fromFunction (layout s locals fd iml)
  = Ok (mkMethod (map fst (skipn iml (posonly s ++ pos s)))
                 (map fst (filter (fun p => negb (has_default p)) (skipn iml (posonly s ++ pos s))))
                 (flat_map (fun p => match snd p with Some d => [(fst p, d)] | None => [] end)
                           (skipn iml (posonly s ++ pos s)))
                 (vararg s)
                 (varkw s)
                 fd).
Proof. exact fromFunction_correct. Qed.
Print Assumptions C18_fromFunction_correct.

(* getSignatureString() of that description is exactly the rendering of the real signature:
   "name" / "name=default" for the remaining positional parameters, then "*name", "**name" *)
Theorem C18_signature_string_renders :
  forall (s : signature) (locals : list name) (fd : list (name * dflt)) (iml : nat),
  valid s -> NoDup (map fst fd) ->
  exists m, fromFunction (layout s locals fd iml) = Ok m /\
    getSignatureString m
    = map (fun p => match snd p with Some d => TNameDefault (fst p) d | None => TName (fst p) end)
          (skipn iml (posonly s ++ pos s))
      ++ match vararg s with Some a => [TStar a] | None => [] end
      ++ match varkw s with Some a => [TStarStar a] | None => [] end.
Proof. exact signature_string_renders. Qed.
Print Assumptions C18_signature_string_renders.

(* fromMethod describes the method without its leading (self) positional parameter, whatever
   imlevel the caller's record carried; a method without a named positional parameter
   (``def m( *args)``, ``def m( **kw)``, ``def m( *, k)``) keeps everything ([tl [] = []]) *)
Theorem C18_fromMethod_strips_self :
  forall (s : signature) (locals : list name) (fd : list (name * dflt)) (iml0 : nat),
  valid s -> NoDup (map fst fd) ->
  fromMethod (layout s locals fd iml0)
  = Ok (mkMethod (map fst (tl (posonly s ++ pos s)))
                 (map fst (filter (fun p => negb (has_default p)) (tl (posonly s ++ pos s))))
                 (flat_map (fun p => match snd p with Some d => [(fst p, d)] | None => [] end)
                           (tl (posonly s ++ pos s)))
                 (vararg s) (varkw s) fd).
Proof. exact fromMethod_strips_self. Qed.
Print Assumptions C18_fromMethod_strips_self.

(* ---- generated = model.  getSignatureString_gen, getSignatureInfo, the Element accessors and
   abc_method_from_function are REGENERATED from the source on every run (Gen/FromFunction.v);
   Model/PyFunc.v getSignatureString / tag_reads are what the theorems above, the Spec oracle and
   the correspondence use. *)

(* Method.getSignatureString as the source computes it (list accumulator, "=" + repr(default),
   "*" / "**" prefixes, "(%s)" % ", ".join) renders, for every method description and every
   name / repr table, exactly the model's token list; getSignatureInfo reports the five fields *)
Theorem C18_generated_signature_string_eq_model :
  forall (names reprs : list str) (m : method),
  pstr_text names reprs (getSignatureString_gen m) = sig_text names reprs (getSignatureString m)
  /\ getSignatureInfo m = (m_positional m, m_required m, m_optional m, m_varargs m, m_kwargs m).
Proof. intros names reprs m. split; [apply signature_string_eq | apply info_eq]. Qed.
Print Assumptions C18_generated_signature_string_eq_model.

(* Element's tagged values: after setTaggedValue(k, v) for the items of [d] (what fromFunction does
   with func.__dict__) on a fresh description, every read accessor — getTaggedValue,
   getDirectTaggedValue, queryTaggedValue / queryDirectTaggedValue without and with a default,
   getTaggedValueTags, getDirectTaggedValueTags — answers as the dict does (model tag_reads),
   falsy values included, and the stored dict is the one fromFunction's kernel computes *)
Theorem C18_generated_tagged_eq_model :
  forall (d : list (name * dflt)) (none : nat) (t : name),
  let tv := fold_left (fun tv kv => setTaggedValue tv (fst kv) (snd kv)) d tv_init in
  let d' := dict_update [] d in
  [code_get (getTaggedValue tv t); code_get (getDirectTaggedValue tv t);
   code_query none (queryTaggedValue tv t queryTaggedValue_default);
   code_query none (queryDirectTaggedValue tv t queryTaggedValue_default);
   code_query_d (queryTaggedValue tv t VSentinel);
   code_query_d (queryDirectTaggedValue tv t VSentinel)] = tag_reads d' none t
  /\ getTaggedValueTags tv = map fst d' /\ getDirectTaggedValueTags tv = map fst d'
  /\ tv_dict tv = d'.
Proof. exact tagged_eq. Qed.
Print Assumptions C18_generated_tagged_eq_model.

(* ABCInterfaceClass.__method_from_function describes the ABC's function with its first
   positional parameter bound (imlevel 1, or 0 when there is none), hence by
   C18_fromFunction_correct positional, required AND optional all lose the leading self *)
Theorem C18_generated_abc_method_eq_model :
  (forall co : code,
     abc_method_from_function co
     = fromFunction (with_imlevel (if Nat.eqb (co_argcount co) 0 then 0 else 1) co))
  /\ (forall (s : signature) (locals : list name) (fd : list (name * dflt)) (iml0 : nat),
       valid s -> NoDup (map fst fd) ->
       abc_method_from_function (layout s locals fd iml0)
       = Ok (mkMethod (map fst (tl (posonly s ++ pos s)))
                      (map fst (filter (fun p => negb (has_default p)) (tl (posonly s ++ pos s))))
                      (flat_map (fun p => match snd p with Some d => [(fst p, d)] | None => [] end)
                                (tl (posonly s ++ pos s)))
                      (vararg s) (varkw s) fd)).
Proof. split; [exact generated_abc_eq | exact generated_abc_correct]. Qed.
Print Assumptions C18_generated_abc_method_eq_model.

(* The description is FAITHFUL ("mirrors"): two valid signatures whose descriptions (through the
   same number of bound leading arguments) are equal have the same remaining positional parameters
   WITH their defaults (name by name, default by default, required-ness included), the same * and
   ** names and the same attributes.  Nothing the statement lists can be lost or confused. *)
Theorem C18_description_faithful :
  forall (s1 s2 : signature) (l1 l2 : list name) (fd1 fd2 : list (name * dflt)) (iml : nat),
  valid s1 -> NoDup (map fst fd1) -> valid s2 -> NoDup (map fst fd2) ->
  fromFunction (layout s1 l1 fd1 iml) = fromFunction (layout s2 l2 fd2 iml) ->
  skipn iml (posonly s1 ++ pos s1) = skipn iml (posonly s2 ++ pos s2)
  /\ vararg s1 = vararg s2 /\ varkw s1 = varkw s2 /\ fd1 = fd2.
Proof. exact description_faithful. Qed.
Print Assumptions C18_description_faithful.

(* ... and what must NOT influence it: keyword-only parameters (names, defaults, how many), the
   function's local variables, and where the / separator stands *)
Theorem C18_description_ignores_kwonly_and_locals :
  forall (s1 s2 : signature) (l1 l2 : list name) (fd : list (name * dflt)) (iml : nat),
  valid s1 -> valid s2 -> NoDup (map fst fd) ->
  posonly s1 ++ pos s1 = posonly s2 ++ pos s2 -> vararg s1 = vararg s2 -> varkw s1 = varkw s2 ->
  fromFunction (layout s1 l1 fd iml) = fromFunction (layout s2 l2 fd iml).
Proof. exact description_ignores_kwonly_and_locals. Qed.
Print Assumptions C18_description_ignores_kwonly_and_locals.

(* ---------------------------------------------------------------- non-vacuity witnesses *)
(* names: 0 self, 1 a, 2 b, 3 c, 4 args, 5 k, 6 j, 7 kw, 8 x (local), 9 y (local), 10 attr;
   def m(self, a, /, b, c=D0, *args, k=D1, j, **kw): x = y = None      m.attr = D2 *)
Definition ex_sig : signature :=
  mkSig [(0, None); (1, None)] [(2, None); (3, Some 0)] (Some 4) [(5, Some 1); (6, None)] (Some 7).

Ltac nodup := repeat (constructor; [cbn; intuition congruence|]); constructor.

Example C18_ex_valid : valid ex_sig /\ NoDup (map fst [(10, 2)]) /\ 1 <= length (positionals ex_sig).
Proof. split; [split; [reflexivity | cbn; nodup] | split; [nodup | cbn; auto]]. Qed.

Example C18_ex_function :
  fromFunction (layout ex_sig [8; 9] [(10, 2)] 0)
  = Ok (mkMethod [0; 1; 2; 3] [0; 1; 2] [(3, 0)] (Some 4) (Some 7) [(10, 2)]).
Proof. vm_compute. reflexivity. Qed.

Example C18_ex_method :
  fromMethod (layout ex_sig [8; 9] [(10, 2)] 0)
  = Ok (mkMethod [1; 2; 3] [1; 2] [(3, 0)] (Some 4) (Some 7) [(10, 2)])
  /\ (exists m, fromMethod (layout ex_sig [8; 9] [(10, 2)] 0) = Ok m /\
        getSignatureString m = [TName 1; TName 2; TNameDefault 3 0; TStar 4; TStarStar 7]).
Proof. split; [vm_compute; reflexivity | eexists; split; vm_compute; reflexivity]. Qed.

(* every positional parameter has a default and the first one is bound: the ``nr < 0`` branch
   (leading default dropped).   def m(self=D0, a=D1, /, *, k): pass *)
Definition ex_sig_alldef : signature := mkSig [(0, Some 0); (1, Some 1)] [] None [(5, None)] None.
Example C18_ex_negative_nr :
  valid ex_sig_alldef /\
  fromMethod (layout ex_sig_alldef [] [] 0) = Ok (mkMethod [1] [] [(1, 1)] None None []).
Proof. split; [split; [reflexivity | cbn; nodup] | vm_compute; reflexivity]. Qed.

(* falsy attribute values survive every accessor (the table index of None is 2 here):
   tags 10 -> object 12 (False), 11 -> object 2 (None) *)
Example C18_ex_tagged_falsy :
  let tv := fold_left (fun tv kv => setTaggedValue tv (fst kv) (snd kv)) [(10, 12); (11, 2)] tv_init in
  queryTaggedValue tv 10 VSentinel = VObj 12 /\ queryTaggedValue tv 11 queryTaggedValue_default = VObj 2
  /\ getTaggedValue tv 10 = RVal (VObj 12) /\ getTaggedValue tv 9 = RKeyError
  /\ queryTaggedValue tv 9 VSentinel = VSentinel /\ getTaggedValueTags tv = [10; 11]
  /\ abc_method_from_function (layout ex_sig [8; 9] [(10, 2)] 0)
     = Ok (mkMethod [1; 2; 3] [1; 2] [(3, 0)] (Some 4) (Some 7) [(10, 2)]).
Proof. vm_compute. repeat split. Qed.

(* a method that takes its instance through *args: nothing is stripped.
   def m( *args, k=D1, **kw)  via fromMethod  ->  ( *args, **kw);  names 4 args, 5 k, 7 kw *)
Definition ex_sig_star : signature := mkSig [] [] (Some 4) [(5, Some 1)] (Some 7).
Example C18_ex_method_star_only :
  valid ex_sig_star /\
  fromMethod (layout ex_sig_star [8] [] 0) = Ok (mkMethod [] [] [] (Some 4) (Some 7) []) /\
  fromFunction (layout ex_sig_star [8] [] 3) = Ok (mkMethod [] [] [] (Some 4) (Some 7) []).
Proof. split; [split; [reflexivity | cbn; nodup] | split; vm_compute; reflexivity]. Qed.

(* The theorem depends on the fix "fromFunction locates *args/**kw after keyword-only
   parameters": the pre-fix formula (argno = na; Model/FromFunctionPrefix.v, the translator's
   output on the parent commit) describes   def f(a, b=D0, *args, k=D1, **kw)   as
   (a, b=D0, *k, **args), the regenerated one as (a, b=D0, *args, **kw).
   names: 1 a, 2 b, 4 args, 5 k, 7 kw *)
Definition ex_sig_kwonly : signature := mkSig [] [(1, None); (2, Some 0)] (Some 4) [(5, Some 1)] (Some 7).
Example C18_prefix_formula_refuted :
  valid ex_sig_kwonly /\
  fromFunction_prefix (layout ex_sig_kwonly [] [] 0) = Ok (mkMethod [1; 2] [1] [(2, 0)] (Some 5) (Some 4) []) /\
  fromFunction_prefix (layout ex_sig_kwonly [] [] 0) <> Ok (spec_info ex_sig_kwonly 0 []) /\
  fromFunction (layout ex_sig_kwonly [] [] 0) = Ok (mkMethod [1; 2] [1] [(2, 0)] (Some 4) (Some 7) []).
Proof.
  split; [split; [reflexivity | cbn; nodup]|].
  split; [vm_compute; reflexivity|]. split; [vm_compute; discriminate | vm_compute; reflexivity].
Qed.

(* the pre-fix formula was NOT faithful: it confuses   def f(a, *args, k=D1, **kw)   with
   def f(a, *k, **args)   — two different valid signatures, one description *)
Definition ex_sig_conf1 : signature := mkSig [] [(1, None)] (Some 4) [(5, Some 1)] (Some 7).
Definition ex_sig_conf2 : signature := mkSig [] [(1, None)] (Some 5) [] (Some 4).
Example C18_prefix_formula_not_faithful :
  valid ex_sig_conf1 /\ valid ex_sig_conf2 /\
  fromFunction_prefix (layout ex_sig_conf1 [] [] 0) = fromFunction_prefix (layout ex_sig_conf2 [] [] 0) /\
  vararg ex_sig_conf1 <> vararg ex_sig_conf2 /\
  fromFunction (layout ex_sig_conf1 [] [] 0) <> fromFunction (layout ex_sig_conf2 [] [] 0).
Proof.
  split; [split; [reflexivity | cbn; nodup]|]. split; [split; [reflexivity | cbn; nodup]|].
  split; [vm_compute; reflexivity|]. split; [discriminate | vm_compute; discriminate].
Qed.
