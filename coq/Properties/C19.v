(* placeholder while the tie is being validated *)
From ZI Require Import Model.Super.
