(* Property C19 — super() proxies see only the remainder of the MRO.
   Only statements here; proofs are in Proofs/Super.v, the model in Model/Super.v, the relations
   [Contributes] [Hears] in Spec/Super.v.
   Reading aid:  E  a world (class graph with ``object`` = class 0, interface graph, instances);
   [env_ok E] its boolean well-formedness (bases are created before their subclasses);
   [mro_of E T] Python's MRO of class T (C3);  [final uc E ops] the state after ANY history [ops]
   of declarations (classImplements / classImplementsOnly / classImplementsFirst on any class),
   registrations, providedBy / implementedBy queries and adaptations ([uc] = C optimizations in
   use);  [ASuper C j] the proxy super(C, ob) for the j-th instance ob, whose class is
   [obj_cls E j];  [flat E d c] the flattened content of implementedBy(c) under declarations d. *)
From Coq Require Import List Arith Bool.
Import ListNotations.
From ZI Require Import Spec.C3 Proofs.Ro Model.Ro Model.Adapter Model.Lookup Model.Super Spec.Super Proofs.Super.
From ZI Require Import Model.SuperPrims Gen.SuperKernel Proofs.SuperKernel.
From ZI Require Import Model.SuperCPrims Gen.SuperC Proofs.SuperC.

(* the modelled MRO is the textbook C3 linearisation of the class graph *)
Theorem C19_mro_is_c3 : forall E, env_ok E = true -> forall T,
  mro_of E T = c3_lin (bases (e_cg E)) (S (length (e_cg E))) T.
Proof. exact mro_is_c3. Qed.
Print Assumptions C19_mro_is_c3.

(* After any history: for every class C of type(ob)'s MRO that is followed by at least one class,
   providedBy(super(C, ob)) succeeds, leaves the declarations alone, and the content of the
   specification it returns is EXACTLY the union of the contents of implementedBy(c) for the
   classes c after C. *)
Theorem C19_super_spec_exact : forall uc E ops C j mro l1 l2,
  env_ok E = true -> mro_of E (obj_cls E j) = Some mro -> mro = l1 ++ C :: l2 -> l2 <> [] ->
  exists st' s, providedBy uc E (final uc E ops) (ASuper C j) = (st', Some (RSynth s)) /\
    st_decl st' = st_decl (final uc E ops) /\
    forall i, In i (flat_ref E st' (RSynth s)) <->
              exists c, In c l2 /\ In i (flat E (st_decl (final uc E ops)) c).
Proof. exact super_spec_exact_lemma. Qed.
Print Assumptions C19_super_spec_exact.

(* ... and those classes never include C itself or a class before C (the MRO has no repetition),
   so a declaration of C or of an earlier class shows only if a later class implements it too *)
Theorem C19_super_excludes_self_and_earlier : forall E T C mro l1 l2,
  env_ok E = true -> mro_of E T = Some mro -> mro = l1 ++ C :: l2 ->
  ~ In C l2 /\ ~ In C l1 /\ forall c, In c l1 -> ~ In c l2.
Proof. exact excludes_lemma. Qed.
Print Assumptions C19_super_excludes_self_and_earlier.

(* when no class follows C (C is ``object``, or not in the MRO) the query raises *)
Theorem C19_super_without_remainder_raises : forall uc E ops C j mro,
  env_ok E = true -> mro_of E (obj_cls E j) = Some mro -> rest_after C mro = [] ->
  snd (providedBy uc E (final uc E ops) (ASuper C j)) = None.
Proof. exact super_fails_lemma. Qed.
Print Assumptions C19_super_without_remainder_raises.

(* what the instance provides directly never enters: two worlds that differ only in the
   instances' direct declarations give the same answer for every proxy after every history *)
Theorem C19_super_ignores_instance_declarations : forall uc E E' ops C j,
  env_ok E = true -> e_cg E = e_cg E' -> e_ig E = e_ig E' -> obj_cls E j = obj_cls E' j ->
  answer uc E (final uc E ops) (ASuper C j) = answer uc E' (final uc E' ops) (ASuper C j).
Proof. exact ignores_direct_lemma. Qed.
Print Assumptions C19_super_ignores_instance_declarations.

(* the _super_cache is transparent: after any history (any earlier queries, any declaration
   changes before and after them, including below a class declared with an *only* form whose cache
   survives) the answer equals the one computed with every cache deleted *)
Theorem C19_super_cache_transparent : forall uc E ops C j,
  env_ok E = true ->
  answer uc E (final uc E ops) (ASuper C j) = answer uc E (clear_caches (final uc E ops)) (ASuper C j) /\
  answer_implementedBy uc E (final uc E ops) (ASuper C j) =
    answer_implementedBy uc E (clear_caches (final uc E ops)) (ASuper C j).
Proof. exact cache_transparent_lemma. Qed.
Print Assumptions C19_super_cache_transparent.

(* ... and equals the answer in a run where no query, registration or adaptation ever happened
   (only the declarations), in either implementation *)
Theorem C19_earlier_queries_irrelevant : forall uc uc' E ops C j,
  env_ok E = true ->
  answer uc E (final uc E ops) (ASuper C j) =
  answer uc' E (final uc' E (filter is_declaration ops)) (ASuper C j).
Proof. exact earlier_queries_irrelevant_lemma. Qed.
Print Assumptions C19_earlier_queries_irrelevant.

(* implementedBy and providedBy agree on a proxy: same specification object, same state,
   whichever of the two implementations answers either call *)
Theorem C19_implementedBy_eq_providedBy_on_super : forall E uc uc' st C j,
  implementedBy uc E st (ASuper C j) = providedBy uc' E st (ASuper C j).
Proof. exact implementedBy_eq_providedBy. Qed.
Print Assumptions C19_implementedBy_eq_providedBy_on_super.

(* LookupBase.adapter_hook / queryAdapter (Model/Lookup.v) on a proxy [o] of the object [ob]:
   for every uncached lookup function, every factory behaviour and every cache content that
   agrees with the uncached lookup, the factory found for the proxy's specification is called
   with [ob] itself *)
Theorem C19_super_adaptation :
  forall (ul : list spec -> spec -> name -> option value) (fcall : value -> list nat -> option nat)
         c p o n ob,
  o_super_of o = Some ob ->
  (forall req p' n' v, aget cache_key_eqb (c_cache c) (p', n', ckey_of req) = Some v -> v = ul req p' n') ->
  snd (adapter_hook ul fcall c p o (NStr n)) =
  match ul [o_provides o] p n with
  | Some f => match fcall f [ob] with Some r => RVal r | None => RDefault end
  | None => RDefault
  end.
Proof. exact adapter_hook_super_lemma. Qed.
Print Assumptions C19_super_adaptation.

(* queryMultiAdapter: looked up with what each object provides, called with the unwrapped objects;
   unwrapping a proxy gives the underlying object *)
Theorem C19_super_multi_adaptation :
  forall (ul : list spec -> spec -> name -> option value) (fcall : value -> list nat -> option nat)
         c os p n,
  (forall req p' n' v, aget cache_key_eqb (c_cache c) (p', n', ckey_of req) = Some v -> v = ul req p' n') ->
  snd (queryMultiAdapter ul fcall c os p (NStr n)) =
  match ul (map o_provides os) p n with
  | Some f => match fcall f (map unwrap os) with Some r => RVal r | None => RDefault end
  | None => RDefault
  end /\
  forall o ob, o_super_of o = Some ob -> unwrap o = ob.
Proof. exact multi_adaptation_lemma. Qed.
Print Assumptions C19_super_multi_adaptation.

(* the model's registry after any history: adapting super(C, ob) through queryAdapter,
   adapter_hook or queryMultiAdapter runs a factory only if it is registered under this name for an
   interface implemented by a class after C (and for a provided interface that is or extends the one
   asked for) and passes instance j itself (result = factory * 1000 + j); it answers the default
   only if no such registration exists *)
Theorem C19_super_adapter_selected : forall uc E ops v C j p n mro l1 l2,
  env_ok E = true -> mro_of E (obj_cls E j) = Some mro -> mro = l1 ++ C :: l2 -> l2 <> [] ->
  let st := final uc E ops in
  exists st' r, adapt uc E st v [ASuper C j] p n = (st', Some r) /\
    (forall x, r = RVal x ->
       exists reg q, In reg (st_regs st) /\ r_name reg = n /\ r_req reg = [q] /\
                     (exists c, In c l2 /\ In q (flat E (st_decl st) c)) /\
                     i_isOrExtends E (r_prov reg) p = true /\
                     x = vid (r_val reg) * 1000 + j mod 10) /\
    (r = RDefault ->
       forall reg q, In reg (st_regs st) -> r_name reg = n -> r_req reg = [q] ->
                     i_isOrExtends E (r_prov reg) p = true ->
                     ~ exists c, In c l2 /\ In q (flat E (st_decl st) c)) /\
    r <> RValueError.
Proof. exact adapter_selected_lemma. Qed.
Print Assumptions C19_super_adapter_selected.

(* meaning of "the content of implementedBy(c)": Interface, plus whatever a contributing class
   (c, or a class reached through __bases__ while the classes on the way still inherit, or through a
   declared specification ``classImplements(c, implementedBy(b))``) declares, plus everything those
   interfaces extend.  The hypothesis (declared specifications point to earlier classes of the world)
   holds after every history: C19_histories_keep_specs_acyclic. *)
Theorem C19_flat_semantics : forall E d c i, env_ok E = true ->
  (forall c0 b, In b (dspecs d c0) -> b < c0 /\ c0 < length (e_cg E)) ->
  (In i (flat E d c) <->
   i = iroot \/ exists c' q, Contributes E d c c' /\ In q (declared d c') /\ Reach (bases (e_ig E)) q i).
Proof. exact flat_semantics_thm. Qed.
Print Assumptions C19_flat_semantics.

(* Implements.changed: a change of implementedBy(c) deletes the _super_cache of exactly the
   classes that hear about it (an *only* class below c does not, and keeps its cache) *)
Theorem C19_notified_exactly_dependents : forall E st c T, env_ok E = true ->
  (forall c0 b, In b (dspecs (st_decl st) c0) -> b < c0 /\ c0 < length (e_cg E)) ->
  (In T (notified E (st_decl st) (cfuel E) c) <-> Hears E (st_decl st) T c) /\
  (Hears E (st_decl st) T c -> nget (st_cache (notify E st c)) T = None) /\
  (~ Hears E (st_decl st) T c -> nget (st_cache (notify E st c)) T = nget (st_cache st) T).
Proof. exact notified_thm. Qed.
Print Assumptions C19_notified_exactly_dependents.

Theorem C19_histories_keep_specs_acyclic : forall uc E ops, env_ok E = true ->
  forall c b, In b (dspecs (st_decl (final uc E ops)) c) -> b < c /\ c < length (e_cg E).
Proof. exact final_specs_ok. Qed.
Print Assumptions C19_histories_keep_specs_acyclic.

(* ---- class-bound proxies super(C, T) (second argument a class: __self_class__ = __self__ = T).
   implementedBy reads sup.__self_class__'s MRO, so the proxy reports what INSTANCES of the classes
   after C in T's own MRO implement (never what the class object T itself provides): it is the very
   same cache entry and specification object as for super(C, ob) with type(ob) = T ... *)
Theorem C19_class_bound_same_as_instance_bound : forall E uc uc' st C T j, obj_cls E j = T ->
  providedBy uc E st (ASuperC C T) = providedBy uc' E st (ASuper C j) /\
  implementedBy uc E st (ASuperC C T) = implementedBy uc' E st (ASuper C j).
Proof. exact class_bound_thm. Qed.
Print Assumptions C19_class_bound_same_as_instance_bound.

(* ... and, whether or not T has an instance: exactly the contents of the classes after C *)
Theorem C19_class_bound_spec_exact : forall uc E ops C T mro l1 l2,
  env_ok E = true -> mro_of E T = Some mro -> mro = l1 ++ C :: l2 -> l2 <> [] ->
  exists st' s, providedBy uc E (final uc E ops) (ASuperC C T) = (st', Some (RSynth s)) /\
    implementedBy uc E (final uc E ops) (ASuperC C T) = (st', Some (RSynth s)) /\
    st_decl st' = st_decl (final uc E ops) /\
    forall i, In i (flat_ref E st' (RSynth s)) <->
              exists c, In c l2 /\ In i (flat E (st_decl (final uc E ops)) c).
Proof. exact class_bound_spec_exact_lemma. Qed.
Print Assumptions C19_class_bound_spec_exact.

(* adaptation of a class-bound proxy: same selection, the factory receives the class object T
   (identity 2 + T) *)
Theorem C19_class_bound_adapter_selected : forall uc E ops v C T p n mro l1 l2,
  env_ok E = true -> mro_of E T = Some mro -> mro = l1 ++ C :: l2 -> l2 <> [] ->
  let st := final uc E ops in
  exists st' r, adapt uc E st v [ASuperC C T] p n = (st', Some r) /\
    (forall x, r = RVal x ->
       exists reg q, In reg (st_regs st) /\ r_name reg = n /\ r_req reg = [q] /\
                     (exists c, In c l2 /\ In q (flat E (st_decl st) c)) /\
                     i_isOrExtends E (r_prov reg) p = true /\
                     x = vid (r_val reg) * 1000 + cls_ident T mod 10) /\
    (r = RDefault ->
       forall reg q, In reg (st_regs st) -> r_name reg = n -> r_req reg = [q] ->
                     i_isOrExtends E (r_prov reg) p = true ->
                     ~ exists c, In c l2 /\ In q (flat E (st_decl st) c)) /\
    r <> RValueError.
Proof. exact adapter_selected_class_bound_lemma. Qed.
Print Assumptions C19_class_bound_adapter_selected.

(* an unbound proxy super(C) (no object at all): the empty declaration, state untouched *)
Theorem C19_unbound_proxy_is_empty : forall E uc st C,
  providedBy uc E st (AUnbound C) = (st, Some REmpty) /\
  implementedBy uc E st (AUnbound C) = (st, Some REmpty) /\
  flat_ref E st REmpty = [iroot].
Proof. exact unbound_thm. Qed.
Print Assumptions C19_unbound_proxy_is_empty.

(* ---- the kernel regenerated from the source TEXT on this run (Gen/SuperKernel.v, written by the
   fail-closed translator harness/translate/super_kernel.py from declarations.py and adapter.py) IS the
   model the theorems above are about, for all inputs and all states.  [mkPS C T j] is super(C, ob)
   with type(ob) = T. *)
Theorem C19_generated_next_super_class_eq_model : forall E C T j,
  gen_next_super_class E (mkPS C T j) =
  match mro_of E T with Some mro => next_super_class mro C | None => None end.
Proof. exact gen_next_super_class_eq. Qed.
Print Assumptions C19_generated_next_super_class_eq_model.

Theorem C19_generated_implementedBy_super_eq_model : forall E st C T j,
  gen_implementedBy_super E st (mkPS C T j) =
  (let '(st', r) := implementedBy_super E st T C in (st', option_map RSynth r)).
Proof. exact gen_implementedBy_super_eq. Qed.
Print Assumptions C19_generated_implementedBy_super_eq_model.

(* Implements.changed deletes the cache of its own specification; [notify] is that, run on every
   specification the (untranslated) Specification.changed walk reaches *)
Theorem C19_generated_changed_eq_model : forall E st c,
  gen_implements_changed st (RCls c) = drop_cache st c /\
  notify E st c = fold_left (fun s x => gen_implements_changed s (RCls x))
                            (notified E (st_decl st) (cfuel E) c) st.
Proof. intros. split; [apply gen_implements_changed_eq|apply notify_is_generated_changed]. Qed.
Print Assumptions C19_generated_changed_eq_model.

Theorem C19_generated_entry_points_eq_model : forall E st a,
  gen_py_implementedBy E st a = py_implementedBy E st a /\
  gen_py_providedBy E st a = py_providedBy E st a.
Proof. intros. split; [apply gen_py_implementedBy_eq|apply gen_py_providedBy_eq]. Qed.
Print Assumptions C19_generated_entry_points_eq_model.

Theorem C19_generated_adapter_hook_eq_model :
  forall (ul : list spec -> spec -> name -> option value) (fcall : value -> list nat -> option nat) c p o n,
  gen_adapter_hook ul fcall c p o n = adapter_hook ul fcall c p o n.
Proof. exact gen_adapter_hook_eq. Qed.
Print Assumptions C19_generated_adapter_hook_eq_model.

Theorem C19_generated_queryMultiAdapter_eq_model :
  forall (ul : list spec -> spec -> name -> option value) (fcall : value -> list nat -> option nat) c os p n,
  gen_queryMultiAdapter ul fcall c os p n = queryMultiAdapter ul fcall c os p n.
Proof. exact gen_queryMultiAdapter_eq. Qed.
Print Assumptions C19_generated_queryMultiAdapter_eq_model.

(* ---- the C twins.  Gen/SuperC.v holds what harness/translate/super_c.py matched in the C text on this
   run (which object is tested against which type, what is called with what, which attribute of which
   object is read and what the factory is called with); its interpretation (Model/SuperCPrims.v) IS the
   model of the C entry points and of adapter_hook. *)
Theorem C19_generated_c_implementedBy_eq_model : forall E st a,
  interp_c_implementedBy gen_c_implementedBy_branch gen_c_fallback E st a = c_implementedBy E st a.
Proof. exact gen_c_implementedBy_eq. Qed.
Print Assumptions C19_generated_c_implementedBy_eq_model.

Theorem C19_generated_c_providedBy_eq_model : forall E st a,
  interp_c_providedBy gen_c_providedBy_branch gen_c_implementedBy_branch gen_c_fallback E st a = c_providedBy E st a.
Proof. exact gen_c_providedBy_eq. Qed.
Print Assumptions C19_generated_c_providedBy_eq_model.

Theorem C19_generated_c_adapter_hook_eq_model :
  forall (ul : list spec -> spec -> name -> option value) (fcall : value -> list nat -> option nat) c p o n,
  interp_c_hook gen_c_adapter_hook ul fcall c p o n = adapter_hook ul fcall c p o n.
Proof. exact gen_c_adapter_hook_eq. Qed.
Print Assumptions C19_generated_c_adapter_hook_eq_model.

(* ---- non-vacuity: a diamond with an undeclared mixin below an *only* class.
   interfaces I1, I2, I3(I2), I4; classes A=1 (I1), M=2 (mixin, nothing declared), B(A)=3 (I2),
   Cc(A, M)=4 (nothing declared), D(B, Cc)=5 declared with implementer_only(I4); instance 0 of D
   directly provides I3, instance 1 of D nothing. *)
Definition ex_E : env :=
  mkEnv [(0, []); (1, [0]); (2, [0]); (3, [1]); (4, [1; 2]); (5, [3; 4])]
        [(1, []); (2, []); (3, [2]); (4, [])] [(5, [3]); (5, [])].

Definition ex_ops : list op :=
  [OImplements 1 [1]; OImplements 3 [2]; OOnly 5 [4];
   OProvidedBy (AObj 0);
   OProvidedBy (ASuper 3 0); OProvidedBy (ASuper 5 0); OImplementedBy (ASuper 3 1);
   ORegister (mkR [3] 1 1 (mkV 7 7)); ORegister (mkR [2] 1 2 (mkV 8 8));
   OAdapt ViaQueryAdapter [ASuper 3 0] 1 1; OAdapt ViaAdapterHook [ASuper 5 0] 1 2;
   OImplements 2 [3];                       (* the mixin declares I3 while D's cache is warm *)
   OProvidedBy (ASuper 3 0); OProvidedBy (ASuper 5 0);
   OAdapt ViaQueryAdapter [ASuper 3 0] 1 1; OAdapt ViaMulti [ASuper 3 0] 1 1;
   OImplements 5 [1];                       (* a declaration on D itself drops D's cache *)
   OProvidedBy (ASuper 3 0); OProvidedBy (ASuper 0 0)].

(* the world is well formed, D's MRO is D B Cc A M object; the instance provides I1..I4 but
   super(B, d) sees only I1 (from A; not B's I2, not D's I4, not the instance's I3); after the mixin's
   declaration the SAME cached specification (number 0: D is an *only* class and did not hear)
   answers I1 I2 I3; the adapter for I3 is then found and receives instance 0; a declaration on D
   makes a new specification (number 2); super(object, d) raises *)
Example C19_witness :
  env_ok ex_E = true /\ mro_of ex_E 5 = Some [5; 3; 4; 1; 2; 0] /\
  run true ex_E init ex_ops =
    [[]; []; []; [1; 2; 0; 0; 2; 3; 4]; [1; 0; 0; 0; 1]; [1; 0; 1; 0; 1; 2]; [1; 0; 0; 0; 1]; []; [];
     [2]; [3; 8000]; []; [1; 0; 0; 0; 1; 2; 3]; [1; 0; 1; 0; 1; 2; 3]; [3; 7000]; [3; 7000]; [];
     [1; 0; 2; 0; 1; 2; 3]; [0]] /\
  run false ex_E init ex_ops = run true ex_E init ex_ops /\
  st_cache (final true ex_E ex_ops) = [(5, [(3, 2)])].
Proof. vm_compute. repeat split; reflexivity. Qed.

(* the hypotheses of C19_super_spec_exact / C19_super_adapter_selected are met by that world *)
Example C19_witness_split :
  mro_of ex_E (obj_cls ex_E 0) = Some ([5] ++ 3 :: [4; 1; 2; 0]) /\ [4; 1; 2; 0] <> [].
Proof. split; [vm_compute; reflexivity|discriminate]. Qed.

(* the mixin's declaration is heard by Cc but not by the *only* class D *)
Example C19_witness_hears :
  Hears ex_E (st_decl (final true ex_E ex_ops)) 4 2 /\
  notified ex_E (st_decl (final true ex_E ex_ops)) (cfuel ex_E) 2 = [2; 4] /\
  Contributes ex_E (st_decl (final true ex_E ex_ops)) 4 2.
Proof.
  split; [|split].
  - eapply Hears_sub with (y := 4); [vm_compute; auto 10|vm_compute; reflexivity|vm_compute; auto|constructor].
  - vm_compute. reflexivity.
  - eapply Contributes_base with (b := 2); [vm_compute; reflexivity|vm_compute; auto|constructor].
Qed.

(* a coherent non-empty lookup cache and a proxy object, for C19_super_adaptation *)
Example C19_witness_lookup :
  let ul := fun (req : list spec) (p : spec) (n : name) => match req with [6] => Some (mkV 7 7) | _ => None end in
  let o := mkObj 6 9 (Some 0) in
  let c := fst (adapter_hook ul call empty_caches 1 o (NStr 1)) in
  c_cache c <> [] /\ snd (adapter_hook ul call c 1 o (NStr 1)) = RVal 7000 /\
  snd (queryMultiAdapter ul call c [o] 1 (NStr 1)) = RVal 7000.
Proof. vm_compute. repeat split; try reflexivity. discriminate. Qed.

(* hypotheses of C19_super_without_remainder_raises and C19_super_ignores_instance_declarations:
   ``object`` has no remainder; a second world with other direct declarations gives the same
   non-trivial proxy answer although the instances themselves provide different things *)
Definition ex_E2 : env :=
  mkEnv (e_cg ex_E) (e_ig ex_E) [(5, []); (5, [1; 2])].

Example C19_witness_direct :
  rest_after 0 [5; 3; 4; 1; 2; 0] = [] /\
  e_cg ex_E = e_cg ex_E2 /\ e_ig ex_E = e_ig ex_E2 /\ obj_cls ex_E 0 = obj_cls ex_E2 0 /\
  option_map (sort_set 5) (answer true ex_E (final true ex_E ex_ops) (ASuper 5 0)) = Some [0; 1; 2; 3] /\
  answer true ex_E2 (final true ex_E2 ex_ops) (ASuper 5 0) = answer true ex_E (final true ex_E ex_ops) (ASuper 5 0) /\
  answer true ex_E (final true ex_E ex_ops) (AObj 0) <> answer true ex_E2 (final true ex_E2 ex_ops) (AObj 0).
Proof. vm_compute. repeat split; try reflexivity. discriminate. Qed.

(* the generated kernel, run on the witness world: a cache miss creates specification 0 over Cc A M object *)
Example C19_witness_generated :
  let st := final true ex_E [OImplements 1 [1]; OImplements 3 [2]; OOnly 5 [4]] in
  snd (gen_implementedBy_super ex_E st (mkPS 3 5 0)) = Some (RSynth 0) /\
  map sy_bases (st_synth (fst (gen_implementedBy_super ex_E st (mkPS 3 5 0)))) = [[4; 1; 2; 0]] /\
  gen_next_super_class ex_E (mkPS 3 5 0) = Some 4.
Proof. vm_compute. repeat split; reflexivity. Qed.

(* class-bound and unbound proxies and a declared class specification on the witness world: Cc (4)
   declares implementedBy(B) (3) - B was created before Cc - so super(D, D) sees B's I2 twice over;
   super(B, D) is the very specification of super(B, d); adapting it hands the class object D
   (identity 2 + 5) to the factory; super(B) provides nothing *)
Example C19_witness_class_bound :
  let ops := [OImplements 1 [1]; OImplements 3 [2]; OOnly 5 [4]; OImplSpec 4 3; OImplSpec 3 4;
              ORegister (mkR [2] 1 1 (mkV 7 7));
              OProvidedBy (ASuper 3 0); OProvidedBy (ASuperC 3 5); OImplementedBy (ASuperC 1 4);
              OAdapt ViaAdapterHook [ASuperC 3 5] 1 1; OProvidedBy (AUnbound 3)] in
  run true ex_E init ops =
    [[]; []; []; []; []; []; [1; 0; 0; 0; 1; 2]; [1; 0; 0; 0; 1; 2]; [1; 0; 1; 0]; [3; 7007]; [1; 3; 0; 0]] /\
  dspecs (st_decl (final true ex_E ops)) 4 = [3] /\ dspecs (st_decl (final true ex_E ops)) 3 = [] /\
  Hears ex_E (st_decl (final true ex_E ops)) 4 3 /\
  mro_of ex_E 4 = Some ([4] ++ 1 :: [2; 0]).
Proof.
  split; [vm_compute; reflexivity|]. split; [vm_compute; reflexivity|]. split; [vm_compute; reflexivity|].
  split; [|vm_compute; reflexivity].
  eapply Hears_decl with (y := 4); [vm_compute; auto 10|vm_compute; auto|constructor].
Qed.
