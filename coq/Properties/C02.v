(* Property C02 — extends / isOrExtends equal reachability over the current bases, after any
   rebasing.  Only statements here; proofs are in Proofs/SpecGraph.v.

   Vocabulary (Model/SpecGraph.v, Spec/SpecGraph.v, Model/Ro.v):
     op                 NewSpec x iface bases | SetBases x bases | Drop x
     step reorder       runs Specification.__init__ / __setBases (with the recursive ``changed``
                        notification of dependents, walked in the order [reorder keys]) / the death
                        of a weakly held leaf
     hist_ok            boolean well-formedness of a history, checked per operation: new
                        specifications are fresh, bases are live, the root is never rebased, only
                        leaves die, and the base graph stays acyclic ([acyclicb])
     reach g S T        T is reachable from S through one or more __bases__ steps of graph g
     acyclic g          g has a rank function (every base strictly lower)
     fresh_sro          the order a freshly built graph of that shape has (every base first)
   Every theorem is for ALL histories and ALL notification orders that keep the same elements. *)
From Coq Require Import List Arith Bool.
Import ListNotations.
From ZI Require Import Model.Ro Model.SpecGraph Model.SpecGraphPrim Spec.SpecGraph Proofs.SpecGraph.
From ZI Require Import Gen.SpecGraphKernel Proofs.SpecGraphKernel Model.SpecGraphKeyed.

(* S.isOrExtends(T)  <->  T is S, or reachable from S over the current bases, or the root *)
Theorem C02_implied_iff_reachable : forall reorder : list node -> list node,
  (forall l y, In y (reorder l) <-> In y l) ->
  forall ops, hist_ok reorder init ops = true ->
  let st := fold_left (step reorder) ops init in
  forall S T, In S (live st) ->
    (isOrExtends st S T = true <-> T = S \/ reach (gr st) S T \/ T = root).
Proof. exact implied_iff_reachable_lemma. Qed.
Print Assumptions C02_implied_iff_reachable.

(* S.extends(T) (strict): the same without the self case *)
Theorem C02_extends_strict : forall reorder : list node -> list node,
  (forall l y, In y (reorder l) <-> In y l) ->
  forall ops, hist_ok reorder init ops = true ->
  let st := fold_left (step reorder) ops init in
  forall S T, In S (live st) ->
    (extends st S T true = true <-> T <> S /\ (reach (gr st) S T \/ T = root)).
Proof. exact extends_strict_lemma. Qed.
Print Assumptions C02_extends_strict.

(* S.extends(T, strict=False) is S.isOrExtends(T), in every state *)
Theorem C02_extends_nonstrict : forall st S T, extends st S T false = isOrExtends st S T.
Proof. exact extends_nonstrict_lemma. Qed.
Print Assumptions C02_extends_nonstrict.

(* S.__sro__ contains exactly those specifications *)
Theorem C02_sro_members : forall reorder : list node -> list node,
  (forall l y, In y (reorder l) <-> In y l) ->
  forall ops, hist_ok reorder init ops = true ->
  let st := fold_left (step reorder) ops init in
  forall S T, In S (live st) ->
    (In T (get_sro st S) <-> T = S \/ reach (gr st) S T \/ T = root).
Proof. exact sro_members_lemma. Qed.
Print Assumptions C02_sro_members.

(* ... each of them once *)
Theorem C02_sro_nodup : forall reorder : list node -> list node,
  (forall l y, In y (reorder l) <-> In y l) ->
  forall ops, hist_ok reorder init ops = true ->
  let st := fold_left (step reorder) ops init in
  forall S, In S (live st) -> NoDup (get_sro st S).
Proof. exact sro_nodup_lemma. Qed.
Print Assumptions C02_sro_nodup.

(* after any history every live specification's cached __sro__ IS the order a freshly built
   graph of the current shape has: nothing stale survives a rebasing anywhere in the graph *)
Theorem C02_sro_coherent : forall reorder : list node -> list node,
  (forall l y, In y (reorder l) <-> In y l) ->
  forall ops, hist_ok reorder init ops = true ->
  let st := fold_left (step reorder) ops init in
  forall S, In S (live st) ->
    get_sro st S = fresh_sro (fuel_of (gr st)) root (gr st) S.
Proof. exact sro_coherent_lemma. Qed.
Print Assumptions C02_sro_coherent.

(* ... and the fuel of [fresh_sro] is not load-bearing: any larger fuel gives the same order *)
Theorem C02_fresh_fuel_irrelevant : forall reorder : list node -> list node,
  (forall l y, In y (reorder l) <-> In y l) ->
  forall ops, hist_ok reorder init ops = true ->
  let st := fold_left (step reorder) ops init in
  forall S f, fuel_of (gr st) <= f ->
    fresh_sro f root (gr st) S = fresh_sro (fuel_of (gr st)) root (gr st) S.
Proof. exact fresh_fuel_lemma. Qed.
Print Assumptions C02_fresh_fuel_irrelevant.

(* __iro__ is the interface part of that order *)
Theorem C02_iro_is_interface_part : forall reorder : list node -> list node,
  (forall l y, In y (reorder l) <-> In y l) ->
  forall ops, hist_ok reorder init ops = true ->
  let st := fold_left (step reorder) ops init in
  forall S, In S (live st) ->
    get_iro st S = filter (isif st) (fresh_sro (fuel_of (gr st)) root (gr st) S).
Proof. exact iro_lemma. Qed.
Print Assumptions C02_iro_is_interface_part.

(* the propagation edges are complete: D is subscribed to S exactly as often as S occurs in
   D.__bases__ (so every dependent hears about a change, and nothing else does) *)
Theorem C02_dependents_complete : forall reorder : list node -> list node,
  (forall l y, In y (reorder l) <-> In y l) ->
  forall ops, hist_ok reorder init ops = true ->
  let st := fold_left (step reorder) ops init in
  forall S D, dep_total D (deps st S) = count_occ Nat.eq_dec (get_bases st D) S.
Proof. exact dependents_complete_lemma. Qed.
Print Assumptions C02_dependents_complete.

(* whatever order the dependents dictionaries are walked in, the same history is well-formed,
   has the same shape and leaves the same caches *)
Theorem C02_notification_order_irrelevant : forall (r1 r2 : list node -> list node) ops,
  (forall l y, In y (r1 l) <-> In y l) -> (forall l y, In y (r2 l) <-> In y l) ->
  hist_ok r1 init ops = true ->
  let st1 := fold_left (step r1) ops init in
  let st2 := fold_left (step r2) ops init in
  hist_ok r2 init ops = true /\ live st1 = live st2 /\ gr st1 = gr st2 /\
  forall S, In S (live st1) -> sro st1 S = sro st2 S /\ implied st1 S = implied st2 S.
Proof. exact order_irrelevant_lemma. Qed.
Print Assumptions C02_notification_order_irrelevant.

(* the per-operation check really excludes cycles *)
Theorem C02_acyclicb_sound : forall g, acyclicb g = true -> forall x, ~ reach g x x.
Proof. exact acyclicb_sound_lemma. Qed.
Print Assumptions C02_acyclicb_sound.

(* ... and nothing else: a graph that has a rank function at all passes (its nodes being bound) *)
Theorem C02_acyclicb_complete : forall g, acyclic g ->
  (forall x b, In x (map fst g) -> In b (bases g x) -> In b (map fst g)) -> acyclicb g = true.
Proof. exact acyclicb_complete_lemma. Qed.
Print Assumptions C02_acyclicb_complete.

(* so, in every reachable state, [hist_ok] admits EVERY operation of the right shape (fresh new
   node / live bases / root untouched / only leaves die) whose resulting base graph is acyclic:
   the theorems above are about all acyclic histories, not about a convenient subset *)
Theorem C02_op_ok_complete : forall reorder : list node -> list node,
  (forall l y, In y (reorder l) <-> In y l) ->
  forall ops, hist_ok reorder init ops = true ->
  let st := fold_left (step reorder) ops init in
  forall o, shape_ok st o = true -> acyclic (next_graph st o) -> op_ok st o = true.
Proof. exact op_ok_complete_lemma. Qed.
Print Assumptions C02_op_ok_complete.

(* ---- the tie to the source TEXT.  Gen/SpecGraphKernel.v is regenerated on every run from class
   Specification (interface.py) by the fail-closed translator harness/translate/specgraph.py; the
   k_* functions below are that generated text.  Each of them does what the hand-written model the
   theorems above are about does, for ALL states.  [state_equiv] (Model/SpecGraphPrim.v) compares
   the function-valued fields pointwise. *)

(* subscribe: the count goes up by one, a new key goes last *)
Theorem C02_generated_subscribe_eq_model : forall st b x,
  k_subscribe st b x = set_deps st b (dep_incr x (deps st b)).
Proof. exact k_subscribe_eq. Qed.
Print Assumptions C02_generated_subscribe_eq_model.

(* unsubscribe: KeyError exactly for a missing key, otherwise the count goes down, deleted at 0 *)
Theorem C02_generated_unsubscribe_eq_model : forall st b x,
  (k_unsubscribe st b x = None <-> ~ In x (dep_keys (deps st b))) /\
  (forall st', k_unsubscribe st b x = Some st' -> st' = set_deps st b (dep_decr x (deps st b))).
Proof. exact k_unsubscribe_eq. Qed.
Print Assumptions C02_generated_unsubscribe_eq_model.

(* _calculate_sro (with Interface's override): ro over the bases' cached orders + root fix-up *)
Theorem C02_generated_calculate_sro_eq_model : forall st x, k_calc st x = calc (gr st) (sro st) x.
Proof. exact k_calc_eq. Qed.
Print Assumptions C02_generated_calculate_sro_eq_model.

(* changed, before the notification loop: clear and refill _implied, set __sro__ (and __iro__) *)
Theorem C02_generated_changed_step_eq_model : forall st x originally_changed,
  state_equiv (k_changed_step st x originally_changed) (recompute x st).
Proof. exact k_changed_step_lemma. Qed.
Print Assumptions C02_generated_changed_step_eq_model.

(* changed with its recursive notification of every dependent *)
Theorem C02_generated_changed_eq_model : forall reorder : list node -> list node,
  (forall l y, In y (reorder l) <-> In y l) ->
  forall fuel st x originally_changed,
    state_equiv (k_changed reorder fuel st x originally_changed) (changed reorder fuel x st).
Proof. exact k_changed_lemma. Qed.
Print Assumptions C02_generated_changed_eq_model.

(* __setBases: unsubscribe from the old bases, assign, subscribe to the new ones, changed() *)
Theorem C02_generated_setBases_eq_model : forall reorder : list node -> list node,
  (forall l y, In y (reorder l) <-> In y l) ->
  forall st x bs, state_equiv (k_setBases reorder st x bs) (set_bases reorder x bs st).
Proof. exact k_setBases_lemma. Qed.
Print Assumptions C02_generated_setBases_eq_model.

(* isOrExtends, extends(strict) and the value stored in __iro__ *)
Theorem C02_generated_queries_eq_model : forall st S T strict,
  k_isOrExtends st S T = isOrExtends st S T /\ k_extends st S T strict = extends st S T strict /\
  k_iro_of st (get_sro st S) = get_iro st S.
Proof. exact k_queries_eq. Qed.
Print Assumptions C02_generated_queries_eq_model.

(* the C twin SB_extends (struct SB without members the model does not know): the same lookup *)
Theorem C02_generated_c_isOrExtends_eq_model : forall st S T,
  k_c_isOrExtends st S T = isOrExtends st S T.
Proof. reflexivity. Qed.
Print Assumptions C02_generated_c_isOrExtends_eq_model.

(* equivalent states give the same answer to every query *)
Theorem C02_state_equiv_same_answers : forall a b, state_equiv a b ->
  forall S T strict, isOrExtends a S T = isOrExtends b S T /\ extends a S T strict = extends b S T strict /\
    get_sro a S = get_sro b S /\ get_iro a S = get_iro b S /\ get_bases a S = get_bases b S /\
    deps a S = deps b S.
Proof. exact se_answers. Qed.
Print Assumptions C02_state_equiv_same_answers.

(* ---- finding F10 (recorded, not repaired).  Every theorem above reads object identity as
   equality of creation numbers, i.e. ASSUMES the (__name__, __module__) keys of live interfaces
   are unique.  Model/SpecGraphKeyed.v looks the dependents dictionaries up through a key function:
   with the identity it is the model above ... *)
Theorem C02_unique_keys_is_model : forall reorder st o,
  step_k (fun x => x) reorder st o = step reorder st o.
Proof. intros reorder st [x k bs|x bs|x]; reflexivity. Qed.
Print Assumptions C02_unique_keys_is_model.

(* ... and with two live specifications of equal key the coherence theorem is FALSE: 4 and 5 are
   twins below 2; after 2.__bases__ = (3,) the twin subscribed second (5) and its dependent (6)
   keep the order they had.  (corpus/C02/f10_equal_keys.json is this history on real interfaces;
   the run reports it as KNOWN-FINDING F10.) *)
Definition f10_key (x : node) : nat := if Nat.eqb x 5 then 4 else x.
Definition f10_ops : list op :=
  [NewSpec 2 true []; NewSpec 3 true []; NewSpec 4 true [2]; NewSpec 5 true [2]; NewSpec 6 true [5];
   SetBases 2 [3]].

Theorem C02_equal_keys_refuted :
  exists (key : node -> nat) (ops : list op) (S : node),
    hist_ok (fun l => l) init ops = true /\
    let st := fold_left (step_k key (fun l => l)) ops init in
    In S (live st) /\ get_sro st S <> fresh_sro (fuel_of (gr st)) root (gr st) S /\
    isOrExtends st S 3 = false /\ isOrExtends (fold_left (step (fun l => l)) ops init) S 3 = true.
Proof.
  exists f10_key, f10_ops, 5. vm_compute. split; [reflexivity|]. split; [tauto|].
  split; [discriminate|]. split; reflexivity.
Qed.
Print Assumptions C02_equal_keys_refuted.

(* ---- non-vacuity: a diamond 4(2,3), 2(1), 3(1), 1(root) with a class-like 5(4) and an
   instance-like 6(5,7) below it; then the TOP of the diamond is rebased onto a new interface 8,
   a middle node is rebased, a leaf dies. *)
Definition ex_ops : list op :=
  [NewSpec 1 true [0]; NewSpec 2 true [1]; NewSpec 3 true [1]; NewSpec 4 true [2; 3];
   NewSpec 5 false [4]; NewSpec 7 true []; NewSpec 6 false [7; 5];
   NewSpec 8 true []; SetBases 1 [8]; SetBases 3 [7; 1]; Drop 6; SetBases 5 [3; 3]].
Definition ex_id (l : list node) := l.

Example C02_ex_reorders_ok :
  (forall (l : list node) y, In y (ex_id l) <-> In y l) /\ (forall (l : list node) y, In y (rev l) <-> In y l).
Proof. split; intros l y; [tauto | symmetry; apply in_rev]. Qed.

Example C02_ex_hist_ok : hist_ok ex_id init ex_ops = true /\ hist_ok (@rev node) init ex_ops = true.
Proof. split; vm_compute; reflexivity. Qed.

(* before the rebase of the top: the instance-like node 6 reaches 1 and not 8 *)
Example C02_ex_before :
  let st := fold_left (step ex_id) (firstn 8 ex_ops) init in
  isOrExtends st 6 1 = true /\ isOrExtends st 6 8 = false /\ isOrExtends st 6 0 = true
  /\ get_sro st 6 = [6; 7; 5; 4; 2; 3; 1; 0] /\ extends st 4 4 true = false.
Proof. vm_compute. repeat split. Qed.

(* after it every indirect dependent, two and three levels down, answers for the new shape *)
Example C02_ex_after :
  let st := fold_left (step ex_id) (firstn 9 ex_ops) init in
  isOrExtends st 6 8 = true /\ isOrExtends st 4 8 = true /\ isOrExtends st 1 0 = true
  /\ get_sro st 6 = [6; 7; 5; 4; 2; 3; 1; 8; 0]
  /\ get_iro st 6 = [7; 4; 2; 3; 1; 8; 0]
  /\ deps st 1 = [(2, 1); (3, 1)] /\ deps st 0 = [].
Proof. vm_compute. repeat split. Qed.

Example C02_ex_final :
  let st := fold_left (step ex_id) ex_ops init in
  let st' := fold_left (step (@rev node)) ex_ops init in
  live st = [0; 1; 2; 3; 4; 5; 7; 8] /\ get_sro st 5 = [5; 3; 7; 1; 8; 0]
  /\ map (sro st) (live st) = map (sro st') (live st') /\ deps st 3 = [(4, 1); (5, 2)]
  /\ get_sro st 4 = fresh_sro (fuel_of (gr st)) root (gr st) 4.
Proof. vm_compute. repeat split. Qed.

(* a rebase that would close a cycle is rejected by the well-formedness check *)
Example C02_ex_cycle_rejected :
  op_ok (fold_left (step ex_id) ex_ops init) (SetBases 1 [4]) = false
  /\ op_ok (fold_left (step ex_id) ex_ops init) (SetBases 1 [7]) = true.
Proof. vm_compute. split; reflexivity. Qed.

(* the generated __setBases, run on the state before the rebase of the top of the diamond, leaves
   every specification answering as the model says *)
Example C02_ex_generated_kernel :
  let st := fold_left (step ex_id) (firstn 8 ex_ops) init in
  let a := k_setBases ex_id st 1 [8] in
  let b := step ex_id st (SetBases 1 [8]) in
  map (sro a) (live a) = map (sro b) (live b) /\ map (implied a) (live a) = map (implied b) (live b)
  /\ map (deps a) (live a) = map (deps b) (live b) /\ k_isOrExtends a 6 8 = true.
Proof. vm_compute. repeat split. Qed.
