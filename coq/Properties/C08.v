(* Property C08 - All lookup entry points agree with lookup() and subscriptions().
   Only statements here; proofs are in Proofs/EntryPoints.v and Proofs/CLookup.v.

   [ul] [ua] [us] are the uncached computations of the owning registry in its current state (any
   functions), [call] is the factory oracle (any function), [c] the cache state.  Results:
   RVal x | RDefault (the caller's default object, returned as is) | RValueError. *)
From Coq Require Import List Arith Bool.
Import ListNotations.
From ZI Require Import Model.Ro Model.Adapter Model.Lookup Model.RegSys Model.CLookup Spec.EntryPoints
     Model.LookupPrims Proofs.EntryPoints Proofs.CLookup Gen.LookupPy Gen.LookupC Proofs.LookupGen.

(* ---- relations between entry points: in EVERY cache state (valid or not), answers and the
        cache state left behind *)

(* lookup1(r, p, n) = lookup((r,), p, n) *)
Theorem C08_lookup1_eq_lookup : forall ul c r p n,
  lookup1 ul c r p n = lookup ul c [r] p n.
Proof. exact lookup1_eq_lookup. Qed.
Print Assumptions C08_lookup1_eq_lookup.

(* adapter_hook(p, ob, n) = the factory found by lookup([providedBy(ob)], p, n) called with the
   object (a super proxy replaced by its underlying object); default when there is no factory or
   it returns None; ValueError when lookup raises it *)
Theorem C08_adapter_hook_eq : forall ul call c p o n,
  adapter_hook ul call c p o n =
  (fst (lookup ul c [o_provides o] p n),
   match snd (lookup ul c [o_provides o] p n) with
   | RVal f => match call f [match o_super_of o with Some u => u | None => o_id o end] with
               | Some x => RVal x
               | None => RDefault
               end
   | RDefault => RDefault
   | RValueError => RValueError
   end).
Proof. exact adapter_hook_eq. Qed.
Print Assumptions C08_adapter_hook_eq.

Theorem C08_queryAdapter_eq : forall ul call c p o n,
  queryAdapter ul call c o p n = adapter_hook ul call c p o n /\
  queryAdapter ul call c o p n =
  (fst (lookup ul c [o_provides o] p n), apply_factory call (snd (lookup ul c [o_provides o] p n)) [unwrap o]).
Proof. intros; split; [reflexivity | apply adapter_hook_eq]. Qed.
Print Assumptions C08_queryAdapter_eq.

Theorem C08_queryMultiAdapter_eq : forall ul call c os p n,
  queryMultiAdapter ul call c os p n =
  (fst (lookup ul c (map o_provides os) p n),
   match snd (lookup ul c (map o_provides os) p n) with
   | RVal f => match call f (map unwrap os) with Some x => RVal x | None => RDefault end
   | RDefault => RDefault
   | RValueError => RValueError
   end).
Proof. exact queryMultiAdapter_eq. Qed.
Print Assumptions C08_queryMultiAdapter_eq.

(* subscribers(obs, p): every element of subscriptions([providedBy(o) ...], p) is called, in order;
   the non-None results are returned, in order; nothing is returned for handlers (p = None) *)
Theorem C08_subscribers_eq : forall us call c os p,
  let s := subscriptions us c (map o_provides os) p in
  subscribers us call c os p =
  (fst s,
   (match p with
    | None => []
    | Some _ => flat_map (fun f => match call f (map o_id os) with Some r => [r] | None => [] end) (snd s)
    end,
    snd s)).
Proof. exact subscribers_eq. Qed.
Print Assumptions C08_subscribers_eq.

(* names lists the keys of lookupAll *)
Theorem C08_names_eq_keys_of_lookupAll : forall ua c req p,
  names ua c req p = (fst (lookupAll ua c req p), map fst (snd (lookupAll ua c req p))).
Proof. exact names_eq. Qed.
Print Assumptions C08_names_eq_keys_of_lookupAll.

(* a non-string name is rejected on every path, whatever the caches contain, and nothing is cached *)
Theorem C08_nonstring_name_rejected : forall ul call c req r os o p,
  lookup ul c req p NotAString = (c, RValueError) /\
  lookup1 ul c r p NotAString = (c, RValueError) /\
  adapter_hook ul call c p o NotAString = (c, RValueError) /\
  queryMultiAdapter ul call c os p NotAString = (c, RValueError).
Proof. exact nonstring_rejected. Qed.
Print Assumptions C08_nonstring_name_rejected.

(* ---- cache states: valid = every entry equals the uncached answer for its key *)
Theorem C08_CacheValid_empty : forall ul ua us, CacheValid ul ua us empty_caches.
Proof. exact CV_empty. Qed.
Print Assumptions C08_CacheValid_empty.

Theorem C08_CacheValid_preserved : forall ul ua us call c e,
  CacheValid ul ua us c -> CacheValid ul ua us (ep_step ul ua us call c e).
Proof. exact CV_step. Qed.
Print Assumptions C08_CacheValid_preserved.

(* hence after ANY sequence of calls of any entry points since the last changed() *)
Theorem C08_CacheValid_reachable : forall ul ua us call (es : list epcall),
  CacheValid ul ua us (fold_left (ep_step ul ua us call) es empty_caches).
Proof. exact CV_warm. Qed.
Print Assumptions C08_CacheValid_reachable.

(* in a valid cache state lookup answers what the uncached lookup answers *)
Theorem C08_lookup_answer : forall ul ua us c req p n, CacheValid ul ua us c ->
  snd (lookup ul c req p (NStr n)) = match ul req p n with Some v => RVal v | None => RDefault end.
Proof. exact lookup_valid_res. Qed.
Print Assumptions C08_lookup_answer.

(* every entry point answers with a valid cache what it answers with a cold cache *)
Theorem C08_results_independent_of_cache : forall ul ua us call c, CacheValid ul ua us c ->
  (forall req p n, snd (lookup ul c req p n) = snd (lookup ul empty_caches req p n)) /\
  (forall r p n, snd (lookup1 ul c r p n) = snd (lookup1 ul empty_caches r p n)) /\
  (forall p o n, snd (adapter_hook ul call c p o n) = snd (adapter_hook ul call empty_caches p o n)) /\
  (forall os p n, snd (queryMultiAdapter ul call c os p n) = snd (queryMultiAdapter ul call empty_caches os p n)) /\
  (forall req p, snd (lookupAll ua c req p) = snd (lookupAll ua empty_caches req p)) /\
  (forall req p, snd (names ua c req p) = snd (names ua empty_caches req p)) /\
  (forall req p, snd (subscriptions us c req p) = snd (subscriptions us empty_caches req p)) /\
  (forall os p, snd (subscribers us call c os p) = snd (subscribers us call empty_caches os p)).
Proof. exact results_independent. Qed.
Print Assumptions C08_results_independent_of_cache.

(* ... in particular after any warm-up through any entry points (same or different ones) *)
Theorem C08_results_independent_of_warmup : forall ul ua us call (es : list epcall),
  let c := fold_left (ep_step ul ua us call) es empty_caches in
  (forall req p n, snd (lookup ul c req p n) = snd (lookup ul empty_caches req p n)) /\
  (forall r p n, snd (lookup1 ul c r p n) = snd (lookup1 ul empty_caches r p n)) /\
  (forall p o n, snd (adapter_hook ul call c p o n) = snd (adapter_hook ul call empty_caches p o n)) /\
  (forall os p n, snd (queryMultiAdapter ul call c os p n) = snd (queryMultiAdapter ul call empty_caches os p n)) /\
  (forall req p, snd (lookupAll ua c req p) = snd (lookupAll ua empty_caches req p)) /\
  (forall req p, snd (names ua c req p) = snd (names ua empty_caches req p)) /\
  (forall req p, snd (subscriptions us c req p) = snd (subscriptions us empty_caches req p)) /\
  (forall os p, snd (subscribers us call c os p) = snd (subscribers us call empty_caches os p)).
Proof. intros. apply results_independent. apply CV_warm. Qed.
Print Assumptions C08_results_independent_of_warmup.

(* ---- the uncached walkers of Model/Adapter.v: lookupAll maps every name to what lookup finds.
        Side condition: the adapter storage of every registry walked has unique keys (it is a
        dictionary; shown below for every reachable state).  No condition on the resolution
        orders, the extendors lists or the registry order. *)
Theorem C08_lookupAll_is_map_of_lookup : forall W ro req p,
  Forall (fun r => NoDup (map fst (adapters r))) ro ->
  forall n, aget Nat.eqb (uncached_lookupAll W ro req p) n = uncached_lookup W ro req p n.
Proof. exact uncached_lookupAll_is_map_of_lookup. Qed.
Print Assumptions C08_lookupAll_is_map_of_lookup.

(* the names are exactly the names lookup finds something for, each listed once *)
Theorem C08_names_eq_keys : forall W ro req p,
  Forall (fun r => NoDup (map fst (adapters r))) ro ->
  NoDup (map fst (uncached_lookupAll W ro req p)) /\
  forall n, In n (map fst (uncached_lookupAll W ro req p)) <-> uncached_lookup W ro req p n <> None.
Proof. intros W ro req p H. split; [apply uncached_lookupAll_NoDup | apply uncached_names_iff, H]. Qed.
Print Assumptions C08_names_eq_keys.

(* the two entry points, each with its own (valid) cache state *)
Theorem C08_lookupAll_agrees_with_lookup : forall W ro us c1 c2 req p n,
  Forall (fun r => NoDup (map fst (adapters r))) ro ->
  CacheValid (uncached_lookup W ro) (uncached_lookupAll W ro) us c1 ->
  CacheValid (uncached_lookup W ro) (uncached_lookupAll W ro) us c2 ->
  match aget Nat.eqb (snd (lookupAll (uncached_lookupAll W ro) c1 req p)) n with
  | Some v => RVal v
  | None => RDefault
  end = snd (lookup (uncached_lookup W ro) c2 req p (NStr n)).
Proof.
  intros W ro us c1 c2 req p n Hwf H1 H2.
  rewrite (lookupAll_valid_res _ _ _ c1 req p H1), (lookup_valid_res _ _ _ c2 req p n H2).
  rewrite (uncached_lookupAll_is_map_of_lookup W ro req p Hwf). reflexivity.
Qed.
Print Assumptions C08_lookupAll_agrees_with_lookup.

(* the side condition holds in every reachable storage state ... *)
Theorem C08_adapters_wf_storage : forall W,
  adapters_wf empty_reg /\
  (forall r req p n v, adapters_wf r -> adapters_wf (register W r req p n v)) /\
  (forall r req p n v, adapters_wf r -> adapters_wf (unregister W r req p n v)) /\
  (forall r req p v, adapters_wf r -> adapters_wf (subscribe W r req p v)) /\
  (forall r req p v, adapters_wf r -> adapters_wf (unsubscribe W r req p v)) /\
  (forall r, adapters_wf (rebuild W r)).
Proof.
  intros W. repeat split.
  - constructor.
  - intros; apply adapters_wf_register; assumption.
  - intros; apply adapters_wf_unregister; assumption.
  - intros r req p v H. unfold adapters_wf. rewrite adapters_subscribe. exact H.
  - intros r req p v H. unfold adapters_wf. rewrite adapters_unsubscribe. exact H.
  - apply adapters_wf_rebuild.
Qed.
Print Assumptions C08_adapters_wf_storage.

(* ... and for the registries any lookup walks after any history of a system of registries *)
Theorem C08_adapters_wf_reachable : forall W call (ops : list rop) r,
  Forall (fun g => NoDup (map fst (adapters g))) (ro_regs (final W call [] ops) r).
Proof. intros. apply ro_regs_wf, reachable_sys_wf. Qed.
Print Assumptions C08_adapters_wf_reachable.

(* at the level of registry systems: in every system state, reachable or not *)
Theorem C08_sys_lookup1_eq_lookup : forall W call s r rq p n,
  step W call s (QLookup1 r rq p n) = step W call s (QLookup r [rq] p n).
Proof.
  intros. cbn [step]. unfold with_lookup.
  rewrite lookup1_eq_lookup. reflexivity.
Qed.
Print Assumptions C08_sys_lookup1_eq_lookup.

(* ---- the C twins answer like the Python text, for every shape of the optional arguments
        (name omitted / a string / not a string; default omitted / None / an object) and every
        cache state, and leave the same caches *)
Theorem C08_c_lookup_eq_py : forall ul c req p name d,
  c_lookup ul c req p name d =
  (fst (lookup ul c req p (cname name)), py_ret d (snd (lookup ul c req p (cname name)))).
Proof. exact c_lookup_eq_py. Qed.
Print Assumptions C08_c_lookup_eq_py.

Theorem C08_c_lookup1_eq_py : forall ul c r p name d,
  c_lookup1 ul c r p name d =
  (fst (lookup1 ul c r p (cname name)), py_ret d (snd (lookup1 ul c r p (cname name)))).
Proof. exact c_lookup1_eq_py. Qed.
Print Assumptions C08_c_lookup1_eq_py.

Theorem C08_c_adapter_hook_eq_py : forall ul call c p o name d,
  c_adapter_hook ul call c p o name d =
  (fst (adapter_hook ul call c p o (cname name)),
   py_ret_nat d (snd (adapter_hook ul call c p o (cname name)))).
Proof. exact c_adapter_hook_eq_py. Qed.
Print Assumptions C08_c_adapter_hook_eq_py.

Theorem C08_c_queryAdapter_eq_py : forall ul call c p o name d,
  c_queryAdapter ul call c o p name d =
  (fst (queryAdapter ul call c o p (cname name)),
   py_ret_nat d (snd (queryAdapter ul call c o p (cname name)))).
Proof. intros. apply c_adapter_hook_eq_py. Qed.
Print Assumptions C08_c_queryAdapter_eq_py.

Theorem C08_c_lookupAll_subscriptions_eq_py : forall ua us c req p sp,
  c_lookupAll ua c req p = lookupAll ua c req p /\
  c_subscriptions us c req sp = subscriptions us c req sp.
Proof. intros; split; [apply c_lookupAll_eq_py | apply c_subscriptions_eq_py]. Qed.
Print Assumptions C08_c_lookupAll_subscriptions_eq_py.

(* defaults by identity in C: with a default object that is not None, None is never handed back
   (cached or uncached "no result", factory returning None): the answer is a value / result or the
   default object itself *)
Theorem C08_c_default_by_identity : forall ul call c req r p o name,
  snd (c_lookup ul c req p name DObj) <> CRet PNone /\
  snd (c_lookup1 ul c r p name DObj) <> CRet PNone /\
  snd (c_adapter_hook ul call c p o name DObj) <> CRet PNone.
Proof.
  intros. rewrite c_lookup_eq_py, c_lookup1_eq_py, c_adapter_hook_eq_py. cbn [snd].
  repeat split.
  - destruct (snd (lookup ul c req p (cname name))); discriminate.
  - destruct (snd (lookup1 ul c r p (cname name))); discriminate.
  - destruct (snd (adapter_hook ul call c p o (cname name))); discriminate.
Qed.
Print Assumptions C08_c_default_by_identity.

(* ---- tie to the source TEXT: the kernels regenerated on every run from adapter.py
        (harness/translate/lookup_py.py -> Gen/LookupPy.v) and from _zope_interface_coptimizations.c
        (harness/translate/lookup_c.py -> Gen/LookupC.v) ARE the functions of the shared model
        Model/Lookup.v resp. of Model/CLookup.v, for all inputs and all cache states *)
Theorem C08_generated_py_eq_model : forall ul ua us call,
  (forall c, py_changed c = cache_changed c) /\
  (forall c req, py_subscribe c req = subscribe_required c req) /\
  (forall c req p n, py_lookup ul c req p n = lookup ul c req p n) /\
  (forall c r p n, py_lookup1 ul c r p n = lookup1 ul c r p n) /\
  (forall c p o n, py_adapter_hook ul call c p o n = adapter_hook ul call c p o n) /\
  (forall c o p n, py_queryAdapter ul call c o p n = queryAdapter ul call c o p n) /\
  (forall c os p n, py_queryMultiAdapter ul call c os p n = queryMultiAdapter ul call c os p n) /\
  (forall c req p, py_lookupAll ua c req p = lookupAll ua c req p) /\
  (forall c req p, py_names ua c req p = names ua c req p) /\
  (forall c req p, py_subscriptions us c req p = subscriptions us c req p) /\
  (forall c os p, py_subscribers us call c os p = subscribers us call c os p).
Proof.
  intros. repeat match goal with |- _ /\ _ => split end; intros.
  - apply py_changed_eq.
  - apply py_subscribe_eq.
  - apply py_lookup_eq.
  - apply py_lookup1_eq.
  - apply py_adapter_hook_eq.
  - apply py_queryAdapter_eq.
  - apply py_queryMultiAdapter_eq.
  - apply py_lookupAll_eq.
  - apply py_names_eq.
  - apply py_subscriptions_eq.
  - apply py_subscribers_eq.
Qed.
Print Assumptions C08_generated_py_eq_model.

Theorem C08_generated_c_eq_model : forall ul ua us call,
  (forall p name, gen_c_getcache p name = c_getcache p name) /\
  (forall c req p name d, gen_c_lookup ul c req p name d = c_lookup ul c req p name d) /\
  (forall c r p name d, gen_c_lookup1 ul c r p name d = c_lookup1 ul c r p name d) /\
  (forall c p o name d, gen_c_adapter_hook ul call c p o name d = c_adapter_hook ul call c p o name d) /\
  (forall c o p name d, gen_c_queryAdapter ul call c o p name d = c_queryAdapter ul call c o p name d) /\
  (forall c req p, gen_c_lookupAll ua c req p = c_lookupAll ua c req p) /\
  (forall c req p, gen_c_subscriptions us c req p = c_subscriptions us c req p).
Proof.
  intros. repeat match goal with |- _ /\ _ => split end; intros.
  - apply gen_c_getcache_eq.
  - apply gen_c_lookup_eq.
  - apply gen_c_lookup1_eq.
  - apply gen_c_adapter_hook_eq.
  - apply gen_c_queryAdapter_eq.
  - apply gen_c_lookupAll_eq.
  - apply gen_c_subscriptions_eq.
Qed.
Print Assumptions C08_generated_c_eq_model.

(* the Python-callable methods of the C classes: LookupBase.x parses its arguments and calls the core
   function (queryAdapter = adapter_hook with the first two swapped); VerifyingBase.x does the same
   AFTER _verify(self) - every entry point, as Model/RegSys.with_lookup assumes *)
Theorem C08_generated_c_wrappers :
  [gen_LB_lookup; gen_LB_lookup1; gen_LB_adapter_hook; gen_LB_queryAdapter; gen_LB_lookupAll; gen_LB_subscriptions] =
  [mkWrap false CoreLookup [0; 1; 2; 3]; mkWrap false CoreLookup1 [0; 1; 2; 3]; mkWrap false CoreAdapterHook [0; 1; 2; 3];
   mkWrap false CoreAdapterHook [1; 0; 2; 3]; mkWrap false CoreLookupAll [0; 1]; mkWrap false CoreSubscriptions [0; 1]] /\
  [gen_VB_lookup; gen_VB_lookup1; gen_VB_adapter_hook; gen_VB_queryAdapter; gen_VB_lookupAll; gen_VB_subscriptions] =
  [mkWrap true CoreLookup [0; 1; 2; 3]; mkWrap true CoreLookup1 [0; 1; 2; 3]; mkWrap true CoreAdapterHook [0; 1; 2; 3];
   mkWrap true CoreAdapterHook [1; 0; 2; 3]; mkWrap true CoreLookupAll [0; 1]; mkWrap true CoreSubscriptions [0; 1]].
Proof. split; reflexivity. Qed.
Print Assumptions C08_generated_c_wrappers.

(* hence every theorem above that is stated for Model/Lookup.v / Model/CLookup.v holds for the
   generated kernels; e.g. the generated C lookup1 agrees with the generated Python lookup *)
Theorem C08_generated_c_lookup1_eq_generated_py_lookup : forall ul c r p name d,
  gen_c_lookup1 ul c r p name d =
  (fst (py_lookup ul c [r] p (cname name)), py_ret d (snd (py_lookup ul c [r] p (cname name)))).
Proof.
  intros. rewrite gen_c_lookup1_eq, py_lookup_eq, c_lookup1_eq_py, lookup1_eq_lookup. reflexivity.
Qed.
Print Assumptions C08_generated_c_lookup1_eq_generated_py_lookup.

(* ------------------------------------------------------------------ non-vacuity witnesses *)
Module Witness.
  (* specs: 0 = Interface, 1 extends 0, 2 extends 1, 3 = a class implementing 2 *)
  Definition W : world :=
    mkW (fun x => match x with 0 => [0] | 1 => [1; 0] | 2 => [2; 1; 0] | _ => [3; 2; 1; 0] end)
        (fun x => Nat.ltb x 3).
  Definition v7 := mkV 7 7. Definition v8 := mkV 8 8. Definition v9 := mkV 9 9.
  (* name '' registered for required 1 and (more specific) 2; name 1 only for required 0 *)
  Definition g0 : reg :=
    subscribe W
      (register W (register W (register W empty_reg [Some 1] 1 0 (Some v7)) [Some 2] 1 0 (Some v8))
                [None] 2 1 (Some v9))
      [Some 1] (Some 1) v7.
  Definition g1 : reg := register W empty_reg [Some 0] 1 2 (Some v7).   (* a base registry *)
  Definition ro := [g0; g1].
  Definition ul := uncached_lookup W ro.
  Definition ua := uncached_lookupAll W ro.
  Definition us := uncached_subscriptions W ro.
  Definition call (v : value) (os : list nat) : option nat :=
    if Nat.eqb (vid v) 9 then None else Some (vid v * 100 + hd 0 os).
  Definition plain := mkObj 3 5 None.
  Definition proxy := mkObj 2 6 (Some 5).      (* super(C, ob): provides 2, stands for object 5 *)
  Definition warmup : list epcall :=
    [EPLookupAll [3] 1; EPAdapterHook 1 proxy (NStr 0); EPLookup1 3 1 (NStr 1); EPSubscribers [plain] (Some 1);
     EPLookup [3] 1 NotAString; EPQueryMultiAdapter [plain; proxy] 1 (NStr 0)].
  Definition c := warm ul ua us call warmup.
End Witness.
Import Witness.

Example C08_ex_storage_wf : Forall adapters_wf ro.
Proof.
  apply Forall_forall. intros g [<-|[<-|[]]].
  - unfold g0, adapters_wf. rewrite adapters_subscribe. do 3 apply adapters_wf_register. apply adapters_wf_empty.
  - unfold g1. apply adapters_wf_register, adapters_wf_empty.
Qed.

(* the most specific registration wins per name, in lookup and in lookupAll; names from both
   registries appear *)
Example C08_ex_lookupAll :
  ua [3] 1 = [(2, v7); (1, v9); (0, v8)] /\ ul [3] 1 0 = Some v8 /\ ul [3] 1 1 = Some v9 /\
  ul [3] 1 2 = Some v7 /\ ul [3] 1 3 = None.
Proof. vm_compute. repeat split. Qed.

(* a warm, non-empty, valid cache (all three caches populated, a cached None included) *)
Example C08_ex_cache_valid :
  CacheValid ul ua us c /\ length (c_cache c) = 3 /\ length (c_mcache c) = 1 /\ length (c_scache c) = 1 /\
  In (1, 0, CMulti [3; 2], None) (c_cache c).
Proof.
  split; [apply CV_warm|]. vm_compute. repeat split. tauto.
Qed.

(* the super proxy is unwrapped; a factory returning None gives the default; warm = cold *)
Example C08_ex_entry_points :
  snd (adapter_hook ul call c 1 proxy (NStr 0)) = RVal 805 /\
  snd (adapter_hook ul call empty_caches 1 proxy (NStr 0)) = RVal 805 /\
  snd (adapter_hook ul call c 1 plain (NStr 1)) = RDefault /\
  snd (lookup1 ul c 3 1 (NStr 1)) = RVal v9 /\
  snd (queryMultiAdapter ul call c [plain; proxy] 1 (NStr 0)) = RDefault /\
  snd (subscribers us call c [plain] (Some 1)) = ([705], [v7]) /\
  snd (subscribers us call c [plain] None) = ([], []) /\
  snd (adapter_hook ul call c 1 proxy NotAString) = RValueError.
Proof. vm_compute. repeat split. Qed.

(* C twin on a cached None: with a default object the default is returned, not None; with the
   default omitted None is *)
Example C08_ex_c_cached_none :
  snd (c_lookup1 ul c 3 2 (Some (NStr 0)) DObj) = CRet PDefault /\
  snd (c_lookup1 ul (fst (c_lookup1 ul c 3 2 (Some (NStr 0)) DObj)) 3 2 None DObj) = CRet PDefault /\
  snd (c_adapter_hook ul call (fst (c_lookup1 ul c 3 2 None DNone)) 2 plain None DObj) = CRet PDefault /\
  snd (c_adapter_hook ul call c 1 plain (Some (NStr 1)) DAbsent) = CRet PNone /\
  snd (c_adapter_hook ul call c 1 proxy None DObj) = CRet (PResult 805).
Proof. vm_compute. repeat split. Qed.

Example C08_ex_reachable_sys :
  let ops := [ONewReg Push []; ONewReg Push [0]; ORegister 0 [Some 0] 1 2 (Some v7);
              ORegister 1 [Some 1] 1 0 (Some v7); ORegister 1 [Some 2] 1 0 (Some v8)] in
  map (fun g => length (adapters g)) (ro_regs (final W call [] ops) 1) = [2; 1].
Proof. vm_compute. reflexivity. Qed.
