(* stub; replaced below *)
From ZI Require Import Model.Bookkeeping.
