(* Property C09 — Registration bookkeeping reflects exactly the net effect of the history.
   Only statements here; proofs are in Proofs/Bookkeeping.v.

   Model: Model/Adapter.v (register / unregister / subscribe / unsubscribe / registered / subscribed /
   allRegistrations / allSubscriptions / rebuild, _provided counting, extendors, uncached walkers) driven
   by histories [brun W ops = fold_left (bstep W) ops empty_reg] (Model/Bookkeeping.v).
   Spec: Spec/Bookkeeping.v (the ledger [aledger] / [sledger], unambiguous lookups).
   The nested dictionaries are represented by the finite map they implement, so the pruning of emptied
   containers has no counterpart here (DESIGN's prune_invisible holds by construction); the real pruning
   is exercised by the correspondence (Tie/C09.v). *)
From Coq Require Import List Arith Bool Permutation.
Import ListNotations.
From ZI Require Import Model.Ro Model.Adapter Model.Bookkeeping Spec.Bookkeeping Proofs.Bookkeeping.

(* registered() answers the ledger: the last value registered for exactly that key and not since
   unregistered.  [identity_ok]: two values mentioned by the history with the same identity are the same
   value (an artefact of pairing an identity with an equality class; true of real objects). *)
Theorem C09_registered_is_last : forall W ops, identity_ok (avalues ops) ->
  forall req p n, registered (brun W ops) req p n = aledger ops (akey_of req p n).
Proof. intros W ops ID req p n. apply (registered_is_last_lemma W ops ID). Qed.
Print Assumptions C09_registered_is_last.

(* the ledger really is "last write wins": after register(key, v) (v = None: a removal) and any
   operations that do not write that key, the ledger holds v *)
Theorem C09_ledger_last_write_wins : forall ops ops' req p n v,
  forallb (fun o => negb (touches_a (akey_of req p n) o)) ops' = true ->
  aledger (ops ++ BRegister req p n v :: ops') (akey_of req p n) = v.
Proof. exact ledger_last_write_wins_lemma. Qed.
Print Assumptions C09_ledger_last_write_wins.

(* registering None is unregistering whatever is there *)
Theorem C09_register_None_is_unregister : forall W r req p n,
  register W r req p n None = unregister W r req p n None.
Proof. reflexivity. Qed.
Print Assumptions C09_register_None_is_unregister.

(* unregister with a value removes the entry only if that very object is registered: any other value,
   however equal (==), leaves the registry untouched (generation included) *)
Theorem C09_unregister_value_identity : forall W ops req p n old v,
  registered (brun W ops) req p n = Some old ->
  (v_is old v = false -> unregister W (brun W ops) req p n (Some v) = brun W ops)
  /\ (v_is old v = true -> registered (unregister W (brun W ops) req p n (Some v)) req p n = None).
Proof.
  intros W ops req p n old v R. unfold registered in *. split; intros V.
  - unfold unregister. rewrite R, V. reflexivity.
  - rewrite adapters_unregister; [|apply (inv_brun W ops)].
    rewrite (eqb_refl akey_eqb akey_eqb_eq), R. cbn. rewrite V. reflexivity.
Qed.
Print Assumptions C09_unregister_value_identity.

(* registering the object that is already registered changes nothing: same state, same generation
   (so no cache is invalidated) — in ANY state *)
Theorem C09_reregister_same_noop : forall W r req p n old v,
  registered r req p n = Some old -> v_is old v = true -> register W r req p n (Some v) = r.
Proof. intros W r req p n old v R V. unfold registered in R. unfold register. rewrite R, V. reflexivity. Qed.
Print Assumptions C09_reregister_same_noop.

(* allRegistrations() enumerates exactly the live registrations, each key once *)
Theorem C09_allRegistrations_exact : forall W ops, identity_ok (avalues ops) ->
  NoDup (map fst (allRegistrations (brun W ops)))
  /\ forall k v, In (k, v) (allRegistrations (brun W ops)) <-> aledger ops k = Some v.
Proof.
  intros W ops ID. pose proof (inv_brun W ops) as [I _]. split; [apply I|].
  intros k v. rewrite <- (registered_is_last_lemma W ops ID k). unfold allRegistrations. split.
  - apply (In_aget akey_eqb akey_eqb_eq). apply I.
  - apply (aget_Some_In akey_eqb akey_eqb_eq).
Qed.
Print Assumptions C09_allRegistrations_exact.

(* allSubscriptions() enumerates exactly the live subscriptions: the keys with a non-empty ledger
   entry, each once, every key followed by its subscribers in subscription order *)
Theorem C09_allSubscriptions_exact : forall W ops, exists ks,
  NoDup ks
  /\ allSubscriptions (brun W ops) = flat_map (fun k => map (fun v => (k, v)) (sledger ops k)) ks
  /\ forall k, In k ks <-> sledger ops k <> [].
Proof.
  intros W ops. pose proof (inv_brun W ops) as [I _].
  exists (map fst (subscribers (brun W ops))). split; [apply I|]. split.
  - unfold allSubscriptions.
    assert (G : forall su, (forall k l, In (k, l) su -> sledger ops k = l) ->
                flat_map (fun kv : skey * list value => map (fun v => (fst kv, v)) (snd kv)) su
                = flat_map (fun k => map (fun v => (k, v)) (sledger ops k)) (map fst su)).
    { induction su as [|[k l] su IH]; intros H; cbn; auto.
      rewrite (H k l), IH; cbn; auto. intros k' l' H'. apply H; cbn; auto. }
    apply G. intros k l H. rewrite <- (sub_leaf_is_ledger W ops k). unfold sub_leaf.
    rewrite (In_aget skey_eqb skey_eqb_eq _ k l); auto. apply I.
  - intros k. rewrite <- (sub_leaf_is_ledger W ops k). split.
    + intros H. apply in_map_iff in H. destruct H as ([k' l] & <- & H). cbn.
      unfold sub_leaf. rewrite (In_aget skey_eqb skey_eqb_eq _ k' l); [|apply I|auto].
      eapply (inv_ne W _ I); eauto.
    + intros H. apply (sub_leaf_aget (brun W ops)) in H.
      apply (aget_Some_In skey_eqb skey_eqb_eq) in H. apply (in_map fst) in H. exact H.
Qed.
Print Assumptions C09_allSubscriptions_exact.

(* subscribed() finds exactly the live subscribers (membership is by ==, as ``in`` does) *)
Theorem C09_subscribed_exact : forall W ops req p v,
  subscribed (brun W ops) req p v = existsb (fun x => v_eq x v) (sledger ops (skey_of req p)).
Proof. intros W ops req p v. unfold subscribed. rewrite (sub_leaf_is_ledger W ops). reflexivity. Qed.
Print Assumptions C09_subscribed_exact.

(* the _provided reference count never falls below the number of live entries providing p
   (it may exceed it after overwrites: Example drift below) *)
Theorem C09_provided_count_ge_live : forall W ops p,
  live_count (brun W ops) p <= cnt_get (provided_cnt (brun W ops)) p.
Proof. intros W ops p. rewrite <- live_live_count. apply (inv_brun W ops). Qed.
Print Assumptions C09_provided_count_ge_live.

(* the extendors table lists under i exactly the provided interfaces with a positive count that
   extend i; without duplicates when resolution orders have none *)
Theorem C09_extendors_exact : forall W ops,
  (forall i p, In p (ext_get (extendors (brun W ops)) i)
               <-> (0 < cnt_get (provided_cnt (brun W ops)) p /\ In i (iro W p)))
  /\ (world_ok W -> forall i, NoDup (ext_get (extendors (brun W ops)) i)).
Proof.
  intros W ops. split.
  - apply (inv_brun W ops).
  - intros WOK. apply (inv2_brun W WOK ops).
Qed.
Print Assumptions C09_extendors_exact.

(* replaying allRegistrations() and allSubscriptions() of a reachable registry into a registry with
   empty data structures — in ANY enumeration order that keeps each subscription key's subscribers in
   order — yields the same adapters map and the same subscribers map, EXACT _provided counts
   (= live registrations + subscription entries providing q) and an extendors table with the same
   characterisation (hence the same interfaces per key wherever the source's count is not inflated) *)
Theorem C09_replay_preserves : forall W ops r0 regs subs,
  storage_empty r0 ->
  Permutation regs (allRegistrations (brun W ops)) ->
  Permutation subs (allSubscriptions (brun W ops)) ->
  (forall k, map snd (filter (fun kv => skey_eqb (fst kv) k) subs) = sub_leaf (brun W ops) k) ->
  let r' := replay_into W r0 regs subs in
  (forall req p n, registered r' req p n = registered (brun W ops) req p n)
  /\ (forall k, sub_leaf r' k = sub_leaf (brun W ops) k)
  /\ NoDup (map fst (allRegistrations r'))
  /\ (forall q, cnt_get (provided_cnt r') q = live_count (brun W ops) q)
  /\ (forall i q, In q (ext_get (extendors r') i) <-> (0 < live_count (brun W ops) q /\ In i (iro W q))).
Proof.
  intros W ops r0 regs subs E PR PS PK r'.
  destruct (replay_preserves_lemma W (brun W ops) r0 regs subs (inv_brun W ops) E PR PS PK) as (I & A & L & C).
  split; [intros req p n; apply A|]. split; [exact L|]. split; [apply I|]. split; [exact C|].
  intros i q. rewrite <- C. apply I.
Qed.
Print Assumptions C09_replay_preserves.

(* rebuild() is such a replay into fresh structures: same maps, exact counts, the generation moves on *)
Theorem C09_rebuild_preserves : forall W ops,
  let r := brun W ops in
  (forall req p n, registered (rebuild W r) req p n = registered r req p n)
  /\ (forall k, sub_leaf (rebuild W r) k = sub_leaf r k)
  /\ (forall req p v, subscribed (rebuild W r) req p v = subscribed r req p v)
  /\ (forall q, cnt_get (provided_cnt (rebuild W r)) q = live_count r q)
  /\ (forall i q, In q (ext_get (extendors (rebuild W r)) i) <-> (0 < live_count r q /\ In i (iro W q)))
  /\ rebuild W r = replay_into W (fresh_reg (generation r)) (allRegistrations r) (allSubscriptions r).
Proof.
  intros W ops r.
  destruct (rebuild_preserves_lemma W r (inv_brun W ops)) as (I & A & L & C).
  split; [intros req p n; apply A|]. split; [exact L|].
  split; [intros req p v; unfold subscribed; rewrite L; reflexivity|]. split; [exact C|].
  split; [|reflexivity]. intros i q. rewrite <- C. apply I.
Qed.
Print Assumptions C09_rebuild_preserves.

(* two resolution orders of pairwise map-equal registries (each satisfying the invariant of reachable
   registries) answer every UNAMBIGUOUS lookup identically: unambiguous = under every required-key tuple
   drawn from the resolution orders of the required specifications at most one provided interface
   extending p carries an entry for the name (Spec.unamb_lookup) *)
Theorem C09_unambiguous_lookup_coincides : forall W ro ro' required p n,
  Forall2 (fun r r' => inv W r /\ inv W r'
                       /\ (forall k, aget akey_eqb (adapters r') k = aget akey_eqb (adapters r) k)
                       /\ unamb_lookup W (fun k => aget akey_eqb (adapters r) k) required p n) ro ro' ->
  uncached_lookup W ro' required p n = uncached_lookup W ro required p n.
Proof. exact unambiguous_lookup_coincides_lemma. Qed.
Print Assumptions C09_unambiguous_lookup_coincides.

Theorem C09_unambiguous_subscriptions_coincide : forall W ro ro' required p,
  Forall2 (fun r r' => inv W r /\ nd r /\ inv W r' /\ nd r'
                       /\ (forall k, sub_leaf r' k = sub_leaf r k)
                       /\ match p with
                          | Some p' => unamb_subs W (fun k => sub_leaf r k) required p'
                          | None => True            (* handlers: never ambiguous *)
                          end) ro ro' ->
  uncached_subscriptions W ro' required p = uncached_subscriptions W ro required p.
Proof. exact unambiguous_subscriptions_coincide_lemma. Qed.
Print Assumptions C09_unambiguous_subscriptions_coincide.

(* hence: after ANY history, rebuild() answers every unambiguous lookup / subscriptions query as before *)
Theorem C09_rebuild_answers_unambiguous_lookups : forall W ops required,
  identity_ok (avalues ops) ->
  (forall p n, unamb_lookup W (aledger ops) required p n ->
     uncached_lookup W [rebuild W (brun W ops)] required p n = uncached_lookup W [brun W ops] required p n)
  /\ (world_ok W -> forall p,
        match p with Some p' => unamb_subs W (sledger ops) required p' | None => True end ->
        uncached_subscriptions W [rebuild W (brun W ops)] required p
        = uncached_subscriptions W [brun W ops] required p).
Proof. exact rebuild_answers_lemma. Qed.
Print Assumptions C09_rebuild_answers_unambiguous_lookups.

(* and so does a registry filled from the two listings, whatever the enumeration order *)
Theorem C09_replay_answers_unambiguous_lookups : forall W ops r0 regs subs required,
  identity_ok (avalues ops) -> storage_empty r0 ->
  Permutation regs (allRegistrations (brun W ops)) -> Permutation subs (allSubscriptions (brun W ops)) ->
  (forall k, map snd (filter (fun kv => skey_eqb (fst kv) k) subs) = sub_leaf (brun W ops) k) ->
  (forall p n, unamb_lookup W (aledger ops) required p n ->
     uncached_lookup W [replay_into W r0 regs subs] required p n = uncached_lookup W [brun W ops] required p n)
  /\ (world_ok W -> forall p,
        match p with Some p' => unamb_subs W (sledger ops) required p' | None => True end ->
        uncached_subscriptions W [replay_into W r0 regs subs] required p
        = uncached_subscriptions W [brun W ops] required p).
Proof. exact replay_answers_lemma. Qed.
Print Assumptions C09_replay_answers_unambiguous_lookups.

(* the registry SYSTEM the correspondence runs (Model/RegSys.step: caches, invalidation, generations,
   bases, both flavours) acts on the storage (adapters, subscribers, _provided, extendors) of every
   registry exactly as the storage operation the step stands for (Model/Bookkeeping.as_bop), and every
   other operation leaves all storages alone — so the theorems above, stated for [brun], speak about
   the storage the tested system carries *)
From ZI Require Import Model.Lookup Model.RegSys Proofs.BookkeepingLink.

Theorem C09_regsys_step_storage : forall W call s o i,
  storage (rs_reg (get (fst (step W call s o)) i))
  = match as_bop o with
    | Some (r, b) => if Nat.eqb i r && Nat.ltb r (length s)
                     then storage (bstep W (rs_reg (get s r)) b)
                     else storage (rs_reg (get s i))
    | None => storage (rs_reg (get s i))
    end.
Proof. exact regsys_step_storage. Qed.
Print Assumptions C09_regsys_step_storage.

(* ------------------------------------------------------------------ non-vacuity witnesses *)
(* world: 0 = Interface; 1,2 required interfaces A,B; 3,4,5 provided interfaces P1,P2,P3 (all unrelated) *)
Definition W0 : world :=
  mkW (fun x => match x with 0 => [0] | 1 | 2 | 3 | 4 | 5 => [x; 0] | _ => [] end) (fun x => Nat.leb x 5).
Definition v1 := mkV 1 1.
Definition v2 := mkV 2 1.      (* equal (==) to v1 but a distinct object *)
Definition v3 := mkV 3 3.

Example ex_world_ok : world_ok W0.
Proof.
  intros x. do 6 (destruct x as [|x]; [cbn; repeat constructor; cbn; intuition congruence|]).
  cbn. constructor.
Qed.

Ltac solve_identity_ok :=
  let a := fresh in let b := fresh in let Ha := fresh in let Hb := fresh in let E := fresh in
  intros a b Ha Hb E; cbn in Ha, Hb;
  repeat (destruct Ha as [Ha|Ha]; [subst a|]); try contradiction;
  repeat (destruct Hb as [Hb|Hb]; [subst b|]); try contradiction; try reflexivity; try discriminate E.

(* overwrite, then unregister: nothing is registered and the ledger agrees, yet _provided still counts 1
   (the drift) and P1 stays in the extendors; rebuild() makes the count exact again *)
Definition h_over : list bop :=
  [BRegister [Some 1] 3 0 (Some v1); BRegister [Some 1] 3 0 (Some v3); BUnregister [Some 1] 3 0 None].

Example ex_overwrite_then_unregister :
  identity_ok (avalues h_over)
  /\ registered (brun W0 h_over) [Some 1] 3 0 = None
  /\ aledger h_over (akey_of [Some 1] 3 0) = None
  /\ allRegistrations (brun W0 h_over) = []
  /\ live_count (brun W0 h_over) 3 = 0
  /\ cnt_get (provided_cnt (brun W0 h_over)) 3 = 1
  /\ ext_get (extendors (brun W0 h_over)) 0 = [3]
  /\ cnt_get (provided_cnt (rebuild W0 (brun W0 h_over))) 3 = 0
  /\ ext_get (extendors (rebuild W0 (brun W0 h_over))) 0 = [].
Proof. split; [solve_identity_ok|]. repeat split; reflexivity. Qed.

(* equal-but-distinct values: unregister(v2) does not remove v1, register(v2) does replace it (an equal
   value is not "already registered"), register(v1) again is a no-op that keeps the generation *)
Definition h_eq : list bop := [BRegister [Some 1] 3 0 (Some v1)].

Example ex_equal_but_distinct :
  v_eq v1 v2 = true /\ v_is v1 v2 = false
  /\ unregister W0 (brun W0 h_eq) [Some 1] 3 0 (Some v2) = brun W0 h_eq
  /\ registered (unregister W0 (brun W0 h_eq) [Some 1] 3 0 (Some v1)) [Some 1] 3 0 = None
  /\ registered (register W0 (brun W0 h_eq) [Some 1] 3 0 (Some v2)) [Some 1] 3 0 = Some v2
  /\ register W0 (brun W0 h_eq) [Some 1] 3 0 (Some v1) = brun W0 h_eq
  /\ aledger (h_eq ++ [BUnregister [Some 1] 3 0 (Some v2)]) (akey_of [Some 1] 3 0) = Some v1
  /\ aledger (h_eq ++ [BRegister [Some 1] 3 0 (Some v2)]) (akey_of [Some 1] 3 0) = Some v2.
Proof. repeat split; reflexivity. Qed.

(* subscriptions: unsubscribe(v2) removes every == entry (v1 and v2), subscribed() finds by == *)
Definition h_sub : list bop :=
  [BSubscribe [Some 1] (Some 3) v1; BSubscribe [Some 1] (Some 3) v3; BSubscribe [Some 1] (Some 3) v2;
   BSubscribe [None] None v3; BUnsubscribe [Some 1] (Some 3) (Some v2)].

Example ex_subscriptions :
  sledger h_sub (skey_of [Some 1] (Some 3)) = [v3]
  /\ allSubscriptions (brun W0 h_sub) = [(([1], Some 3), v3); (([0], None), v3)]
  /\ subscribed (brun W0 h_sub) [Some 1] (Some 3) v1 = false
  /\ subscribed (brun W0 h_sub) [Some 1] (Some 3) v3 = true
  /\ cnt_get (provided_cnt (brun W0 h_sub)) 3 = 1.
Proof. repeat split; reflexivity. Qed.

(* why "unambiguous": the implementation enumerates nested dictionaries, i.e. here in the order
   A-P1, A-P3, B-P2, B-P3 instead of the registration order A-P1, B-P2, A-P3, B-P3.  The replay
   satisfies every hypothesis of C09_replay_preserves, both maps are preserved, but the AMBIGUOUS lookup
   ([B], Interface, '') (P2 and P3 both apply under the key B) is answered differently, while the
   unambiguous lookup ([B], P2, '') is not *)
Definition h_amb : list bop :=
  [BRegister [Some 1] 3 0 (Some (mkV 11 11)); BRegister [Some 2] 4 0 (Some (mkV 22 22));
   BRegister [Some 1] 5 0 (Some (mkV 13 13)); BRegister [Some 2] 5 0 (Some (mkV 23 23));
   BSubscribe [Some 2] (Some 4) v1; BSubscribe [Some 2] (Some 4) v2].
Definition nested_order : list (akey * value) :=
  [(([1], 3, 0), mkV 11 11); (([1], 5, 0), mkV 13 13); (([2], 4, 0), mkV 22 22); (([2], 5, 0), mkV 23 23)].
Definition r_replayed : reg :=
  replay_into W0 (fresh_reg 0) nested_order (allSubscriptions (brun W0 h_amb)).

Lemma In4_iro e : In 4 (iro W0 e) -> e = 4.
Proof.
  do 6 (destruct e as [|e]; [cbn; intuition congruence|]). cbn. tauto.
Qed.

Example ex_ambiguous_lookup_may_differ :
  identity_ok (avalues h_amb) /\ storage_empty (fresh_reg 0)
  /\ Permutation nested_order (allRegistrations (brun W0 h_amb))
  /\ (forall k, map snd (filter (fun kv => skey_eqb (fst kv) k) (allSubscriptions (brun W0 h_amb)))
                = sub_leaf (brun W0 h_amb) k)
  /\ uncached_lookup W0 [brun W0 h_amb] [2] 0 0 = Some (mkV 23 23)
  /\ uncached_lookup W0 [r_replayed] [2] 0 0 = Some (mkV 22 22)
  /\ unamb_lookup W0 (aledger h_amb) [2] 4 0
  /\ uncached_lookup W0 [r_replayed] [2] 4 0 = Some (mkV 22 22)
  /\ unamb_subs W0 (sledger h_amb) [2] 4
  /\ uncached_subscriptions W0 [r_replayed] [2] (Some 4) = [v1; v2].
Proof.
  split; [solve_identity_ok|]. split; [repeat split|]. split.
  { change (allRegistrations (brun W0 h_amb))
      with [(([1], 3, 0), mkV 11 11); (([2], 4, 0), mkV 22 22); (([1], 5, 0), mkV 13 13); (([2], 5, 0), mkV 23 23)].
    unfold nested_order. apply perm_skip, perm_swap. }
  split; [intros k; apply proj_allsubs; apply (inv_brun W0 h_amb)|].
  split; [reflexivity|]. split; [reflexivity|]. split.
  { intros prefix e1 e2 _ H1 H2 _ _. apply In4_iro in H1. apply In4_iro in H2. congruence. }
  split; [reflexivity|]. split; [|reflexivity].
  intros prefix e1 e2 _ H1 H2 _ _. apply In4_iro in H1. apply In4_iro in H2. congruence.
Qed.

(* ====================================================================================================
   Extension: the NESTED DICTIONARIES of the code (Model/Trie.v: byorder lists of dictionary trees,
   padding, pruning loop, stripping, _allKeys enumeration, the walkers with their ``if comps:`` tests and
   ``order >= len(byorder)`` guards) refine the flat finite map of Model/Adapter.v the theorems above are
   about.  [R W t r] (Spec/TrieRel.v): t represents r — TrieInv t (unique keys, no empty sub-dictionary,
   subscriber tuples non-empty, no trailing empty byorder entry), every adapter key / subscription key
   finds the same value / tuple in both, _provided / extendors / generation identical.
   [lock_step] (Model/Bookkeeping.v) runs both models; the flat one replays rebuild() in the nested
   enumeration order (C09_replay_preserves holds for every order).
   ==================================================================================================== *)
From ZI Require Import Model.Trie Spec.TrieRel Proofs.TrieRefines.

(* every registry reachable on nested dictionaries is well-formed: in particular pruning never leaves an
   empty dictionary behind and never removes a non-empty one *)
Theorem C09_trie_invariant : forall W ops, TrieInv (t_brun W ops).
Proof. intros W ops. destruct (trie_refines_flat_lemma W ops) as (_ & HR & _). apply HR. Qed.
Print Assumptions C09_trie_invariant.

(* one operation on both models keeps them related: abs (trie_op t) = flat_op (abs t) for register /
   unregister / subscribe / unsubscribe (so padding, pruning and stripping are invisible), and rebuild()
   on nested dictionaries is the flat replay in _all_entries order *)
Theorem C09_trie_step_refines : forall W t r o, R W t r ->
  R W (fst (lock_step W (t, r) o)) (snd (lock_step W (t, r) o)).
Proof. exact sim_step_R. Qed.
Print Assumptions C09_trie_step_refines.

Theorem C09_trie_rebuild_is_replay : forall W t r, R W t r ->
  t_rebuild W t = t_replay W (t_fresh (t_generation t)) (t_allRegistrations t) (t_allSubscriptions t)
  /\ R W (t_rebuild W t)
         (replay_into W (fresh_reg (generation r)) (t_allRegistrations t) (t_allSubscriptions t)).
Proof. intros W t r H. split; [reflexivity|]. apply (sim_step_R W t r BRebuild H). Qed.
Print Assumptions C09_trie_rebuild_is_replay.

(* registered() / subscribed() (= _find_leaf) agree on related registries *)
Theorem C09_trie_find_leaf_agrees : forall W t r, R W t r ->
  (forall req p n, t_registered t req p n = registered r req p n)
  /\ (forall req p v, t_subscribed t req p v = subscribed r req p v).
Proof.
  intros W t r (_ & _ & A & Sf & _). split.
  - intros req p n. apply (A (map conv req, p, n)).
  - intros req p v. unfold t_subscribed, subscribed. f_equal. apply (Sf (map conv req, p)).
Qed.
Print Assumptions C09_trie_find_leaf_agrees.

(* the walkers over nested dictionaries (_lookup / _lookupAll / _subscriptions under the _uncached_ entry points) give
   what Model/Adapter's walkers give on the flat map, for whole resolution orders of related registries:
   the ``if comps:`` truthiness tests and the ``order >= len(byorder)`` guards are redundant.
   lookupAll: equal as finite maps name -> value (the order of names inside the result follows the
   respective enumeration and is not observable through names()/lookupAll() as sets) *)
Theorem C09_trie_walkers_equal_flat : forall W ts rs required, Forall2 (R W) ts rs ->
  (forall p n, t_uncached_lookup W ts required p n = uncached_lookup W rs required p n)
  /\ (forall p, t_uncached_subscriptions W ts required p = uncached_subscriptions W rs required p)
  /\ (forall p n, aget Nat.eqb (t_uncached_lookupAll W ts required p) n
                  = aget Nat.eqb (uncached_lookupAll W rs required p) n).
Proof.
  intros W ts rs required F. split; [|split].
  - intros p n. apply t_uncached_lookup_flat; auto.
  - intros p. apply t_uncached_subscriptions_flat; auto.
  - intros p n. apply t_uncached_lookupAll_flat; auto.
Qed.
Print Assumptions C09_trie_walkers_equal_flat.

(* _all_entries over well-formed nested dictionaries lists exactly the keys _find_leaf finds *)
Theorem C09_trie_allRegistrations_exact : forall t, TrieInv t -> forall req p n v,
  In ((req, p, n), v) (t_allRegistrations t) <-> t_registered t (map Some req) p n = Some v.
Proof.
  intros t TI req p n v. rewrite t_allRegistrations_spec; [|apply TI].
  unfold t_registered, afind. rewrite map_conv_Some. reflexivity.
Qed.
Print Assumptions C09_trie_allRegistrations_exact.

(* all histories: the nested-dictionary run and the flat run answer registered / subscribed / lookup /
   subscriptions identically, lookupAll identically as maps, allRegistrations identically as sets, and
   carry identical _provided counts, extendors and generation.
   The flat run here is the lockstep one (rebuild() replays in nested order); C09_trie_answers_ledger and
   C09_trie_unambiguous_as_flat below remove the device: the nested run is compared with the plain
   flat run [brun] and with the ledger, through rebuild(). *)
Theorem C09_trie_refines_flat : forall W ops,
  let t := t_brun W ops in
  let r := snd (lock_run W ops) in
  fst (lock_run W ops) = t /\ R W t r
  /\ (forall req p n, t_registered t req p n = registered r req p n)
  /\ (forall req p v, t_subscribed t req p v = subscribed r req p v)
  /\ (forall required p n, t_uncached_lookup W [t] required p n = uncached_lookup W [r] required p n)
  /\ (forall required p, t_uncached_subscriptions W [t] required p = uncached_subscriptions W [r] required p)
  /\ (forall required p n, aget Nat.eqb (t_uncached_lookupAll W [t] required p) n
                           = aget Nat.eqb (uncached_lookupAll W [r] required p) n)
  /\ (forall k v, In (k, v) (t_allRegistrations t) <-> In (k, v) (allRegistrations r)).
Proof. exact trie_refines_flat_lemma. Qed.
Print Assumptions C09_trie_refines_flat.

Theorem C09_trie_lockstep_is_brun_without_rebuild : forall W ops,
  forallb (fun o => match o with BRebuild => false | _ => true end) ops = true ->
  snd (lock_run W ops) = brun W ops.
Proof. exact lock_run_no_rebuild. Qed.
Print Assumptions C09_trie_lockstep_is_brun_without_rebuild.

(* ---- non-vacuity: the layout after removing the last entry of a nested container while siblings
   remain, padding of lower orders, stripping; the ambiguous lookup after rebuild() as the CODE answers it *)
Definition h_prune : list bop :=
  [BRegister [Some 1; Some 2] 3 0 (Some v1); BRegister [Some 1; None] 3 0 (Some v3);
   BRegister [Some 1; Some 2] 4 0 (Some v2); BUnregister [Some 1; Some 2] 3 0 None].

Example ex_trie_pruning :
  t_adapters (t_brun W0 h_prune)
  = [Node []; Node [];
     Node [(1, Node [(2, Node [(4, Node [(0, Leaf v2)])]); (0, Node [(3, Node [(0, Leaf v3)])])])]]
  /\ t_adapters (t_brun W0 (h_prune ++ [BUnregister [Some 1; Some 2] 4 0 (Some v2); BUnregister [Some 1; None] 3 0 None]))
     = []
  /\ R W0 (t_brun W0 h_prune) (snd (lock_run W0 h_prune)).
Proof.
  split; [reflexivity|]. split; [reflexivity|].
  destruct (trie_refines_flat_lemma W0 h_prune) as (_ & HR & _). exact HR.
Qed.

Example ex_trie_rebuild_order :
  t_allRegistrations (t_brun W0 h_amb) = nested_order
  /\ t_uncached_lookup W0 [t_brun W0 h_amb] [2] 0 0 = Some (mkV 23 23)
  /\ t_uncached_lookup W0 [t_rebuild W0 (t_brun W0 h_amb)] [2] 0 0 = Some (mkV 22 22)
  /\ t_uncached_lookup W0 [t_rebuild W0 (t_brun W0 h_amb)] [2] 4 0 = Some (mkV 22 22).
Proof. repeat split; reflexivity. Qed.

(* ====================================================================================================
   Closing the gap through rebuild(): the nested enumeration is a NoDup-key permutation of the flat
   listings that keeps each subscription key's order (Proofs/TrieEnum.v: NoDup of _all_entries key
   paths from TrieInv; invariant [sk]: a subscriber leaf dictionary only ever has the key '').
   ==================================================================================================== *)
From ZI Require Import Proofs.TrieEnum.

(* a subscriber leaf dictionary only ever has the key '' *)
Theorem C09_trie_subscriber_leaf_key : forall W ops i q x,
  length q = S (S i) -> tfind q (order_get (t_subscribers (t_brun W ops)) i) = Some x -> nth (S i) q 0 = 0.
Proof.
  intros W ops. pose proof (lock_run_R2 W ops) as [_ K]. rewrite sim_run_trie in K. exact K.
Qed.
Print Assumptions C09_trie_subscriber_leaf_key.

(* the enumerations of the nested dictionaries: keys once each, permutations of the flat listings,
   each subscription key's subscribers in order — for any related pair (hence after any history) *)
Theorem C09_trie_enumeration_is_permutation : forall W t r, R W t r -> sk t ->
  NoDup (map fst (t_allRegistrations t))
  /\ Permutation (t_allRegistrations t) (allRegistrations r)
  /\ Permutation (t_allSubscriptions t) (allSubscriptions r)
  /\ (forall k, map snd (filter (fun kv : skey * value => skey_eqb (fst kv) k) (t_allSubscriptions t))
               = sub_leaf r k).
Proof.
  intros W t r HR K. pose proof HR as ((Ba & Bs & _) & _ & _ & Sf & _).
  split; [apply t_allRegistrations_nodup; auto|].
  split; [apply (t_allRegistrations_perm W t r HR)|].
  split; [apply (t_allSubscriptions_perm W t r (conj HR K))|].
  intros k. rewrite t_allSubscriptions_proj; auto.
Qed.
Print Assumptions C09_trie_enumeration_is_permutation.

(* hence rebuild() as the CODE does it (replay in nested order) preserves both maps with exact counts:
   C09_replay_preserves applies to the real order *)
Theorem C09_trie_nested_rebuild_preserves : forall W t r r0, R W t r -> sk t -> storage_empty r0 ->
  let r' := replay_into W r0 (t_allRegistrations t) (t_allSubscriptions t) in
  (forall k, aget akey_eqb (adapters r') k = aget akey_eqb (adapters r) k)
  /\ (forall k, sub_leaf r' k = sub_leaf r k)
  /\ (forall q, cnt_get (provided_cnt r') q = live_count r q).
Proof.
  intros W t r r0 HR K E r'.
  destruct (nested_replay_preserves W t r r0 (conj HR K) E) as (_ & [A S] & C). auto.
Qed.
Print Assumptions C09_trie_nested_rebuild_preserves.

(* the nested-dictionary run answers the LEDGER, for all histories including rebuild():
   registered, subscribed, allRegistrations (exactly the live keys, each once), allSubscriptions (per key
   the live subscribers in order); its listings are permutations of the plain flat run's *)
Theorem C09_trie_answers_ledger : forall W ops,
  let t := t_brun W ops in
  (identity_ok (avalues ops) -> forall req p n, t_registered t req p n = aledger ops (akey_of req p n))
  /\ (forall req p v, t_subscribed t req p v = existsb (fun x => v_eq x v) (sledger ops (skey_of req p)))
  /\ (identity_ok (avalues ops) -> forall k v, In (k, v) (t_allRegistrations t) <-> aledger ops k = Some v)
  /\ (forall k, map snd (filter (fun kv : skey * value => skey_eqb (fst kv) k) (t_allSubscriptions t)) = sledger ops k)
  /\ NoDup (map fst (t_allRegistrations t))
  /\ Permutation (t_allRegistrations t) (allRegistrations (brun W ops))
  /\ Permutation (t_allSubscriptions t) (allSubscriptions (brun W ops)).
Proof. exact trie_ledger_lemma. Qed.
Print Assumptions C09_trie_answers_ledger.

(* ... and every unambiguous lookup / subscriptions query exactly as the plain flat run [brun] does,
   through rebuild() (no lockstep device) *)
Theorem C09_trie_unambiguous_as_flat : forall W ops required, identity_ok (avalues ops) ->
  (forall p n, unamb_lookup W (aledger ops) required p n ->
     t_uncached_lookup W [t_brun W ops] required p n = uncached_lookup W [brun W ops] required p n)
  /\ (world_ok W -> forall p,
        match p with Some p' => unamb_subs W (sledger ops) required p' | None => True end ->
        t_uncached_subscriptions W [t_brun W ops] required p = uncached_subscriptions W [brun W ops] required p).
Proof. exact trie_unambiguous_lemma. Qed.
Print Assumptions C09_trie_unambiguous_as_flat.

(* FOR CONSUMERS (C04/C05/C06/C07 rebuild streams): the order of a replay is irrelevant for unambiguous
   queries.  For a registry r satisfying the invariant of reachable storages and any two listings that are
   permutations of r's listings keeping each subscription key's order (the flat order of Model/Adapter.rebuild
   and the nested order of the code are two such), the two replayed registries answer every unambiguous
   lookup identically — and as r itself — and every unambiguous subscriptions query identically. *)
Theorem C09_rebuild_order_irrelevant_for_unambiguous :
  forall W r r1 r2 regs1 subs1 regs2 subs2 required,
  inv W r -> storage_empty r1 -> storage_empty r2 ->
  Permutation regs1 (allRegistrations r) -> Permutation subs1 (allSubscriptions r) ->
  (forall k, map snd (filter (fun kv => skey_eqb (fst kv) k) subs1) = sub_leaf r k) ->
  Permutation regs2 (allRegistrations r) -> Permutation subs2 (allSubscriptions r) ->
  (forall k, map snd (filter (fun kv => skey_eqb (fst kv) k) subs2) = sub_leaf r k) ->
  (forall p n, unamb_lookup W (fun k => aget akey_eqb (adapters r) k) required p n ->
     uncached_lookup W [replay_into W r1 regs1 subs1] required p n
     = uncached_lookup W [replay_into W r2 regs2 subs2] required p n
     /\ uncached_lookup W [replay_into W r1 regs1 subs1] required p n = uncached_lookup W [r] required p n)
  /\ (world_ok W -> forall p,
        match p with Some p' => unamb_subs W (fun k => sub_leaf r k) required p' | None => True end ->
        uncached_subscriptions W [replay_into W r1 regs1 subs1] required p
        = uncached_subscriptions W [replay_into W r2 regs2 subs2] required p).
Proof. exact order_irrelevant_lemma. Qed.
Print Assumptions C09_rebuild_order_irrelevant_for_unambiguous.

(* the hypothesis [inv W r] above holds for every registry of every system reachable in Model/RegSys
   (so the theorem applies to the rs_reg of any RegSys history), as does NoDup of the extendors lists *)
Theorem C09_regsys_reachable_inv : forall W call ops i,
  inv W (rs_reg (get (final W call [] ops) i))
  /\ (world_ok W -> nd (rs_reg (get (final W call [] ops) i))).
Proof. exact regsys_reachable_inv. Qed.
Print Assumptions C09_regsys_reachable_inv.

(* non-vacuity of the order-irrelevance theorem: flat order and nested order of h_amb *)
Example ex_order_irrelevant :
  inv W0 (brun W0 h_amb) /\ storage_empty (fresh_reg 0)
  /\ Permutation nested_order (allRegistrations (brun W0 h_amb))
  /\ nested_order <> allRegistrations (brun W0 h_amb)
  /\ t_allRegistrations (t_brun W0 h_amb) = nested_order
  /\ uncached_lookup W0 [replay_into W0 (fresh_reg 0) nested_order (allSubscriptions (brun W0 h_amb))] [2] 4 0
     = uncached_lookup W0 [rebuild W0 (brun W0 h_amb)] [2] 4 0.
Proof.
  split; [apply inv_brun|]. split; [repeat split|]. split; [apply ex_ambiguous_lookup_may_differ|].
  split; [discriminate|]. split; reflexivity.
Qed.
