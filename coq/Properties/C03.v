(* Property C03 — Resolution orders are valid linearizations and equal C3 whenever C3 exists.
   Only statements here; proofs are in Proofs/Ro.v.  Model: Model/Ro.v (ro.py and
   Specification._calculate_sro).  Spec: Spec/C3.v (textbook C3 [c3_lin] / [merge], [Lin],
   [ValidLin], [rooted]).

   Hierarchies: [g : graph] with ordered base lists, [bases g x].  [wfb rk g = true] is the
   boolean well-formedness: every base has a smaller rank [rk] (acyclic) and base lists do not
   repeat an entry.  [fuel] only has to exceed the rank of the node asked about.
   [root] is Interface; [rooted root (bases g)] gives every base-less specification the root as
   base (zope.interface appends Interface to every __sro__). *)
From Coq Require Import List Arith Bool.
Import ListNotations.
From ZI Require Import Lib.Py Model.Ro Spec.C3 Proofs.Ro Gen.RoKernel Proofs.RoKernel.

(* (a) C3._merge terminates within the fuel given: the out-of-fuel answer never occurs *)
Theorem C03_merge_fuel_enough : forall seqs, c3_merge seqs <> MFuel.
Proof. exact c3_merge_fuel_enough. Qed.
Print Assumptions C03_merge_fuel_enough.

(* (b) a successful merge lists every element of the inputs exactly once and keeps the relative
   order of every input sequence *)
Theorem C03_merge_is_interleaving : forall seqs l,
  Forall (@NoDup nat) seqs -> c3_merge seqs = MOk l ->
  NoDup l /\ (forall y, In y l <-> exists s, In s seqs /\ In y s) /\
  (forall s, In s seqs -> Subseq s l).
Proof. exact c3_merge_sound. Qed.
Print Assumptions C03_merge_is_interleaving.

(* (c) "remove the chosen base everywhere" (ro.py) = "remove it from the heads" (textbook C3) on
   duplicate-free sequences: same result, and failure exactly when the textbook merge fails *)
Theorem C03_merge_eq_textbook : forall seqs, Forall (@NoDup nat) seqs ->
  c3_merge seqs = match merge seqs with Some l => MOk l | None => MBad end.
Proof. exact merge_eq_textbook_thm. Qed.
Print Assumptions C03_merge_eq_textbook.

(* the textbook merge function is the fuel-free textbook merge relation *)
Theorem C03_textbook_merge_relation : forall seqs l, merge seqs = Some l <-> Merge seqs l.
Proof. exact merge_iff_Merge. Qed.
Print Assumptions C03_textbook_merge_relation.

(* the Spec itself: a C3 linearization is a valid linearization, keeps the local base order and
   extends the linearization of every base (monotonicity) *)
Theorem C03_c3_is_valid_lin : forall B rk, wf rk B -> forall fuel x l,
  c3_lin B fuel x = Some l ->
  Lin B x l /\ Subseq (B x) l /\
  forall b, In b (B x) -> exists lb, c3_lin B fuel b = Some lb /\ Subseq lb l.
Proof. exact c3_lin_lin. Qed.
Print Assumptions C03_c3_is_valid_lin.

(* … and its answer does not depend on the fuel: [None] means "no C3 linearization exists" *)
Theorem C03_c3_fuel_irrelevant : forall B rk, wf rk B -> forall f1 f2 x,
  rk x < f1 -> rk x < f2 -> c3_lin B f1 x = c3_lin B f2 x.
Proof. exact c3_lin_fuel. Qed.
Print Assumptions C03_c3_fuel_irrelevant.

(* ro.ro(S) (strict or not) is the C3 linearization whenever one exists *)
Theorem C03_ro_eq_c3 : forall rk g x fuel l, wfb rk g = true -> rk x < fuel ->
  c3_lin (bases g) fuel x = Some l -> forall strict, ro strict false fuel g x = ROk l false.
Proof. exact ro_eq_c3_thm. Qed.
Print Assumptions C03_ro_eq_c3.

(* strict mode raises exactly when no C3 linearization exists *)
Theorem C03_strict_raises_iff : forall rk g x fuel, wfb rk g = true -> rk x < fuel ->
  forall use_legacy,
  (ro true use_legacy fuel g x = RRaise <-> c3_lin (bases g) fuel x = None).
Proof. exact strict_raises_iff_thm. Qed.
Print Assumptions C03_strict_raises_iff.

(* ro.is_consistent answers, and answers True exactly when a C3 linearization exists *)
Theorem C03_is_consistent_iff : forall rk g x fuel, wfb rk g = true -> rk x < fuel ->
  exists b, is_consistent fuel g x = Some b /\
            (b = true <-> exists l, c3_lin (bases g) fuel x = Some l).
Proof. exact is_consistent_iff_thm. Qed.
Print Assumptions C03_is_consistent_iff.

(* non-strict ro.ro(S) always answers with a valid linearization, consistent or not *)
Theorem C03_ro_valid : forall rk g x fuel, wfb rk g = true -> rk x < fuel ->
  exists m i, ro false false fuel g x = ROk m i /\ Lin (bases g) x m.
Proof. exact ro_valid_thm. Qed.
Print Assumptions C03_ro_valid.

(* (d) the legacy order (use_legacy_ro / the fallback) is a valid linearization too *)
Theorem C03_legacy_valid : forall rk g x fuel, wfb rk g = true -> rk x < fuel ->
  Lin (bases g) x (legacy_ro fuel g x) /\
  exists i, ro false true fuel g x = ROk (legacy_ro fuel g x) i.
Proof. exact legacy_valid_thm. Qed.
Print Assumptions C03_legacy_valid.

(* every __sro__ starts with the specification, lists each ancestor (and Interface) exactly once,
   puts every specification before all of its bases and ends with Interface *)
Theorem C03_sro_valid : forall rk g root x fuel,
  wfb rk g = true -> bases g root = [] -> rk x < fuel ->
  ValidLin (rooted root (bases g)) root x (fresh_sro fuel root g x).
Proof. exact sro_valid_thm. Qed.
Print Assumptions C03_sro_valid.

(* whenever the hierarchy (with Interface under everything) has a C3 linearization, __sro__ is it *)
Theorem C03_sro_eq_c3_rooted : forall rk g root x fuel fuel' l,
  wfb rk g = true -> bases g root = [] -> rk x < fuel ->
  c3_lin (rooted root (bases g)) fuel' x = Some l -> fresh_sro fuel root g x = l.
Proof. exact sro_eq_c3_rooted_thm. Qed.
Print Assumptions C03_sro_eq_c3_rooted.

(* (e) the "Interface last" fix-up: ends with the root, keeps the order of everything else, is the
   identity when the root is already last, keeps duplicate-freeness and adds only the root *)
Theorem C03_root_last : forall root l,
  (l <> [] -> exists l', root_last root l = l' ++ [root]) /\
  filter (fun y => negb (Nat.eqb y root)) (root_last root l) = filter (fun y => negb (Nat.eqb y root)) l /\
  (forall l', l = l' ++ [root] -> root_last root l = l) /\
  (NoDup l -> NoDup (root_last root l)) /\
  (l <> [] -> forall y, In y (root_last root l) <-> In y l \/ y = root).
Proof. exact root_last_thm. Qed.
Print Assumptions C03_root_last.

(* (f) the single-base short cut returns what the merge would have computed *)
Theorem C03_single_base_shortcut_sound : forall strict x b t inc legacy,
  NoDup (b :: t) -> ~ In x (b :: t) ->
  c3_merge ([[x]] ++ [b :: t] ++ [[b]]) = MOk (x :: b :: t) /\
  c3_node strict x [b] [b :: t] inc legacy = ROk (x :: b :: t) inc.
Proof. exact single_base_shortcut_thm. Qed.
Print Assumptions C03_single_base_shortcut_sound.

(* __iro__ is __sro__ restricted to interfaces: same order, no duplicates, exactly the interfaces *)
Theorem C03_iro_is_filter : forall (is_iface : nat -> bool) sro, NoDup sro ->
  NoDup (iro_of is_iface sro) /\ Subseq (iro_of is_iface sro) sro /\
  forall y, In y (iro_of is_iface sro) <-> In y sro /\ is_iface y = true.
Proof. exact iro_is_filter_thm. Qed.
Print Assumptions C03_iro_is_filter.

(* the executable oracle of Tie/C03.v only accepts valid linearizations *)
Theorem C03_oracle_sound : forall B rk, wf rk B -> forall fuel root x l,
  rk x < fuel -> valid_linb B fuel root x l = true -> ValidLin B root x l.
Proof. exact valid_linb_sound. Qed.
Print Assumptions C03_oracle_sound.

(* strict creation (ZOPE_INTERFACE_STRICT_IRO=1): computing the __sro__ of a specification whose
   bases all have a C3 order raises exactly when the specification itself has none, and otherwise
   yields its C3 order *)
Theorem C03_strict_sro_raises_iff : forall rk g root x f F,
  wfb rk g = true -> bases g root = [] -> rk x < S f -> rk x < F ->
  (forall b, In b (bases g x) -> c3_lin (rooted root (bases g)) (S F) b <> None) ->
  calc_sro true root (S f) g (fresh_sro f root g) x =
  match c3_lin (rooted root (bases g)) (S F) x with Some l => ROk l false | None => RRaise end.
Proof. exact strict_sro_thm. Qed.
Print Assumptions C03_strict_sro_raises_iff.

(* ZOPE_INTERFACE_USE_LEGACY_IRO=1: the legacy order with Interface forced last is still a valid
   linearization ending with Interface *)
Theorem C03_legacy_sro_valid : forall rk g root x fuel,
  wfb rk g = true -> bases g root = [] -> x <> root -> rk x < fuel ->
  ValidLin (rooted root (bases g)) root x (root_last root (legacy_ro fuel g x)).
Proof. exact legacy_sro_thm. Qed.
Print Assumptions C03_legacy_sro_valid.

(* ---------------------------------------------------------------- the model is the source text
   coq/Gen/RoKernel.v is regenerated from ro.py / interface.py on every run by the fail-closed
   translator harness/translate/ro_kernel.py; every generated definition equals the hand-written
   definition of Model/Ro.v the theorems above are about. *)

Theorem C03_generated_can_choose_base_eq_model : forall base seqs,
  gen_can_choose_base base seqs = can_choose base seqs.
Proof. exact gen_can_choose_base_eq. Qed.
Print Assumptions C03_generated_can_choose_base_eq_model.

(* base = None on the first pass of the loop (drops the empty sequences), then the chosen base *)
Theorem C03_generated_nonempty_bases_ignoring_eq_model : forall seqs,
  gen_nonempty_bases_ignoring seqs None = filter nonempty seqs /\
  forall b, gen_nonempty_bases_ignoring seqs (Some b) = remove_everywhere b seqs.
Proof. intros seqs. split; [apply gen_nonempty_bases_ignoring_none|intros b; apply gen_nonempty_bases_ignoring_some]. Qed.
Print Assumptions C03_generated_nonempty_bases_ignoring_eq_model.

(* on non-empty sequences (what _nonempty_bases_ignoring leaves) no IndexError, and the model's choice *)
Theorem C03_generated_find_next_C3_base_eq_model : forall seqs,
  Forall (fun s : list nat => s <> []) seqs -> gen_find_next_C3_base seqs = Ret (find_next seqs).
Proof. exact gen_find_next_C3_base_eq. Qed.
Print Assumptions C03_generated_find_next_C3_base_eq_model.

Theorem C03_generated_legacy_mergeOrderings_eq_model : forall l fuel g x,
  gen_legacy_mergeOrderings [l] = keep_last l /\
  gen_legacy_ro (legacy_flatten fuel g x) = legacy_ro fuel g x.
Proof. intros. split; [apply gen_legacy_mergeOrderings_eq|apply gen_legacy_ro_eq]. Qed.
Print Assumptions C03_generated_legacy_mergeOrderings_eq_model.

(* _legacy_flatten + _legacy_mergeOrderings = the legacy order of the model, for every well-formed
   hierarchy: the non-strict fallback branch and use_legacy_ro are tied to the source text too.
   (n: loop fuel of the generated work-list, anything above the length of the flattening) *)
Theorem C03_generated_legacy_ro_eq_model : forall rk g x fuel n,
  wfb rk g = true -> rk x < fuel -> length (legacy_flatten fuel g x) < n ->
  gen_legacy_flatten n (bases g) x = Some (legacy_flatten fuel g x) /\
  gen_legacy_ro_of n (bases g) x = Some (legacy_ro fuel g x).
Proof.
  intros rk g x fuel n W H L. split.
  - apply (gen_legacy_flatten_eq g rk (wfb_wf _ _ W)); auto.
  - apply (gen_legacy_ro_of_eq g rk (wfb_wf _ _ W)); auto.
Qed.
Print Assumptions C03_generated_legacy_ro_eq_model.

(* C3._merge (with _choose_next_base, both _guess_next_base and the _UseLegacyRO handler) *)
Theorem C03_generated_merge_eq_model : forall strict legacy tree,
  gen_merge (S (total_len (filter nonempty tree))) strict legacy tree =
  match c3_merge tree with
  | MOk l => MroRet l false
  | MBad => if strict then MroRaise InconsistentResolutionOrderError else MroRet legacy true
  | MFuel => MroFuel
  end.
Proof. exact gen_merge_eq. Qed.
Print Assumptions C03_generated_merge_eq_model.

(* C3.__init__ (base_tree, single-base short cut), mro() and had_inconsistency: one C3 object *)
Theorem C03_generated_c3_node_eq_model : forall strict x bs base_mros bases_inc legacy,
  length base_mros = length bs ->
  c3_node strict x bs base_mros bases_inc legacy =
  match gen_mro (S (total_len (filter nonempty ([[x]] ++ base_mros ++ [bs])))) strict x bs base_mros legacy with
  | MroRet m direct => ROk m (gen_had_inconsistency direct bases_inc)
  | MroRaise _ => RRaise
  | MroFuel => RFuel
  end.
Proof. exact gen_c3_node_eq. Qed.
Print Assumptions C03_generated_c3_node_eq_model.

Theorem C03_generated_had_inconsistency_eq_model : forall rs ms inc,
  (forall d b, gen_had_inconsistency d b = orb d b) /\
  (collect rs = inl (ms, inc) ->
   inc = gen_bases_had_inconsistency (map (fun r => match r with ROk _ i => i | _ => false end) rs)).
Proof. intros. split; [reflexivity|apply gen_bases_had_inconsistency_eq]. Qed.
Print Assumptions C03_generated_had_inconsistency_eq_model.

(* ro(): whatever log_changed is, the model's ro is the generated selection applied to the resolver's answer *)
Theorem C03_generated_ro_eq_model : forall log_changed strict use_legacy fuel g x,
  ro strict use_legacy fuel g x =
  match resolve strict fuel g x with
  | ROk m i => ROk (gen_ro log_changed use_legacy m (legacy_ro fuel g x)) i
  | r => r
  end.
Proof. exact gen_ro_eq. Qed.
Print Assumptions C03_generated_ro_eq_model.

(* is_consistent: non-strict resolver, the flag is read after the order was computed *)
Theorem C03_generated_is_consistent_eq_model :
  gen_is_consistent_strict = false /\
  (forall direct binc, gen_is_consistent direct binc = negb (gen_had_inconsistency direct binc)) /\
  forall fuel g x, is_consistent fuel g x =
    match resolve gen_is_consistent_strict fuel g x with ROk _ i => Some (negb i) | _ => None end.
Proof.
  split; [apply gen_is_consistent_eq|]. split; [apply gen_is_consistent_eq|exact gen_is_consistent_model].
Qed.
Print Assumptions C03_generated_is_consistent_eq_model.

(* Specification._calculate_sro: the "Interface last" fix-up *)
Theorem C03_generated_root_fixup_eq_model : forall root sro,
  gen_root_fixup (Some root) sro = root_last root sro.
Proof. exact gen_root_fixup_eq. Qed.
Print Assumptions C03_generated_root_fixup_eq_model.

(* ---------------------------------------------------------------- non-vacuity witnesses *)
(* Interface = 0.  Diamond: 1(0) 2(1) 3(1) 4(2,3).  Inconsistent: 1(0) 2(1) 3(1,2). *)
Definition g_diamond : graph := [(0, []); (1, [0]); (2, [1]); (3, [1]); (4, [2; 3])].
Definition g_bad : graph := [(0, []); (1, [0]); (2, [1]); (3, [1; 2]); (4, [3])].
Definition rk_id (x : nat) : nat := x.
Definition g_rootfirst : graph := [(0, []); (1, []); (2, [0; 1])].

Example ex_wf_diamond : wfb rk_id g_diamond = true /\ bases g_diamond 0 = [].
Proof. split; reflexivity. Qed.
Example ex_wf_bad : wfb rk_id g_bad = true /\ bases g_bad 0 = [].
Proof. split; reflexivity. Qed.
(* the Prop-level hypothesis [wf] of the Spec theorems is met by both, also when rooted *)
Example ex_wf_prop : wf rk_id (bases g_diamond) /\ wf rk_id (bases g_bad)
  /\ wf (rk_rooted rk_id 0) (rooted 0 (bases g_bad)).
Proof.
  split; [apply wfb_wf; reflexivity|]. split; [apply wfb_wf; reflexivity|].
  apply wf_rooted. apply wfb_wf; reflexivity.
Qed.

(* consistent case: C3 exists, and the model gives it in every mode *)
Example ex_diamond_c3 : c3_lin (bases g_diamond) 5 4 = Some [4; 2; 3; 1; 0].
Proof. vm_compute. reflexivity. Qed.
Example ex_diamond_ro : ro true false 5 g_diamond 4 = ROk [4; 2; 3; 1; 0] false
  /\ ro false false 5 g_diamond 4 = ROk [4; 2; 3; 1; 0] false
  /\ is_consistent 5 g_diamond 4 = Some true
  /\ fresh_sro 5 0 g_diamond 4 = [4; 2; 3; 1; 0]
  /\ c3_lin (rooted 0 (bases g_diamond)) 5 4 = Some [4; 2; 3; 1; 0].
Proof. vm_compute. repeat split; reflexivity. Qed.

(* inconsistent case: no C3, strict raises (also for the subclass 4), the flag is set, the
   fallback is the legacy order and still a valid linearization ending with Interface *)
Example ex_bad_c3 : c3_lin (bases g_bad) 5 3 = None /\ c3_lin (bases g_bad) 5 4 = None
  /\ c3_lin (rooted 0 (bases g_bad)) 5 3 = None.
Proof. vm_compute. repeat split; reflexivity. Qed.
Example ex_bad_ro : ro true false 5 g_bad 3 = RRaise /\ ro true true 5 g_bad 4 = RRaise
  /\ ro false false 5 g_bad 3 = ROk [3; 2; 1; 0] true
  /\ ro false true 5 g_bad 3 = ROk [3; 2; 1; 0] true
  /\ is_consistent 5 g_bad 3 = Some false /\ is_consistent 5 g_bad 4 = Some false
  /\ fresh_sro 5 0 g_bad 3 = [3; 2; 1; 0] /\ fresh_sro 5 0 g_bad 4 = [4; 3; 2; 1; 0]
  /\ valid_linb (rooted 0 (bases g_bad)) 5 0 4 (fresh_sro 5 0 g_bad 4) = true.
Proof. vm_compute. repeat split; reflexivity. Qed.

(* strict creation: node 3 of the inconsistent hierarchy raises (its bases 1, 2 have C3 orders),
   node 4 of the diamond does not *)
Example ex_strict_sro :
  calc_sro true 0 5 g_bad (fresh_sro 4 0 g_bad) 3 = RRaise
  /\ (forall b, In b (bases g_bad 3) -> c3_lin (rooted 0 (bases g_bad)) 5 b <> None)
  /\ calc_sro true 0 5 g_diamond (fresh_sro 4 0 g_diamond) 4 = ROk [4; 2; 3; 1; 0] false.
Proof.
  split; [vm_compute; reflexivity|]. split; [|vm_compute; reflexivity].
  intros b [<-|[<-|[]]]; vm_compute; discriminate.
Qed.

(* legacy setting on the inconsistent hierarchy and on "Interface first" *)
Example ex_legacy_sro : root_last 0 (legacy_ro 5 g_bad 4) = [4; 3; 2; 1; 0]
  /\ legacy_ro 3 g_rootfirst 2 = [2; 0; 1] /\ root_last 0 (legacy_ro 3 g_rootfirst 2) = [2; 1; 0].
Proof. vm_compute. repeat split; reflexivity. Qed.

(* merges: a successful one, a failing one, and duplicate-free inputs *)
Example ex_merge_ok : c3_merge [[4]; [2; 1; 0]; [3; 1; 0]; [2; 3]] = MOk [4; 2; 3; 1; 0]
  /\ merge [[4]; [2; 1; 0]; [3; 1; 0]; [2; 3]] = Some [4; 2; 3; 1; 0]
  /\ Forall (@NoDup nat) [[4]; [2; 1; 0]; [3; 1; 0]; [2; 3]].
Proof.
  split; [vm_compute; reflexivity|]. split; [vm_compute; reflexivity|].
  repeat constructor; cbn; intuition discriminate.
Qed.
Example ex_merge_bad : c3_merge [[3]; [1; 0]; [2; 1; 0]; [1; 2]] = MBad
  /\ merge [[3]; [1; 0]; [2; 1; 0]; [1; 2]] = None.
Proof. vm_compute. split; reflexivity. Qed.

(* "remove everywhere" really differs from "remove from heads" once a sequence repeats an
   element, so the duplicate-freeness hypothesis of (b)/(c) is needed *)
Example ex_merge_dup : c3_merge [[1; 1]] = MOk [1] /\ merge [[1; 1]] = None.
Proof. vm_compute. split; reflexivity. Qed.

(* Interface as an explicit non-last base, 2(0, 1) with base-less 1: the declared hierarchy has a
   C3 order (which ro.ro returns) but with Interface under everything there is none; __sro__ is
   still valid and ends with Interface *)
Example ex_rootfirst : wfb rk_id g_rootfirst = true
  /\ ro true false 3 g_rootfirst 2 = ROk [2; 0; 1] false
  /\ c3_lin (rooted 0 (bases g_rootfirst)) 4 2 = None
  /\ fresh_sro 3 0 g_rootfirst 2 = [2; 1; 0]
  /\ valid_linb (rooted 0 (bases g_rootfirst)) 4 0 2 [2; 1; 0] = true.
Proof. vm_compute. repeat split; reflexivity. Qed.

(* root fix-up and short cut *)
Example ex_root_last : root_last 0 [3; 0; 2] = [3; 2; 0] /\ root_last 0 [3; 2; 0] = [3; 2; 0]
  /\ root_last 0 [5] = [5; 0].
Proof. vm_compute. repeat split; reflexivity. Qed.
Example ex_shortcut : c3_node true 2 [1] [[1; 0]] false [] = ROk [2; 1; 0] false
  /\ c3_merge ([[2]] ++ [[1; 0]] ++ [[1]]) = MOk [2; 1; 0].
Proof. vm_compute. split; reflexivity. Qed.
(* generated kernels on the witnesses *)
Example ex_generated : gen_can_choose_base 1 [[1; 0]; [2; 1; 0]; [1; 2]] = false
  /\ gen_merge 20 false [9] [[3]; [1; 0]; [2; 1; 0]; [1; 2]] = MroRet [9] true
  /\ gen_merge 20 true [9] [[3]; [1; 0]; [2; 1; 0]; [1; 2]] = MroRaise InconsistentResolutionOrderError
  /\ gen_merge 20 true [] [[4]; [2; 1; 0]; [3; 1; 0]; [2; 3]] = MroRet [4; 2; 3; 1; 0] false
  /\ gen_root_fixup (Some 0) [3; 0; 2] = [3; 2; 0]
  /\ gen_legacy_mergeOrderings [[4; 2; 1; 0; 3; 1; 0]] = [4; 2; 3; 1; 0]
  /\ Forall (fun s : list nat => s <> []) [[3]; [1; 0]].
Proof.
  repeat (split; [vm_compute; reflexivity|]). repeat constructor; discriminate.
Qed.
Example ex_generated_legacy : gen_legacy_flatten 8 (bases g_diamond) 4 = Some [4; 2; 1; 0; 3; 1; 0]
  /\ gen_legacy_ro_of 8 (bases g_diamond) 4 = Some [4; 2; 3; 1; 0]
  /\ legacy_flatten 5 g_diamond 4 = [4; 2; 1; 0; 3; 1; 0]
  /\ gen_legacy_ro_of 8 (bases g_bad) 3 = Some [3; 2; 1; 0].
Proof. vm_compute. repeat split; reflexivity. Qed.
Example ex_iro : iro_of (fun y => Nat.even y) [4; 3; 2; 1; 0] = [4; 2; 0].
Proof. reflexivity. Qed.
