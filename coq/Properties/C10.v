(* Property C10 — The C accelerator is observationally equivalent to the Python reference.
   Only statements here.  For every twin kernel there are two models, one written from the C text
   ([c_...]) and one from the Python text ([py_...]); each theorem states that the two give the
   same answer for ALL inputs and ALL states of the caches / slots involved (everything a kernel
   reads from outside — attribute reads, isinstance answers, what foreign objects answer — is part
   of the input description).  Where the two texts really differ the difference is stated as a
   [_refuted] theorem with the witness.

   Own twins: Model/CTwins.v, Proofs/CTwins.v.  Re-exported twins, proved inside the property that
   owns the model: comparison (Model/Order.v, C12), the lookup entry points (Model/CLookup.v, C08),
   calling an interface (Model/Adapt.v, C14).

   What is NOT covered by a theorem (compared differentially on generated API programs only,
   harness/props/c10.py): argument parsing, the attribute protocol / slot wrappers around the
   kernels, the Python code both implementations share. *)
From Coq Require Import List NArith Bool ZArith Arith Lia.
Import ListNotations.
From ZI Require Import Model.Adapt Proofs.Adapt.
From ZI Require Import Model.Ro Model.Adapter Model.Lookup Model.CLookup Spec.EntryPoints Proofs.CLookup.
From ZI Require Import Model.CVerify Proofs.CVerify.
(* imported last: Model/CTwins.v and Model/Adapt.v both call their outcome type [res] *)
From ZI Require Import Lib.Str Lib.Util Model.Order Proofs.Order Model.CTwins Proofs.CTwins.

(* ---------------------------------------------------------------- 1. membership in the implied set *)

(* SB_extends = SpecificationBase.isOrExtends: whatever the _implied slot holds (unset, None, a
   dict) and whatever hashing the operand does *)
Theorem C10_SB_extends_eq_py : forall slot k, c_SB_extends slot k = py_isOrExtends slot k.
Proof. exact SB_extends_eq_py_lemma. Qed.
Print Assumptions C10_SB_extends_eq_py.

(* calling a specification, any number of positional arguments *)
Theorem C10_SB_call_eq_py : forall slot args, c_SB_call slot args = py_spec_call slot args.
Proof. exact SB_call_eq_py_lemma. Qed.
Print Assumptions C10_SB_call_eq_py.

(* spec.providedBy(ob) / spec.implementedBy(cls) / the provided-check of __adapt__: whatever
   providedBy / implementedBy handed back (an exception, one of our specifications with or without
   an assigned _implied, a foreign object with or without an _implied attribute, callable or not) *)
Theorem C10_SB_providedBy_eq_py : forall decl self,
  c_SB_providedBy decl self = py_spec_providedBy decl self /\
  c_IB_adapt_check decl self = py_adapt_check decl self.
Proof. intros; split; apply SB_providedBy_eq_py_lemma. Qed.
Print Assumptions C10_SB_providedBy_eq_py.

(* ---------------------------------------------------------------- 2. the cached hash *)

(* any number of successive hash() calls on a fresh interface, whether the (name, module) tuple
   hashes to a value (0 included: C then recomputes, Python reads its cache) or raises *)
Theorem C10_hash_eq_py : forall th n name_set module_set,
  c_hash_run th n (mkCH name_set module_set 0) = py_hash_run th n (mkPH name_set module_set None).
Proof. exact hash_c_eq_py_lemma. Qed.
Print Assumptions C10_hash_eq_py.

(* ---------------------------------------------------------------- 3. implementedBy *)

(* the C fast path returns exactly what the Python function returns, for every class description
   in which a class object's __dict__ is its tp_dict *)
Theorem C10_implementedBy_eq_py : forall d, cls_regular d = true -> c_implementedBy d = py_implementedBy d.
Proof. exact implementedBy_c_eq_py_lemma. Qed.
Print Assumptions C10_implementedBy_eq_py.

(* latent difference: a metaclass that makes reading cls.__dict__ raise, on a class whose tp_dict
   already holds an Implements: C returns it, Python raises *)
Theorem C10_implementedBy_metaclass_dict_refuted :
  exists d, cls_regular d = false /\ c_implementedBy d = IRet 9 /\ py_implementedBy d = IRaise 2.
Proof. exists (mkClsD false true (DExc 2) (ESpec 9 true) None). repeat split. Qed.
Print Assumptions C10_implementedBy_metaclass_dict_refuted.

(* ---------------------------------------------------------------- 4. getObjectSpecification / providedBy *)

Theorem C10_getObjectSpecification_eq_py : forall d, c_getObjectSpecification d = py_getObjectSpecification d.
Proof. exact getObjectSpecification_c_eq_py_lemma. Qed.
Print Assumptions C10_getObjectSpecification_eq_py.

(* every object description (each attribute read absent / raising AttributeError / raising
   something else / yielding a specification or an odd value, __provides__ inherited from the class or
   not) except an isinstance(ob, super) that raises AttributeError *)
Theorem C10_providedBy_eq_py : forall d, od_super d <> SupAttrErr -> c_providedBy d = py_providedBy d.
Proof.
  intros d H. apply providedBy_c_eq_py_lemma. unfold pb_regular.
  destruct (od_super d); try reflexivity. exfalso; apply H; reflexivity.
Qed.
Print Assumptions C10_providedBy_eq_py.

(* the latent difference (not reachable in CPython, whose isinstance swallows that AttributeError) *)
Theorem C10_providedBy_isinstance_refuted :
  exists d, od_super d = SupAttrErr /\ c_providedBy d = Ok 6 /\ py_providedBy d = Ok 7.
Proof.
  exists (mkObjD SupAttrErr (Ok 5) true ExtPresent (Ok 7) true (Ok 3) (Ok 8) (Ok 4) (Ok 6) 0).
  repeat split.
Qed.
Print Assumptions C10_providedBy_isinstance_refuted.

(* ---------------------------------------------------------------- 5. descriptors *)

Theorem C10_OSD_descr_get_eq_py : forall d, c_OSD_descr_get d = py_osd_get d.
Proof. exact OSD_descr_get_eq_py_lemma. Qed.
Print Assumptions C10_OSD_descr_get_eq_py.

Theorem C10_CPB_descr_get_eq_py : forall d, c_CPB_descr_get d = py_cpb_get d.
Proof. exact CPB_descr_get_eq_py_lemma. Qed.
Print Assumptions C10_CPB_descr_get_eq_py.

(* ---------------------------------------------------------------- 6. comparison *)

(* re-export (C12): the C rich-compare slot equals the Python methods on every operator and every
   pair of operands with string names (interfaces, class specifications, None, foreign objects
   with or without __name__ / __module__), and so does every comparison expression *)
Theorem C10_richcompare_eq_py : forall o a b, is_iface a -> c_richcompare o a b = py_method o a b.
Proof. exact c_richcompare_eq_py_lemma. Qed.
Print Assumptions C10_richcompare_eq_py.

Theorem C10_binop_c_eq_py : forall uc o a b, binop uc o a b = binop false o a b.
Proof. exact binop_uc. Qed.
Print Assumptions C10_binop_c_eq_py.

(* names that need not be strings: equal whenever the pair of names that decides the comparison
   (the modules if the names are equal, else the names) is comparable *)
Theorem C10_richcompare_x_eq_py : forall o n1 m1 n2 m2,
  pyname_cmp (fst (deciding n1 m1 n2 m2)) (snd (deciding n1 m1 n2 m2)) <> None ->
  c_richcompare_x o n1 m1 n2 m2 = py_method_x o n1 m1 n2 m2.
Proof. exact richcompare_x_eq_py_lemma. Qed.
Print Assumptions C10_richcompare_x_eq_py.

(* known finding G8: I == N() / I != N() with N().__name__ = 5 (or an equal name and a module that
   is not a string): the C slot answers False / True, the Python methods raise TypeError *)
Theorem C10_richcompare_nonstr_refuted :
  exists n1 m1 n2 m2,
    c_richcompare_x OpEq n1 m1 n2 m2 = XBool false /\ py_method_x OpEq n1 m1 n2 m2 = XTypeErr /\
    c_richcompare_x OpNe n1 m1 n2 m2 = XBool true /\ py_method_x OpNe n1 m1 n2 m2 = XTypeErr.
Proof. exists (VStr [73%N]), (VStr [109%N]), (VInt 5), (VStr [109%N]). repeat split. Qed.
Print Assumptions C10_richcompare_nonstr_refuted.

(* ---------------------------------------------------------------- 7. lookup entry points (re-export, C08) *)

(* _lookup / _lookup1 / _adapter_hook / LB_queryAdapter / _lookupAll / _subscriptions answer like
   LookupBase's Python methods for every shape of the optional arguments (name omitted / a string /
   not a string; default omitted / None / an object), every cache state (a cached None with a
   default included) and every uncached computation, and leave the same caches *)
Theorem C10_lookup_eq_py : forall ul c req p name d,
  c_lookup ul c req p name d =
  (fst (lookup ul c req p (cname name)), py_ret d (snd (lookup ul c req p (cname name)))).
Proof. exact c_lookup_eq_py. Qed.
Print Assumptions C10_lookup_eq_py.

Theorem C10_lookup1_eq_py : forall ul c r p name d,
  c_lookup1 ul c r p name d =
  (fst (lookup1 ul c r p (cname name)), py_ret d (snd (lookup1 ul c r p (cname name)))).
Proof. exact c_lookup1_eq_py. Qed.
Print Assumptions C10_lookup1_eq_py.

Theorem C10_adapter_hook_eq_py : forall ul call c p o name d,
  c_adapter_hook ul call c p o name d =
  (fst (adapter_hook ul call c p o (cname name)), py_ret_nat d (snd (adapter_hook ul call c p o (cname name)))) /\
  c_queryAdapter ul call c o p name d =
  (fst (queryAdapter ul call c o p (cname name)), py_ret_nat d (snd (queryAdapter ul call c o p (cname name)))).
Proof. intros; split; apply c_adapter_hook_eq_py. Qed.
Print Assumptions C10_adapter_hook_eq_py.

Theorem C10_lookupAll_subscriptions_eq_py : forall ua us c req p sp,
  c_lookupAll ua c req p = lookupAll ua c req p /\
  c_subscriptions us c req sp = subscriptions us c req sp.
Proof. intros; split; [apply c_lookupAll_eq_py | apply c_subscriptions_eq_py]. Qed.
Print Assumptions C10_lookupAll_subscriptions_eq_py.

(* ---------------------------------------------------------------- 7b. the VerifyingBase pair *)

(* Model/CVerify.v.  [e] is the environment of a call (current _generation of every registry, what
   registry.ro[1:] is), [s] the lookup object (caches + _verify_ro / _verify_generations).
   The C entry points call _verify once up front; the Python ones inside _getcache — after the
   "name is not a string" test and once more in the nested self.lookup(...). *)

(* _verify itself, on an object whose changed() ran at least once *)
Theorem C10_verifying_verify_eq_py : forall e s, inited s -> py_verify e s = Some (c_verify e s).
Proof. exact py_verify_inited. Qed.
Print Assumptions C10_verifying_verify_eq_py.

(* latent: an object whose changed() never ran (slots unset): C runs changed(), Python raises
   AttributeError *)
Theorem C10_verifying_uninitialised_refuted :
  exists e s, ~ inited s /\ py_verify e s = None /\
              c_verify e s = mkVS empty_caches (Some (e_ro_tail e)) (Some (gens e (e_ro_tail e))).
Proof.
  exists (mkEnv (fun _ => 0) [1]), (mkVS empty_caches None None). repeat split.
  intros (ro & g & H & _). discriminate.
Qed.
Print Assumptions C10_verifying_uninitialised_refuted.

(* every entry point (lookup, lookup1, adapter_hook, queryAdapter, lookupAll, subscriptions, and
   changed() from outside), every argument shape (name omitted / string / not a string, default
   omitted / None / object, required resolved or raising), every cache state, every environment:
   the same answer, and afterwards the two objects differ at most by a _verify still to be done *)
Theorem C10_verifying_entry_points_eq_py : forall ul ua us call e s c, inited s ->
  snd (c_vstep ul ua us call e s c) = snd (py_vstep ul ua us call e s c) /\
  c_verify e (fst (c_vstep ul ua us call e s c)) = c_verify e (fst (py_vstep ul ua us call e s c)).
Proof.
  intros ul ua us call e s c Hi.
  destruct (vstep_eq ul ua us call e s s c Hi eq_refl) as (H1 & H2 & _). split; assumption.
Qed.
Print Assumptions C10_verifying_entry_points_eq_py.

(* when _verify runs relative to the errors: a name that is not a string gives ValueError in both,
   C having verified, Python not; a lazy [required] that raises is resolved after _verify in both *)
Theorem C10_verifying_error_order : forall ul e s req x p d, inited s ->
  c_vb_lookup ul e s req p (Some NotAString) d = (c_verify e s, VRet CValueError) /\
  py_vb_lookup ul e s req p (Some NotAString) d = (s, VRet CValueError) /\
  c_vb_lookup ul e s (RqRaise x) p None d = (c_verify e s, VReqError x) /\
  py_vb_lookup ul e s (RqRaise x) p None d = (c_verify e s, VReqError x).
Proof.
  intros ul e s req x p d Hi. unfold c_vb_lookup, py_vb_lookup. cbn [c_name_bad cname].
  rewrite (py_verify_inited e s Hi). repeat split.
Qed.
Print Assumptions C10_verifying_error_order.

(* a skipped _verify is made up for by the next one, as long as generations only grow and the
   order below a registry only changes together with a generation in it *)
Theorem C10_verifying_pending_verify_unobservable : forall e e' s, env_le e e' -> snapshot_ok e s ->
  c_verify e' (c_verify e s) = c_verify e' s.
Proof. exact verify_absorbs. Qed.
Print Assumptions C10_verifying_pending_verify_unobservable.

(* whole programs: any sequence of calls, each in the environment of its time (base registries are
   mutated and re-based in between: generations grow), answers the same call by call *)
Theorem C10_verifying_programs_eq_py : forall ul ua us call prog e s,
  inited s -> snapshot_ok e s -> env_chain e prog ->
  c_vrun ul ua us call s prog = py_vrun ul ua us call s prog.
Proof. intros. apply (vrun_eq_gen ul ua us call prog e s s); auto. Qed.
Print Assumptions C10_verifying_programs_eq_py.

(* ---------------------------------------------------------------- 8. calling an interface (re-export, C14) *)

(* IB__call__ = InterfaceBase.__call__ for every chain of interface classes (custom __adapt__
   defined, inherited, inherited next to another interfacemethod) and every object behaviour,
   including the log of external steps *)
Theorem C10_call_eq_py : forall chain o,
  c_call (type_of_chain true chain) o = py_call (type_of_chain true chain) o.
Proof. exact c_call_eq_py_call. Qed.
Print Assumptions C10_call_eq_py.

(* ---------------------------------------------------------------- non-vacuity *)

(* the inputs that diverged before the fixes of this property now agree, with non-trivial answers *)
Example C10_witness_membership :
  c_SB_extends (Some (IvDict [1; 2])) (mkK 2 None) = Ok true /\
  c_SB_extends (Some (IvDict [1; 2])) (mkK 7 (Some EType)) = Raise EType /\
  py_isOrExtends None (mkK 1 None) = Raise EAttr /\
  c_SB_providedBy (Ok (mkDecl false (Raise EAttr) (Raise EType))) (mkK 1 None) = Raise EType /\
  c_SB_providedBy (Ok (mkDecl true (Ok (IvDict [1])) (Ok false))) (mkK 1 None) = Ok true /\
  c_SB_call (Some (IvDict [1])) [] = Raise EType.
Proof. repeat split. Qed.

Example C10_witness_hash :
  c_hash_run (Ok 42%Z) 3 (mkCH true true 0) = [Ok 42%Z; Ok 42%Z; Ok 42%Z] /\
  py_hash_run (Ok 0%Z) 2 (mkPH true true None) = [Ok 0%Z; Ok 0%Z] /\
  c_hash_run (Raise EType) 2 (mkCH true true 0) = [Raise EType; Raise EType] /\
  c_hash_run (Ok 1%Z) 1 (mkCH false true 0) = [Raise EAttr].
Proof. repeat split. Qed.

Example C10_witness_implementedBy :
  cls_regular (mkClsD false true DOk (ESpec 9 true) None) = true /\
  c_implementedBy (mkClsD false true DOk (ESpec 9 true) None) = IRet 9 /\
  c_implementedBy (mkClsD false true DOk EAbsent (Some 4)) = IRet 4 /\
  c_implementedBy (mkClsD false false DAttrErr EAbsent None) = IGetattrPath /\
  c_implementedBy (mkClsD false true DOk (ESpec 9 false) None) = IOldStyle /\
  c_implementedBy (mkClsD true false DOk EAbsent None) = ISuper.
Proof. repeat split. Qed.

Example C10_witness_providedBy :
  (* a normal instance: __providedBy__ is a specification *)
  c_providedBy (mkObjD SupFalse (Ok 5) true ExtPresent (Ok 5) true (Ok 3) (Ok 8) (Ok 4) (Ok 4) 0) = Ok 5 /\
  (* odd __provides__ = 5 behind the descriptor: handed back as is *)
  c_providedBy (mkObjD SupFalse (Ok 7) false ExtAttrErr (Ok 7) false (Ok 3) (Ok 8) (Ok 4) (Ok 4) 0) = Ok 7 /\
  (* __provides__ inherited from the class *)
  c_providedBy (mkObjD SupFalse (Ok 5) false ExtAttrErr (Ok 8) false (Ok 3) (Ok 8) (Ok 4) (Ok 4) 0) = Ok 4 /\
  (* __provides__ raises ValueError on the fallback path *)
  c_providedBy (mkObjD SupFalse (Ok 5) false ExtAttrErr (Raise (EOther 2)) false (Ok 3) (Raise EAttr) (Ok 4) (Ok 4) 0)
    = Raise (EOther 2) /\
  (* no __providedBy__, no __provides__, no __class__ *)
  c_providedBy (mkObjD SupFalse (Raise EAttr) false ExtAttrErr (Raise EAttr) false (Raise EAttr) (Raise EAttr)
                       (Raise EAttr) (Ok 4) 0) = Ok 0.
Proof. repeat split. Qed.

Example C10_witness_descriptors :
  c_OSD_descr_get (mkOsdD false (Raise EAttr) (Ok 1) (Ok 2)) = Ok 2 /\
  c_OSD_descr_get (mkOsdD true (Ok 9) (Ok 1) (Ok 2)) = Ok 1 /\
  c_OSD_descr_get (mkOsdD false (Raise (EOther 2)) (Ok 1) (Ok 2)) = Raise (EOther 2) /\
  c_CPB_descr_get (mkCpbD 1 true true false (Some 5)) = Ok 5 /\
  c_CPB_descr_get (mkCpbD 1 true true true (Some 5)) = Ok 1 /\
  c_CPB_descr_get (mkCpbD 1 true false true (Some 5)) = Raise EAttr /\
  c_CPB_descr_get (mkCpbD 1 false false true None) = Raise EAttr.
Proof. repeat split. Qed.

Example C10_witness_richcompare_x :
  (* I in m  <  J in m ; equal names decided by comparable modules; int names ordered as ints *)
  c_richcompare_x OpLt (VStr [73%N]) (VStr [109%N]) (VStr [74%N]) (VStr [109%N]) = XBool true /\
  pyname_cmp (fst (deciding (VStr [73%N]) (VStr [109%N]) (VStr [73%N]) (VStr [110%N])))
             (snd (deciding (VStr [73%N]) (VStr [109%N]) (VStr [73%N]) (VStr [110%N]))) <> None /\
  py_method_x OpLt (VStr [73%N]) (VStr [109%N]) (VInt 5) (VStr [109%N]) = XTypeErr /\
  c_richcompare_x OpLt (VStr [73%N]) (VStr [109%N]) (VInt 5) (VStr [109%N]) = XTypeErr.
Proof. repeat split; discriminate. Qed.

(* a verifying lookup object over one base registry (id 1): a cached miss, a generation bump in the
   base, a call with a non-string name (C verifies, Python does not), then the lookup again *)
Example C10_witness_verifying :
  let ul := fun (req : list spec) (p : spec) (n : Adapter.name) => if Nat.eqb p 2 then Some (mkV 7 7) else None in
  let ua := fun (_ : list spec) (_ : spec) => @nil (Adapter.name * value) in
  let us := fun (_ : list spec) (_ : option spec) => @nil value in
  let call := fun (_ : value) (_ : list nat) => @None nat in
  let e0 := mkEnv (fun _ => 0) [1] in
  let e1 := mkEnv (fun r => if Nat.eqb r 1 then 1 else 0) [1] in
  let s0 := mkVS empty_caches (Some [1]) (Some [0]) in
  let prog := [(e0, VLookup (RqOk [3]) 2 None DObj); (e0, VLookup (RqOk [3]) 5 None DObj);
               (e1, VLookup (RqOk [3]) 2 (Some NotAString) DObj); (e1, VLookup (RqRaise 4) 2 None DObj);
               (e1, VLookup1 3 5 None DObj)] in
  inited s0 /\ snapshot_ok e0 s0 /\ env_chain e0 prog /\
  c_vrun ul ua us call s0 prog =
    [ORet (VRet (CRet (PValue (mkV 7 7)))); ORet (VRet (CRet PDefault)); ORet (VRet CValueError);
     ORet (VReqError 4); ORet (VRet (CRet PDefault))] /\
  py_vrun ul ua us call s0 prog = c_vrun ul ua us call s0 prog /\
  (* after the ValueError call the C object has dropped its caches, the Python one has not (yet) *)
  fst (c_vb_lookup ul e1 (fst (c_vb_lookup ul e0 s0 (RqOk [3]) 5 None DObj)) (RqOk [3]) 2 (Some NotAString) DObj)
    = mkVS empty_caches (Some [1]) (Some [1]) /\
  vs_vgen (fst (py_vb_lookup ul e1 (fst (py_vb_lookup ul e0 s0 (RqOk [3]) 5 None DObj)) (RqOk [3]) 2
                             (Some NotAString) DObj)) = Some [0].
Proof.
  cbv zeta. repeat split; try reflexivity.
  all: try (exists [1], [0]; split; reflexivity).
  all: try (cbn; constructor; [lia | constructor]).
  all: try (intros r; cbn; try destruct (Nat.eqb r 1); lia).
  all: try (intros _; reflexivity).
Qed.
