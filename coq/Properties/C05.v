(* Property C05 — lookup caches are transparent: answers never depend on earlier lookups.

   Model: Model/Adapter.v (storage, uncached walkers), Model/Lookup.v (the three caches, every
   entry point), Model/RegSys.v (registries connected by __bases__, both invalidation flavours),
   Model/CacheSys.v (the specification graph changes during the history: re-basing a
   specification reaches the lookup objects subscribed to it or to a descendant).

   Histories are lists of [cop].  [cmwf_hist [] h] = the well-formed MIXED histories
   (Spec/RegChain.mwf_op): registries are addressed after their creation, bases come earlier in
   creation order (acyclic registry graph), an invalidating registry has invalidating bases only, a
   verifying registry may have bases of EITHER flavour (the persistent site manager over the global
   registry - the combination that matters in practice); rebuild() included.  [cwf_hist fl 0 h] are
   the histories of one flavour [fl]; they are mixed histories (C06_homogeneous_histories_are_mixed)
   and the theorems without the suffix _mixed are the corresponding corollaries.  [call] (what
   registered factories return) and the initial specification graph are arbitrary. *)
From Coq Require Import List Arith Bool.
Import ListNotations.
From ZI Require Import Model.Ro Model.Adapter Model.Lookup Model.RegSys Spec.RegChain Model.CacheSys
  Proofs.CacheSys.

(* ---- mixed histories *)

(* History form (the property as stated): inside any well-formed history, a lookup-family call
   answers what it answers after the same mutations (registrations, subscriptions, registry
   __bases__, rebuild(), specification __bases__ incl. class / instance declaration changes) with
   every earlier query erased, i.e. on registries that performed no earlier lookup. *)
Theorem C05_cache_transparent_mixed :
  forall (call : value -> list nat -> option nat) (g : graph) (ifs : list bool)
         (pre : list cop) (q : rop) (post : list cop),
    cmwf_hist [] (pre ++ [CReg q]) = true -> is_lookup q = true ->
    nth (length pre) (crun call (mkCS g ifs []) (pre ++ CReg q :: post)) [] =
    nth (length (erase_lookups pre)) (crun call (mkCS g ifs []) (erase_lookups pre ++ [CReg q])) [].
Proof. exact cache_transparent_mixed. Qed.
Print Assumptions C05_cache_transparent_mixed.

(* State form: at every reachable state, emptying every cache changes no lookup-family answer. *)
Theorem C05_cache_transparent_state_mixed :
  forall (call : value -> list nat -> option nat) (g : graph) (ifs : list bool)
         (ops : list cop) (q : rop),
    cmwf_hist [] (ops ++ [CReg q]) = true -> is_lookup q = true ->
    let st := cfinal call (mkCS g ifs []) ops in
    snd (cstep call st (CReg q)) =
    snd (cstep call (mkCS (cs_g st) (cs_if st) (drop_caches (cs_sys st))) (CReg q)).
Proof. exact cache_transparent_state_mixed. Qed.
Print Assumptions C05_cache_transparent_state_mixed.

(* Static world (Model/RegSys.v alone, any world W). *)
Theorem C05_cache_transparent_static_mixed :
  forall (W : world) (call : value -> list nat -> option nat) (pre : list rop) (q : rop),
    mwf_hist [] (pre ++ [q]) = true -> is_lookup q = true ->
    snd (step W call (final W call [] pre) q) =
    snd (step W call (final W call [] (filter is_mutation pre)) q).
Proof. exact cache_transparent_static_mixed. Qed.
Print Assumptions C05_cache_transparent_static_mixed.

(* What the answers are: the entry point run on EMPTY caches over the registries of the C3 order
   of the current registry graph, in the current world. *)
Theorem C05_answers_are_uncached_mixed :
  forall (call : value -> list nat -> option nat) (g : graph) (ifs : list bool)
         (ops : list cop) (q : rop),
    cmwf_hist [] (ops ++ [CReg q]) = true -> is_lookup q = true ->
    let st := cfinal call (mkCS g ifs []) ops in
    snd (cstep call st (CReg q)) =
    pure_answer (world_of (cs_g st) (cs_if st)) call (chain_regs (cs_sys st)) q.
Proof. exact answers_are_uncached_mixed. Qed.
Print Assumptions C05_answers_are_uncached_mixed.

(* every single-flavour history is a mixed history *)
Theorem C05_homogeneous_histories_are_mixed :
  forall (fl : flavour) (h : list cop), cwf_hist fl 0 h = true -> cmwf_hist [] h = true.
Proof. exact (fun fl h => cwf_cmwf fl h 0). Qed.
Print Assumptions C05_homogeneous_histories_are_mixed.

(* ---- single-flavour corollaries (the names of the first version of this file) *)

(* History form (the property as stated): inside any history, a lookup-family call answers what
   it answers after the same mutations (registrations, subscriptions, registry __bases__,
   rebuild(), specification __bases__ incl. class / instance declaration changes) with every
   earlier query erased, i.e. on registries that performed no earlier lookup. *)
Theorem C05_cache_transparent :
  forall (call : value -> list nat -> option nat) (fl : flavour) (g : graph) (ifs : list bool)
         (pre : list cop) (q : rop) (post : list cop),
    cwf_hist fl 0 (pre ++ [CReg q]) = true -> is_lookup q = true ->
    nth (length pre) (crun call (mkCS g ifs []) (pre ++ CReg q :: post)) [] =
    nth (length (erase_lookups pre)) (crun call (mkCS g ifs []) (erase_lookups pre ++ [CReg q])) [].
Proof. exact cache_transparent. Qed.
Print Assumptions C05_cache_transparent.

(* State form: at every reachable state, emptying every cache (and every subscription list)
   changes no lookup-family answer. *)
Theorem C05_cache_transparent_state :
  forall (call : value -> list nat -> option nat) (fl : flavour) (g : graph) (ifs : list bool)
         (ops : list cop) (q : rop),
    cwf_hist fl 0 (ops ++ [CReg q]) = true -> is_lookup q = true ->
    let st := cfinal call (mkCS g ifs []) ops in
    snd (cstep call st (CReg q)) =
    snd (cstep call (mkCS (cs_g st) (cs_if st) (drop_caches (cs_sys st))) (CReg q)).
Proof. exact cache_transparent_state. Qed.
Print Assumptions C05_cache_transparent_state.

(* Static world (Model/RegSys.v alone, any world W, both flavours, every RegSys operation incl.
   rebuild()): the history form again. *)
Theorem C05_cache_transparent_static :
  forall (W : world) (call : value -> list nat -> option nat) (fl : flavour) (pre : list rop) (q : rop),
    wf_hist fl 0 (pre ++ [q]) = true -> is_lookup q = true ->
    snd (step W call (final W call [] pre) q) =
    snd (step W call (final W call [] (filter is_mutation pre)) q).
Proof. exact cache_transparent_static. Qed.
Print Assumptions C05_cache_transparent_static.

(* What the answers are: the entry point run on EMPTY caches over the registries of the C3 order
   of the current registry graph, in the current world. *)
Theorem C05_answers_are_uncached :
  forall (call : value -> list nat -> option nat) (fl : flavour) (g : graph) (ifs : list bool)
         (ops : list cop) (q : rop),
    cwf_hist fl 0 (ops ++ [CReg q]) = true -> is_lookup q = true ->
    let st := cfinal call (mkCS g ifs []) ops in
    snd (cstep call st (CReg q)) =
    pure_answer (world_of (cs_g st) (cs_if st)) call (chain_regs (cs_sys st)) q.
Proof. exact answers_are_uncached. Qed.
Print Assumptions C05_answers_are_uncached.

(* The dependence set of re-basing specification x: the lookup objects that subscribed to x or to
   a descendant of x lose their caches; every other registry is untouched AND every
   specification it subscribed to (hence every required spec of every key it cached) keeps its
   resolution order in the new world. *)
Theorem C05_spec_rebase_frame :
  forall (call : value -> list nat -> option nat) (fl : flavour) (g : graph) (ifs : list bool)
         (ops : list cop) (x : spec) (bs : list spec),
    cwf_hist fl 0 ops = true ->
    let st := cfinal call (mkCS g ifs []) ops in
    let s := cs_sys st in
    let s' := cs_sys (fst (cstep call st (CSetSpecBases x bs))) in
    length s' = length s /\
    (forall i, i < length s -> touched (cs_g st) x (rs_caches (get s i)) = true ->
               rs_caches (get s' i) = empty_caches) /\
    (forall i, touched (cs_g st) x (rs_caches (get s i)) = false ->
               get s' i = get s i /\
               forall y, In y (c_required (rs_caches (get s i))) ->
                         w_sro (world_of (set_spec_bases (cs_g st) x bs) (cs_if st)) y =
                         w_sro (world_of (cs_g st) (cs_if st)) y).
Proof. exact spec_rebase_frame. Qed.
Print Assumptions C05_spec_rebase_frame.

(* ---- a concrete world: 0 = Interface, 1 = IA, 2 = IB(IA), 3 = IP (used as provided) *)
Definition ex_g : graph := [(0, []); (1, []); (2, [1]); (3, [])].
Definition ex_ifs : list bool := [true; true; true; true].
Definition ex_call (v : value) (os : list nat) : option nat := Some (vid v + length os).
Definition v7 : value := mkV 7 7.

(* rebuild() is one of the mutations the theorems quantify over (Spec/RegChain.wf_op admits
   ORebuild): the storage of the registry is replaced by its replay, its generation strictly
   grows, its caches and - invalidating flavour - those of all its sub-registries are emptied.
   It used to break transparency (__init__ forgot the sub-registries of an invalidating registry,
   so a later registration in the base no longer reached the sub-registry's caches; found while
   proving C05/C06/C07, repaired in /repo by "fix: rebuild() keeps the registries based on the
   rebuilt one"; Model/RegSys.v ORebuild follows the repaired code).  The former witness is now an
   instance of the general theorem: *)
Definition ex_rebuild_pre : list cop :=
  [CReg (ONewReg Push []); CReg (ONewReg Push [0]); CReg (QLookup 1 [1] 3 (NStr 0));
   CReg (ORebuild 0); CReg (ORegister 0 [Some 1] 3 0 (Some v7))].

Example C05_rebuild_witness_transparent :
  let q := QLookup 1 [1] 3 (NStr 0) in
  nth (length ex_rebuild_pre) (crun ex_call (mkCS ex_g ex_ifs []) (ex_rebuild_pre ++ [CReg q])) [] =
  nth (length (erase_lookups ex_rebuild_pre))
      (crun ex_call (mkCS ex_g ex_ifs []) (erase_lookups ex_rebuild_pre ++ [CReg q])) [].
Proof. apply (C05_cache_transparent ex_call Push ex_g ex_ifs ex_rebuild_pre _ []); reflexivity. Qed.

(* ... and the registration made after rebuild() is seen through the sub-registry *)
Example ex_rebuild_answers :
  crun ex_call (mkCS ex_g ex_ifs []) (ex_rebuild_pre ++ [CReg (QLookup 1 [1] 3 (NStr 0))]) =
  [[]; []; [0]; []; []; [1; 7]].
Proof. vm_compute. reflexivity. Qed.

(* verifying flavour: the base gains an entry, the sub-registry looks up (generation snapshot),
   the entry is swapped (count unchanged), the base is rebuilt: the generation keeps counting, so
   the snapshot no longer matches and the new value is found *)
Definition ex_rebuild_ver : list cop :=
  [CReg (ONewReg Verifying []); CReg (ONewReg Verifying [0]);
   CReg (ORegister 0 [Some 1] 3 0 (Some v7));
   CReg (QLookup 1 [2] 3 (NStr 0));
   CReg (ORegister 0 [Some 1] 3 0 (Some (mkV 8 8)));
   CReg (ORebuild 0);
   CReg (QLookup 1 [2] 3 (NStr 0))].

Example ex_rebuild_ver_wf : cwf_hist Verifying 0 ex_rebuild_ver = true.
Proof. reflexivity. Qed.

Example ex_rebuild_ver_flips :
  crun ex_call (mkCS ex_g ex_ifs []) ex_rebuild_ver = [[]; []; []; [1; 7]; []; []; [1; 8]].
Proof. vm_compute. reflexivity. Qed.

(* ---- non-vacuity: well-formed histories in which the invalidation matters *)

(* invalidating registries; IB stops extending IA: the cached answer for [IB] must go *)
Definition ex_push : list cop :=
  [CReg (ONewReg Push []); CReg (ONewReg Push [0]);
   CReg (ORegister 0 [Some 1] 3 0 (Some v7));
   CReg (QLookup 1 [2] 3 (NStr 0));
   CSetSpecBases 2 [];
   CReg (QLookup 1 [2] 3 (NStr 0))].

Example ex_push_wf : cwf_hist Push 0 ex_push = true.
Proof. reflexivity. Qed.

Example ex_push_flips :
  crun ex_call (mkCS ex_g ex_ifs []) ex_push = [[]; []; []; [1; 7]; []; [0]].
Proof. vm_compute. reflexivity. Qed.

(* verifying registries; the middle registry of a chain is re-based, then the bottom one changes *)
Definition ex_ver : list cop :=
  [CReg (ONewReg Verifying []); CReg (ONewReg Verifying [0]); CReg (ONewReg Verifying [1]);
   CReg (ORegister 0 [Some 1] 3 0 (Some v7));
   CReg (QQueryAdapter 2 (mkObj 2 0 None) 3 (NStr 0));
   CReg (OSetRegBases 1 []);
   CReg (OSubscribe 2 [Some 1] (Some 3) v7);
   CReg (QQueryAdapter 2 (mkObj 2 0 None) 3 (NStr 0));
   CReg (QSubscriptions 2 [2] (Some 3))].

Example ex_ver_wf : cwf_hist Verifying 0 ex_ver = true.
Proof. reflexivity. Qed.

Example ex_ver_flips :
  crun ex_call (mkCS ex_g ex_ifs []) ex_ver = [[]; []; []; []; [1; 8]; []; []; [0]; [7]].
Proof. vm_compute. reflexivity. Qed.

(* a verifying registry over two invalidating ones (site manager over the global registry):
   registration in the top registry, re-basing of the middle one, rebuild of the top one, and a
   specification re-based under the verifying registry's cached key *)
Definition ex_mixed : list cop :=
  [CReg (ONewReg Push []); CReg (ONewReg Push [0]); CReg (ONewReg Verifying [1]);
   CReg (QLookup 2 [2] 3 (NStr 0));
   CReg (ORegister 0 [Some 1] 3 0 (Some v7));
   CReg (QLookup 2 [2] 3 (NStr 0));
   CReg (OSetRegBases 1 []);
   CReg (QLookup 2 [2] 3 (NStr 0));
   CReg (OSetRegBases 1 [0]);
   CReg (ORegister 0 [Some 1] 3 0 (Some (mkV 8 8)));
   CReg (ORebuild 0);
   CReg (QLookup 2 [2] 3 (NStr 0));
   CSetSpecBases 2 [];
   CReg (QLookup 2 [2] 3 (NStr 0))].

Example ex_mixed_wf : cmwf_hist [] ex_mixed = true.
Proof. reflexivity. Qed.

Example ex_mixed_not_homogeneous : cwf_hist Push 0 ex_mixed = false /\ cwf_hist Verifying 0 ex_mixed = false.
Proof. split; reflexivity. Qed.

Example ex_mixed_flips :
  crun ex_call (mkCS ex_g ex_ifs []) ex_mixed =
  [[]; []; []; [0]; []; [1; 7]; []; [0]; []; []; []; [1; 8]; []; [0]].
Proof. vm_compute. reflexivity. Qed.

(* the spec-rebase frame is not vacuous: one registry is reached, the other keeps its caches *)
Definition ex_two : list cop :=
  [CReg (ONewReg Push []); CReg (ONewReg Push []);
   CReg (ORegister 0 [Some 1] 3 0 (Some v7)); CReg (ORegister 1 [Some 1] 3 0 (Some v7));
   CReg (QLookup 0 [2] 3 (NStr 0)); CReg (QLookup 1 [1] 3 (NStr 0))].

Example ex_two_touched :
  let st := cfinal ex_call (mkCS ex_g ex_ifs []) ex_two in
  cwf_hist Push 0 ex_two = true /\
  touched (cs_g st) 2 (rs_caches (get (cs_sys st) 0)) = true /\
  touched (cs_g st) 2 (rs_caches (get (cs_sys st) 1)) = false /\
  c_required (rs_caches (get (cs_sys st) 1)) = [1].
Proof. vm_compute. auto. Qed.
