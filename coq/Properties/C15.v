(* Property C15 — attribute, tagged-value and invariant resolution all follow the resolution order.
   Only statements here; proofs are in Proofs/Attrs.v; the model (Model/Attrs.v) transcribes
   interface.py.  [w] holds the immutable direct attribute tables and the recursion bound,
   a state holds __bases__, the cached __iro__, the _v_attrs memo and the tagged values.
   Histories [ops] mix rebasing (x.__bases__ = bs), get-like calls (which fill the memo) and
   setTaggedValue, starting from any graph [g] and any tagged values [tg]. *)
From Coq Require Import List Arith Bool.
Import ListNotations.
From ZI Require Import Model.Ro Model.Attrs Proofs.Attrs Gen.AttrsKernel Proofs.AttrsKernel.

(* I.get(name), after any history, memo or not: the description defined directly by the first
   interface of I.__iro__ that defines the name; the default iff none does *)
Theorem C15_get_first_in_iro : forall w g tg ops x n,
  let s := run w (init w g tg) ops in
  (forall d, fst (get w s x n) = Some d <->
     exists l1 i l2, st_iro s x = l1 ++ i :: l2 /\ direct w i n = Some d /\
                     forall j, In j l1 -> direct w j n = None) /\
  (fst (get w s x n) = None <-> forall j, In j (st_iro s x) -> direct w j n = None).
Proof. exact get_first_in_iro_lemma. Qed.
Print Assumptions C15_get_first_in_iro.

(* I[name] (None = KeyError), queryDescriptionFor and `in` answer what get answers *)
Theorem C15_accessors_agree : forall w s x n,
  fst (getitem w s x n) = fst (get w s x n) /\
  fst (query_description_for w s x n) = fst (get w s x n) /\
  (fst (contains w s x n) = true <-> fst (get w s x n) <> None).
Proof. exact accessors_agree_lemma. Qed.
Print Assumptions C15_accessors_agree.

(* presence: get / in / namesAndDescriptions(all=True) / iter / names(all=True) all contain a name
   exactly when some interface of I.__iro__ defines it.  iter and names(all) recurse over
   __bases__: for them the bound must exceed the depth below x ([deep]), and Interface (node 0)
   has no bases and no attributes. *)
Theorem C15_contains_iter_names_agree : forall w g tg ops x n,
  let s := run w (init w g tg) ops in
  let present := exists i, In i (st_iro s x) /\ direct w i n <> None in
  (fst (get w s x n) <> None <-> present) /\
  (fst (contains w s x n) = true <-> present) /\
  ((forall i, NoDup (map fst (w_attrs w i))) -> (In n (map fst (nad_all w s x)) <-> present)) /\
  (deep (w_fuel w) (st_graph s) x = true -> bases (st_graph s) 0 = [] -> w_attrs w 0 = [] ->
     (In n (iter w s x) <-> present) /\
     (In n (names_all w (w_fuel w) (st_graph s) x) <-> present)).
Proof. exact presence_lemma. Qed.
Print Assumptions C15_contains_iter_names_agree.

(* namesAndDescriptions(all=True) is a dict (unique names) mapping every name to exactly what get
   returns (direct tables are dicts: unique keys) *)
Theorem C15_nad_all_eq_get : forall w g tg ops x,
  (forall i, NoDup (map fst (w_attrs w i))) ->
  let s := run w (init w g tg) ops in
  NoDup (map fst (nad_all w s x)) /\
  forall n d, In (n, d) (nad_all w s x) <-> fst (get w s x n) = Some d.
Proof. exact nad_all_eq_get_lemma. Qed.
Print Assumptions C15_nad_all_eq_get.

(* queryTaggedValue / getTaggedValue: the value set directly on the first interface of __iro__
   that has the tag (in any state, hence after any history) *)
Theorem C15_tagged_first_in_iro : forall s x t,
  (forall v, query_tagged s x t = Some v <->
     exists l1 i l2, st_iro s x = l1 ++ i :: l2 /\ query_direct_tag s i t = Some v /\
                     forall j, In j l1 -> query_direct_tag s j t = None) /\
  (query_tagged s x t = None <-> forall j, In j (st_iro s x) -> query_direct_tag s j t = None) /\
  get_tagged s x t = query_tagged s x t.
Proof. exact tagged_first_in_iro_lemma. Qed.
Print Assumptions C15_tagged_first_in_iro.

(* getTaggedValueTags is the union of the direct tags along __iro__ = the tags that resolve *)
Theorem C15_tags_union : forall s x t,
  NoDup (tagged_tags s x) /\
  (In t (tagged_tags s x) <-> exists i, In i (st_iro s x) /\ In t (direct_tags s i)) /\
  (In t (tagged_tags s x) <-> query_tagged s x t <> None).
Proof. exact tags_union_lemma. Qed.
Print Assumptions C15_tags_union.

(* setTaggedValue(x, t, v) is what a direct query then sees, nothing else changes *)
Theorem C15_set_tag_seen : forall s x t v i t',
  query_direct_tag (set_tag s x t v) i t'
  = if Nat.eqb i x && Nat.eqb t' t then Some v else query_direct_tag s i t'.
Proof. exact set_tag_direct. Qed.
Print Assumptions C15_set_tag_seen.

(* validateInvariants(obj) without an errors list, for every behaviour [fails] of the invariants:
   if none fails every invariant of every interface of __iro__ has been called, in order, and
   nothing is raised; otherwise exactly the invariants up to the first failing one were called
   and its Invalid propagates *)
Theorem C15_invariants_all_run : forall (fails : nat -> bool) s x,
  let r := validate fails s x None in
  ((forall i, In i (flat_map (invs_of s) (st_iro s x)) -> fails i = false) ->
     v_ran r = flat_map (invs_of s) (st_iro s x) /\ v_exc r = VNoExc) /\
  (forall l1 i l2, flat_map (invs_of s) (st_iro s x) = l1 ++ i :: l2 ->
     (forall j, In j l1 -> fails j = false) -> fails i = true ->
     v_ran r = l1 ++ [i] /\ v_exc r = VRaisedInv i).
Proof. exact invariants_all_run_lemma. Qed.
Print Assumptions C15_invariants_all_run.

(* with an errors list: every invariant of every interface of __iro__ is called, every failure is
   appended (in order), and Invalid(errors) is raised iff the list ends up non-empty *)
Theorem C15_errors_all_collected : forall (fails : nat -> bool) s x e,
  let r := validate fails s x (Some e) in
  v_ran r = flat_map (invs_of s) (st_iro s x) /\
  v_errors r = Some (e ++ filter fails (flat_map (invs_of s) (st_iro s x))) /\
  v_exc r = match e ++ filter fails (flat_map (invs_of s) (st_iro s x)) with
            | [] => VNoExc
            | errs => VRaisedErrors errs
            end.
Proof. exact errors_all_collected_lemma. Qed.
Print Assumptions C15_errors_all_collected.

(* all of the above follow later changes of __bases__: after any history the cached __iro__ of
   every interface is the order a freshly built graph with the current bases would have ... *)
Theorem C15_iro_follows_bases : forall w g tg ops y,
  let s := run w (init w g tg) ops in
  st_iro s y = fresh_sro (w_fuel w) 0 (st_graph s) y.
Proof. exact iro_follows_bases_lemma. Qed.
Print Assumptions C15_iro_follows_bases.

(* ... and the memo is transparent: get with the memo = the walk without memo over the fresh
   order of the current graph, whatever was asked before the rebasing *)
Theorem C15_memo_transparent : forall w g tg ops x n,
  let s := run w (init w g tg) ops in
  fst (get w s x n) = first_direct w (fresh_sro (w_fuel w) 0 (st_graph s) x) n.
Proof. exact memo_transparent_lemma. Qed.
Print Assumptions C15_memo_transparent.

(* the members of that order are Interface and the ancestors, so "some interface in __iro__"
   is "x or some ancestor of x" *)
Theorem C15_iro_members : forall g r, bases g r = [] ->
  forall f x, deep f g x = true ->
  forall z, In z (fresh_sro f r g x) <-> z = r \/ Reach g x z.
Proof. exact fresh_sro_mem. Qed.
Print Assumptions C15_iro_members.

(* ---- the kernel regenerated from interface.py on this run (Gen/AttrsKernel.v, written by the
   fail-closed translator harness/translate/attrs.py) IS the model the theorems above are about *)
Theorem C15_generated_get_eq_model : forall w s x n,
  gen_direct w x n = direct w x n /\ gen_get w s x n = get w s x n.
Proof. intros; split; [apply gen_direct_eq_model | apply gen_get_eq_model]. Qed.
Print Assumptions C15_generated_get_eq_model.

Theorem C15_generated_accessors_eq_model : forall w s x n,
  gen_getitem w s x n = getitem w s x n /\
  gen_query_description_for w s x n = query_description_for w s x n /\
  gen_contains w s x n = contains w s x n.
Proof.
  intros; repeat split;
    [apply gen_getitem_eq_model | apply gen_query_description_for_eq_model | apply gen_contains_eq_model].
Qed.
Print Assumptions C15_generated_accessors_eq_model.

Theorem C15_generated_names_eq_model : forall w s x,
  gen_names_direct w x = names_direct w x /\
  gen_names_all w (w_fuel w) (st_graph s) x = names_all w (w_fuel w) (st_graph s) x /\
  gen_iter w s x = iter w s x.
Proof. exact gen_names_eq_model. Qed.
Print Assumptions C15_generated_names_eq_model.

Theorem C15_generated_nad_all_eq_model : forall w s x, gen_nad_all w s x = nad_all w s x.
Proof. exact gen_nad_all_eq_model. Qed.
Print Assumptions C15_generated_nad_all_eq_model.

Theorem C15_generated_tagged_eq_model : forall s x t,
  gen_query_tagged s x t = query_tagged s x t /\ gen_get_tagged s x t = get_tagged s x t.
Proof. exact gen_query_tagged_eq_model. Qed.
Print Assumptions C15_generated_tagged_eq_model.

Theorem C15_generated_tags_eq_model : forall s x, gen_tagged_tags s x = tagged_tags s x.
Proof. exact gen_tagged_tags_eq_model. Qed.
Print Assumptions C15_generated_tags_eq_model.

Theorem C15_generated_validate_eq_model : forall fails s x errors,
  gen_validate fails s x errors = validate fails s x errors.
Proof. exact gen_validate_eq_model. Qed.
Print Assumptions C15_generated_validate_eq_model.

(* changed(): every visited node (x and its transitive dependents) gets the fresh order and
   _v_attrs = None; nobody else changes *)
Theorem C15_generated_changed_eq_model : forall w s x bs y,
  let s' := set_bases w s x bs in
  (st_iro s' y, st_memo s' y) =
    if reachesb (w_fuel w) (st_graph s') y x
    then gen_changed_node (fresh_sro (w_fuel w) 0 (st_graph s') y) (st_iro s y, st_memo s y)
    else (st_iro s y, st_memo s y).
Proof. exact gen_changed_eq_model. Qed.
Print Assumptions C15_generated_changed_eq_model.

(* ---- non-vacuity: the README diamond.
   0 Interface; 1 IBase (foo); 2 IBase1(IBase); 3 IBase2(IBase) overrides foo; 4 ISub(IBase1, IBase2).
   name foo = 0; a description is numbered by the interface defining it. *)
Definition ex_w : world :=
  mkWorld 6 (fun i => match i with 1 => [(0, 1)] | 3 => [(0, 3)] | _ => [] end).
Definition ex_g : graph := [(0, []); (1, [0]); (2, [1]); (3, [1]); (4, [2; 3])].
Definition ex_tg (i : node) : list (tag * tval) :=
  match i with
  | 1 => [(1, TV 10); (0, TInvs [100])]
  | 3 => [(1, TV 30); (0, TInvs [300; 301])]
  | 4 => [(0, TInvs [400])]
  | _ => []
  end.
Definition ex_fails (i : nat) : bool := Nat.eqb i 300 || Nat.eqb i 100.

Example C15_witness_diamond :
  let s := init ex_w ex_g ex_tg in
  (forall i, NoDup (map fst (w_attrs ex_w i))) /\
  deep (w_fuel ex_w) (st_graph s) 4 = true /\ bases (st_graph s) 0 = [] /\ w_attrs ex_w 0 = [] /\
  st_iro s 4 = [4; 2; 3; 1; 0] /\
  fst (get ex_w s 4 0) = Some 3 /\ fst (contains ex_w s 4 0) = true /\
  iter ex_w s 4 = [0] /\ nad_all ex_w s 4 = [(0, 3)] /\
  (* the listing before the fix walked the bases depth-first and answered IBase's foo *)
  nad_all_bases ex_w 6 ex_g 4 = [(0, 1)] /\
  query_tagged s 4 1 = Some (TV 30) /\ tagged_tags s 4 = [0; 1] /\
  v_ran (validate ex_fails s 4 None) = [400; 300] /\
  v_exc (validate ex_fails s 4 None) = VRaisedInv 300 /\
  v_ran (validate ex_fails s 4 (Some [])) = [400; 300; 301; 100] /\
  v_exc (validate ex_fails s 4 (Some [])) = VRaisedErrors [300; 100].
Proof.
  vm_compute. repeat split; try reflexivity.
  intros i. do 4 (destruct i as [|i]; [repeat constructor; cbn; tauto|]). constructor.
Qed.

(* a history: ask ISub and IBase2 (memo filled), rebase ISub to (IBase1,), set a tag, ask again.
   ISub's memo was dropped and it now answers IBase's foo; IBase2 is no dependent, keeps its memo *)
Example C15_witness_history :
  let ops := [OGet 4 0; OGet 3 0; OSetBases 4 [2]; OSetTag 2 1 (TV 20)] in
  let s := run ex_w (init ex_w ex_g ex_tg) ops in
  fst (run_obs ex_w (init ex_w ex_g ex_tg) (ops ++ [OGet 4 0])) = [Some 3; Some 3; Some 1] /\
  st_memo (run ex_w (init ex_w ex_g ex_tg) [OGet 4 0; OGet 3 0]) 4 = Some [(0, 3)] /\
  st_memo s 4 = None /\ st_memo s 3 = Some [(0, 3)] /\
  st_iro s 4 = [4; 2; 1; 0] /\ fst (get ex_w s 4 0) = Some 1 /\
  nad_all ex_w s 4 = [(0, 1)] /\ query_tagged s 4 1 = Some (TV 20) /\
  deep (w_fuel ex_w) (st_graph s) 4 = true /\ bases (st_graph s) 0 = [].
Proof. vm_compute. repeat split; reflexivity. Qed.
