(* Property C07 — subscriptions() returns every applicable subscriber, with multiplicity, in order.
   Only statements here; proofs are in Proofs/SubsSpec.v, the vocabulary (ledger, lstep, mstep,
   applicable, tag, rank, precedes) in Spec/SubsSpec.v, the model in Model/Adapter.v.

   Quantifiers: every world W whose __sro__ lists are duplicate free (nothing else is needed:
   isOrExtends IS membership in __sro__), every list of registries, each reached from the empty
   registry by an arbitrary history [h : list sop] of subscribe / unsubscribe / register /
   unregister operations (run_reg W h = fold_left (mstep W) h empty_reg), whose ledger is
   run_led h = fold_left lstep h []; every looked-up key of any arity; the asked provided
   specification is an interface (or None for handlers).  [map (run_reg W) hs] plays the role
   of the registry's resolution order ``ro`` (self first); which ``ro`` a registry uses after
   re-basing is C06's subject and is checked by the tie. *)
From Coq Require Import List Arith Bool Sorting.Permutation Sorting.Sorted.
Import ListNotations.
From ZI Require Import Model.Ro Model.Adapter Spec.SubsSpec Proofs.SubsSpec.

(* the model's ``_subscribers`` after any history IS the ledger grouped by key: each leaf is the
   list of live values of that key in subscription order, no key is stored twice, no empty leaf
   is kept, and allSubscriptions() is a rearrangement of the ledger *)
Theorem C07_ledger_refinement : forall W, (forall x, NoDup (w_sro W x)) -> forall (h : list sop),
  let r := run_reg W h in let L := run_led h in
  (forall k, sub_leaf r k = lvals L k)
  /\ NoDup (map fst (subscribers r))
  /\ (forall k l, In (k, l) (subscribers r) -> l <> [])
  /\ Permutation (allSubscriptions r) L.
Proof. exact ledger_refinement_lemma. Qed.
Print Assumptions C07_ledger_refinement.

(* the bookkeeping that decides which provided interfaces are considered: the ``_provided``
   count of q is at least the number of live adapter registrations plus live subscription
   entries providing q (it only drifts UPWARD, on adapter overwrite); extendors[i] lists,
   without repetition, exactly the q of positive count with i in q.__iro__; hence an interface
   with a live subscription entry is never dropped from the extendors *)
Theorem C07_extendors_invariant : forall W, (forall x, NoDup (w_sro W x)) -> forall (h : list sop),
  let r := run_reg W h in let L := run_led h in
  (forall q, acount r q + lcount L q <= cnt_get (provided_cnt r) q)
  /\ (forall i q, In q (ext_get (extendors r) i) <-> (0 < cnt_get (provided_cnt r) q /\ In i (iro W q)))
  /\ (forall i, NoDup (ext_get (extendors r) i))
  /\ (forall e q i, In e L -> snd (fst e) = Some q -> In i (iro W q) ->
        0 < cnt_get (provided_cnt r) q /\ In q (ext_get (extendors r) i)).
Proof. exact extendors_inv_lemma. Qed.
Print Assumptions C07_extendors_invariant.

(* exactly the applicable live entries, each as often as it is in the ledger *)
Theorem C07_subs_multiset : forall W, (forall x, NoDup (w_sro W x)) ->
  forall (hs : list (list sop)) (required : list spec) (p : option spec),
  match p with Some p' => w_iface W p' = true | None => True end ->
  Permutation (uncached_subscriptions W (map (run_reg W) hs) required p)
              (flat_map (fun h => map snd (filter (applicable W required p) (run_led h))) hs).
Proof. exact subs_multiset_lemma. Qed.
Print Assumptions C07_subs_multiset.

(* order: the answer is the concatenation, over the REVERSED resolution order (base registries
   first), of one list per registry; that list is a rearrangement of the registry's applicable
   ledger entries (tagged with their ledger position) in which every entry [precedes] all later
   ones: strictly less specific required key first (lexicographic, leftmost position first, on
   the positions in the reversed __sro__ of the looked-up specs); identical (required, provided)
   keys in subscription order *)
Theorem C07_subs_ordered : forall W, (forall x, NoDup (w_sro W x)) ->
  forall (hs : list (list sop)) (required : list spec) (p : option spec),
  match p with Some p' => w_iface W p' = true | None => True end ->
  exists Es : list (list (nat * entry)),
    uncached_subscriptions W (map (run_reg W) hs) required p = flat_map (map t_val) Es
    /\ Forall2 (fun h E =>
                  Permutation E (filter (fun te => applicable W required p (snd te)) (tag (run_led h)))
                  /\ StronglySorted (precedes W required) E)
               (rev hs) Es.
Proof. exact subs_ordered_lemma. Qed.
Print Assumptions C07_subs_ordered.

(* the same, constructively: the answer is the bucket sort of the ledgers — candidate required
   keys least specific first, per required key the provided interfaces in reversed extendors
   order (the one choice the property leaves open), per full key the ledger order *)
Theorem C07_subs_exact : forall W, (forall x, NoDup (w_sro W x)) ->
  forall (hs : list (list sop)) (required : list spec) (p : option spec),
  uncached_subscriptions W (map (run_reg W) hs) required p
  = flat_map (fun h => map t_val (expected_tagged W (run_led h) (pord_of (run_reg W h) p) required)) (rev hs).
Proof. exact subs_exact_lemma. Qed.
Print Assumptions C07_subs_exact.

(* unsubscribe: under the given key exactly the ==-equal values go (all values if no value is
   given), the others stay in order; every other key and all adapters are untouched *)
Theorem C07_unsubscribe_exact : forall W, (forall x, NoDup (w_sro W x)) ->
  forall (h : list sop) (req : list (option spec)) (p : option spec) (ov : option value),
  let r := run_reg W h in
  let k := (map conv req, p) in
  (forall k', sub_leaf (unsubscribe W r req p ov) k'
              = if skey_eqb k' k
                then match ov with
                     | None => []
                     | Some v => filter (fun x => negb (v_eq x v)) (sub_leaf r k)
                     end
                else sub_leaf r k')
  /\ adapters (unsubscribe W r req p ov) = adapters r.
Proof. exact unsubscribe_exact_lemma. Qed.
Print Assumptions C07_unsubscribe_exact.

(* handlers (provided = None) never consult the extendors / counts: any two registry states
   with the same subscriber storage answer alike, and after any histories the answer is exactly
   the applicable provided-None entries (no interface hypothesis) *)
Theorem C07_handlers_bypass_extendors : forall W,
  (forall r r' required, subscribers r = subscribers r' ->
     uncached_subscriptions W [r] required None = uncached_subscriptions W [r'] required None)
  /\ ((forall x, NoDup (w_sro W x)) -> forall (hs : list (list sop)) required,
      Permutation (uncached_subscriptions W (map (run_reg W) hs) required None)
                  (flat_map (fun h => map snd (filter (fun e => req_applicable W required (fst (fst e))
                                                              && match snd (fst e) with None => true | Some _ => false end)
                                                     (run_led h))) hs)).
Proof. exact handlers_bypass_lemma. Qed.
Print Assumptions C07_handlers_bypass_extendors.

(* ------------------------------------------------------------------ non-vacuity witnesses *)
(* Interface = 0; I1(Interface); I2(I1); I3(I1); everything else a direct child of Interface *)
Definition exW : world :=
  mkW (fun x => match x with 0 => [0] | 1 => [1; 0] | 2 => [2; 1; 0] | 3 => [3; 1; 0] | _ => [x; 0] end)
      (fun _ => true).

Example exW_wf : forall x, NoDup (w_sro exW x).
Proof.
  intros [|[|[|[|x]]]]; cbn; repeat constructor; cbn; intuition discriminate.
Qed.

Definition va := mkV 1 1.      (* a value                                 *)
Definition va' := mkV 2 1.     (* a different object that is == to va     *)
Definition vb := mkV 3 3.

(* duplicates, equal-but-distinct values, two arities' worth of keys, a handler, and an adapter
   registration that is overwritten (count drift) *)
Definition exH : list sop :=
  [SSub [Some 1] (Some 1) va; SSub [Some 1] (Some 1) vb; SSub [Some 1] (Some 1) va';
   SSub [Some 1] (Some 1) va; SSub [Some 2] (Some 2) vb; SSub [None] None vb;
   SSub [Some 2; None] (Some 1) va';
   SReg [Some 1] 1 0 (Some va); SReg [Some 1] 1 0 (Some va')].

Example ex_ledger : run_led exH =
  [(([1], Some 1), va); (([1], Some 1), vb); (([1], Some 1), va'); (([1], Some 1), va);
   (([2], Some 2), vb); (([0], None), vb); (([2; 0], Some 1), va')].
Proof. reflexivity. Qed.

(* looking up (I2,) for I1: the four entries under (I1 -> I1) in subscription order, duplicates
   kept, then the more specific (I2 -> I2) *)
Example ex_subscriptions :
  uncached_subscriptions exW [run_reg exW exH] [2] (Some 1) = [va; vb; va'; va; vb].
Proof. reflexivity. Qed.

Example ex_handlers : uncached_subscriptions exW [run_reg exW exH] [3] None = [vb].
Proof. reflexivity. Qed.

Example ex_arity2 : uncached_subscriptions exW [run_reg exW exH] [2; 3] (Some 0) = [va'].
Proof. reflexivity. Qed.

(* unsubscribing va' removes va, va' and the second va (all ==), keeps vb, touches nothing else *)
Example ex_unsubscribe :
  uncached_subscriptions exW [run_reg exW (exH ++ [SUnsub [Some 1] (Some 1) (Some va')])] [2] (Some 1) = [vb; vb]
  /\ run_led (exH ++ [SUnsub [Some 1] (Some 1) (Some va')])
     = [(([1], Some 1), vb); (([2], Some 2), vb); (([0], None), vb); (([2; 0], Some 1), va')].
Proof. split; reflexivity. Qed.

(* the count of I1 drifted: 5 live subscription entries + 1 live adapter, but the count is 7 *)
Example ex_count_drift :
  let r := run_reg exW exH in
  acount r 1 + lcount (run_led exH) 1 = 6 /\ cnt_get (provided_cnt r) 1 = 7.
Proof. split; reflexivity. Qed.

(* a derived registry (first in ro) and its base: the base's subscribers come first *)
Example ex_bases_first :
  uncached_subscriptions exW [run_reg exW [SSub [Some 2] (Some 1) va]; run_reg exW exH] [2] (Some 1)
  = [va; vb; va'; va; vb; va].
Proof. reflexivity. Qed.
