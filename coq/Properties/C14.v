(* Property C14 — calling an interface follows the PEP 246 adaptation order.
   Only statements here; proofs are in Proofs/Adapt.v.  Vocabulary (Model/Adapt.v):
     [chain]  the interface's inheritance chain, root first; each level may define __adapt__,
              providedBy and/or another method, with @interfacemethod or in a plain subclass of
              the interface class; [type_of_chain p chain] is the class InterfaceClass.__new__ /
              __init_subclass__ build for the last interface ([p] = __new__ propagates the flag;
              the Python path does not depend on the flags)
     [o]      the behaviour of obj.__conform__, whether obj provides I, the adapter_hooks list
              and the alternate
     [py_call] / [c_call]  InterfaceBase.__call__ / IB__call__: (log of external steps, outcome)
     [spec]   Spec/Pep246.v: first step that does not pass, over
              conform :: (custom __adapt__ | (providedBy override | provided) :: hooks in order)
              ++ [alternate]. *)
From Coq Require Import List Bool Arith.
Import ListNotations.
From ZI Require Import Model.Adapt Spec.Pep246 Proofs.Adapt Model.PyKernel Model.CKernel Proofs.AdaptGen.

(* outcome and executed steps are those of the five-step precedence, for every behaviour, every
   hook list and every chain *)
Theorem C14_call_follows_precedence : forall p chain o,
  py_call (type_of_chain p chain) o = spec chain o.
Proof. exact call_follows_precedence. Qed.
Print Assumptions C14_call_follows_precedence.

(* the same for the C implementation, with the flag logic of the current InterfaceClass.__new__ *)
Theorem C14_c_call_follows_precedence : forall chain o,
  c_call (type_of_chain true chain) o = spec chain o.
Proof. exact c_call_follows_precedence. Qed.
Print Assumptions C14_c_call_follows_precedence.

(* laziness: the steps split into a prefix that passed and the step that decided; the log is
   exactly the actions of that prefix and of the deciding step, nothing after it *)
Theorem C14_lazy : forall p chain o,
  exists pre rest,
    steps (custom_defs 0 chain) (prov_defs 0 chain) o = pre ++ rest /\ Forall passes pre /\
    match rest with
    | [] => py_call (type_of_chain p chain) o = (concat (map fst pre), RaiseCouldNotAdapt)
    | s :: _ => exists r, snd s = Yield r /\
                py_call (type_of_chain p chain) o = (concat (map fst pre) ++ fst s, r)
    end.
Proof. exact lazy_prefix. Qed.
Print Assumptions C14_lazy.

(* a hook is called only if __conform__ passed, the provided-check (the built-in one, or the
   providedBy override) said no, every earlier hook returned None, and every custom __adapt__ on
   the way delegated; without an override "said no" is [provides o = false] *)
Theorem C14_lazy_hooks : forall p chain o i,
  In (EvHook i) (fst (py_call (type_of_chain p chain) o)) ->
  conform_passes (conf o) = true /\ provided_passes (prov_defs 0 chain) o = true /\
  (forall j, j < i -> nth_error (hooks o) j = Some HNone) /\
  Forall delegates (custom_defs 0 chain).
Proof. exact lazy_hooks. Qed.
Print Assumptions C14_lazy_hooks.

(* the built-in provided-check runs only if __conform__ passed and neither a custom __adapt__ nor
   a providedBy override took over *)
Theorem C14_lazy_provided : forall p chain o,
  In EvProvided (fst (py_call (type_of_chain p chain) o)) ->
  conform_passes (conf o) = true /\ Forall delegates (custom_defs 0 chain) /\
  Forall pdelegates (prov_defs 0 chain).
Proof. exact lazy_provided. Qed.
Print Assumptions C14_lazy_provided.

(* no step is executed twice *)
Theorem C14_steps_run_once : forall p chain o, NoDup (fst (py_call (type_of_chain p chain) o)).
Proof. exact log_nodup. Qed.
Print Assumptions C14_steps_run_once.

(* exceptions propagate unchanged: from reading __conform__ (unless AttributeError), from
   __conform__(I) (any class, AttributeError and TypeError raised in user code included), from
   the custom __adapt__ that is reached, from the providedBy override that is reached, from the
   first hook that does not return None *)
Theorem C14_exceptions_propagate : forall p chain o e,
  let out := snd (py_call (type_of_chain p chain) o) in
  (conf o = CGetRaise e -> e_kind e <> EAttr -> out = RaiseE (User e)) /\
  (conf o = CRaise e -> out = RaiseE (User e)) /\
  (conform_passes (conf o) = true ->
     forall dels i rest, custom_defs 0 chain = dels ++ (i, CARaise e) :: rest ->
     Forall delegates dels -> out = RaiseE (User e)) /\
  (conform_passes (conf o) = true -> Forall delegates (custom_defs 0 chain) ->
     forall pdels i rest, prov_defs 0 chain = pdels ++ (i, PBRaise e) :: rest ->
     Forall pdelegates pdels -> out = RaiseE (User e)) /\
  (conform_passes (conf o) = true -> Forall delegates (custom_defs 0 chain) ->
     provided_passes (prov_defs 0 chain) o = true ->
     forall pre post, hooks o = pre ++ HRaise e :: post -> Forall (fun h => h = HNone) pre ->
     out = RaiseE (User e)).
Proof. exact exceptions_propagate. Qed.
Print Assumptions C14_exceptions_propagate.

(* ... and nothing else is ever raised except "Could not adapt": an exception that comes out is
   one a behaviour raised (the interpreter-made AttributeError / depth-0 TypeError never escape) *)
Theorem C14_no_other_exceptions : forall p chain o r,
  snd (py_call (type_of_chain p chain) o) = RaiseE r ->
  exists e, r = User e /\
    (conf o = CGetRaise e \/ conf o = CRaise e \/ In (HRaise e) (hooks o) \/
     (exists i, In (i, CARaise e) (custom_defs 0 chain)) \/
     (exists i, In (i, PBRaise e) (prov_defs 0 chain))).
Proof. exact no_other_exceptions. Qed.
Print Assumptions C14_no_other_exceptions.

(* a custom __adapt__ (that does not delegate to super) replaces the provided-check and the
   hooks: they are not consulted, the call does not depend on them, and once __conform__ passed
   the custom result decides *)
Theorem C14_custom_adapt_replaces : forall p chain o i b rest,
  custom_defs 0 chain = (i, b) :: rest -> b <> CADelegate ->
  let r := py_call (type_of_chain p chain) o in
  ~ In EvProvided (fst r) /\ (forall j, ~ In (EvHook j) (fst r)) /\
  (forall j, ~ In (EvCustomProv j) (fst r)) /\
  (forall pr hs, py_call (type_of_chain p chain) (mkObj (conf o) pr hs (alternate o)) = r) /\
  (conform_passes (conf o) = true ->
     In (EvCustom i) (fst r) /\
     snd r = match b with
             | CAValue v => Return v
             | CARaise e => RaiseE (User e)
             | _ => match alternate o with Some _ => ReturnAlt | None => RaiseCouldNotAdapt end
             end).
Proof. exact custom_adapt_replaces. Qed.
Print Assumptions C14_custom_adapt_replaces.

(* an overridden providedBy (that does not delegate to super) is asked instead of the built-in
   provided-check, which then never runs and whose answer does not matter *)
Theorem C14_providedBy_override_replaces : forall p chain o i b rest,
  prov_defs 0 chain = (i, b) :: rest -> b <> PBDelegate ->
  ~ In EvProvided (fst (py_call (type_of_chain p chain) o)) /\
  (forall pr, py_call (type_of_chain p chain) (mkObj (conf o) pr (hooks o) (alternate o)) =
              py_call (type_of_chain p chain) o).
Proof. exact providedBy_override_replaces. Qed.
Print Assumptions C14_providedBy_override_replaces.

(* the C fast paths (dispatch on '_CALL_CUSTOM_ADAPT' / '_CALL_CUSTOM_PROVIDEDBY' in the exact
   type's dict) equal the Python path on every chain and behaviour, given the flags set by the
   current __new__ / __init_subclass__ *)
Theorem C14_c_call_eq_py_call : forall p chain o,
  c_call (type_of_chain p chain) o = py_call (type_of_chain p chain) o.
Proof. exact c_call_eq_py_call_any. Qed.
Print Assumptions C14_c_call_eq_py_call.

(* with a registry's adapter_hook as the only hook (it answers q = registry.queryAdapter(obj, I)),
   no opinion from __conform__ and an object that does not provide I, I(obj, alt) is q if q is
   not None, else the alternate, else "Could not adapt" *)
Theorem C14_hook_equals_queryAdapter : forall p c q alt,
  conform_passes c = true ->
  snd (py_call (type_of_chain p []) (mkObj c false [registry_hook q] alt)) =
  match q with
  | Some v => Return v
  | None => match alt with Some _ => ReturnAlt | None => RaiseCouldNotAdapt end
  end.
Proof. exact hook_equals_queryAdapter. Qed.
Print Assumptions C14_hook_equals_queryAdapter.

(* ------------------------------------------------------------------ tie to the source text *)

(* The Python kernels as regenerated from interface.py on this run (Gen/AdaptPy.v), executed by the
   interpreter of Model/PyKernel.v, are the model: InterfaceBase.__call__ = py_call (log and how the
   function ends), InterfaceBase.__adapt__ = py_default_adapt, InterfaceClass._call_conform =
   call_conform, and the flag conditions of InterfaceClass.__new__ / __init_subclass__ give new_kls. *)
Theorem C14_generated_py_eq_model : forall k o,
  gen_call k o = (fst (py_call k o), ctl_of_outcome (snd (py_call k o))) /\
  gen_default_adapt k o = (fst (py_default_adapt k o), ctl_of_ares (snd (py_default_adapt k o))) /\
  (forall c, gen_call_conform o c = ([EvCallConform], eres_of_cres (call_conform c))) /\
  (forall i cls l, gen_new_kls i cls l = new_kls true i cls l).
Proof. exact generated_py_eq_model. Qed.
Print Assumptions C14_generated_py_eq_model.

(* The C kernels as extracted from _zope_interface_coptimizations.c on this run (Gen/AdaptC.v),
   executed by the interpreter of Model/CKernel.v, are the model: IB__call__ = c_call and
   IB__adapt__ = c_default_adapt. *)
Theorem C14_generated_c_eq_model : forall k o,
  gen_c_call k o = (fst (c_call k o), kctl_of_outcome (snd (c_call k o))) /\
  gen_c_default_adapt k o = (fst (c_default_adapt k o), kctl_of_ares (snd (c_default_adapt k o))).
Proof. exact generated_c_eq_model. Qed.
Print Assumptions C14_generated_c_eq_model.

(* The part of InterfaceClass.__new__ that builds the class of an interface with interfacemethods, as
   regenerated from interface.py on this run (the bases of the custom-methods class, the flag
   decisions), gives the model's new_kls; [is_ic]: cls is InterfaceClass itself. *)
Theorem C14_generated_new_eq_model : forall is_custom is_ic i cls l,
  (is_ic = true -> cls = base_kls) -> l_plain l = false ->
  gen_new_class is_custom is_ic i cls l = new_kls true i cls l.
Proof. exact generated_new_eq_model. Qed.
Print Assumptions C14_generated_new_eq_model.

(* Interface DAGs (multiple inheritance, interfaces created by class statements or by calls): seen
   from its last interface a DAG is the chain [dag_line dag] (the definitions on the metaclass line
   of its class, under their own node numbers), so everything above applies to it: precedence,
   and the C path equals the Python path. *)
Theorem C14_dag_follows_precedence : forall p dag o,
  py_call (type_of_chain p (dag_line dag)) o = spec (dag_line dag) o /\
  c_call (type_of_chain p (dag_line dag)) o = py_call (type_of_chain p (dag_line dag)) o.
Proof. intros p dag o. split; [apply call_follows_precedence | apply c_call_eq_py_call_any]. Qed.
Print Assumptions C14_dag_follows_precedence.

(* ------------------------------------------------------------------ non-vacuity *)

(* the combination the property record names: conform returns None AND a hook raises AND an
   alternate is given: hook 0 passes, hook 1 raises, hook 2 and the alternate are never reached *)
Example C14_witness_combination :
  py_call (type_of_chain true [])
          (mkObj CRetNone false [HNone; HRaise (mkExn EOther 7); HValue 5] (Some 9)) =
  ([EvGetConform; EvCallConform; EvProvided; EvHook 0; EvHook 1], RaiseE (User (mkExn EOther 7))).
Proof. reflexivity. Qed.

(* the bare TypeError at call depth 0 is swallowed, a TypeError raised in user code is not *)
Example C14_witness_typeerror :
  snd (py_call base_kls (mkObj CTypeErr0 true [] None)) = ReturnObj /\
  snd (py_call base_kls (mkObj (CRaise (mkExn EType 1)) true [] None)) = RaiseE (User (mkExn EType 1)) /\
  snd (py_call base_kls (mkObj (CGetRaise (mkExn EAttr 1)) false [HValue 3] None)) = Return 3 /\
  snd (py_call base_kls (mkObj (CGetRaise (mkExn EType 1)) false [HValue 3] None)) = RaiseE (User (mkExn EType 1)) /\
  snd (py_call base_kls (mkObj CAbsent false [HNone; HNone] None)) = RaiseCouldNotAdapt /\
  snd (py_call base_kls (mkObj CAbsent false [HNone; HNone] (Some 0))) = ReturnAlt.
Proof. repeat split; reflexivity. Qed.

(* hypotheses of C14_lazy_hooks / C14_exceptions_propagate / C14_custom_adapt_replaces are met *)
Example C14_witness_hypotheses :
  let o := mkObj CRetNone false [HNone; HRaise (mkExn EOther 7); HValue 5] (Some 9) in
  In (EvHook 1) (fst (py_call (type_of_chain true []) o)) /\
  conform_passes (conf o) = true /\
  hooks o = [HNone] ++ HRaise (mkExn EOther 7) :: [HValue 5] /\
  custom_defs 0 [mkLvl (Some (CAValue 4)) None false false; mkLvl None None true false] = [(0, CAValue 4)] /\
  py_call (type_of_chain true [mkLvl (Some (CAValue 4)) None false false; mkLvl None None true false]) o =
    ([EvGetConform; EvCallConform; EvCustom 0], Return 4) /\
  (* a delegating custom __adapt__ below a base one *)
  py_call (type_of_chain true [mkLvl (Some CANone) None false false; mkLvl (Some CADelegate) None true false]) o =
    ([EvGetConform; EvCallConform; EvCustom 1; EvCustom 0], ReturnAlt).
Proof. cbv. repeat split; auto 10. Qed.

(* Why the flags matter (findings F8 and its two successors, all fixed in /repo).
   (1) __new__ without propagation and without __init_subclass__: the C path skips the inherited
       custom __adapt__ on IBase[__adapt__ returning 4] <- IDer2[another interfacemethod];
   (2) without __init_subclass__ a plain InterfaceClass subclass overriding __adapt__ is ignored by C;
   (3) without the _CALL_CUSTOM_PROVIDEDBY flag C ignores a providedBy override.
   With the current logic C and Python agree on all three. *)
Example C14_old_flag_logic_c_differs :
  let chain := [mkLvl (Some (CAValue 4)) None false false; mkLvl None None true false] in
  let o := mkObj CAbsent false [HNone] (Some 9) in
  py_call (type_of_chain_gen false false chain) o = ([EvGetConform; EvCustom 0], Return 4) /\
  c_call (type_of_chain_gen false false chain) o = ([EvGetConform; EvProvided; EvHook 0], ReturnAlt) /\
  c_call (type_of_chain true chain) o = ([EvGetConform; EvCustom 0], Return 4).
Proof. cbv. repeat split; reflexivity. Qed.

Example C14_no_init_subclass_c_differs :
  let plain := [mkLvl (Some (CAValue 4)) None false true] in
  let prov := [mkLvl None (Some PBTrue) false false] in
  let o := mkObj CAbsent false [HNone] (Some 9) in
  py_call (type_of_chain_gen true false plain) o = ([EvGetConform; EvCustom 0], Return 4) /\
  c_call (type_of_chain_gen true false plain) o = ([EvGetConform; EvProvided; EvHook 0], ReturnAlt) /\
  c_call (type_of_chain true plain) o = ([EvGetConform; EvCustom 0], Return 4) /\
  py_call (type_of_chain_gen true false prov) o = ([EvGetConform; EvCustomProv 0], ReturnObj) /\
  c_call (type_of_chain_gen true false prov) o = ([EvGetConform; EvProvided; EvHook 0], ReturnAlt) /\
  c_call (type_of_chain true prov) o = ([EvGetConform; EvCustomProv 0], ReturnObj).
Proof. cbv. repeat split; reflexivity. Qed.

(* a providedBy override that delegates below one that says False: the built-in check never runs,
   the hooks do *)
Example C14_witness_providedBy :
  let chain := [mkLvl None (Some PBFalse) false true; mkLvl None (Some PBDelegate) false false] in
  py_call (type_of_chain true chain) (mkObj CAbsent true [HValue 3] None) =
    ([EvGetConform; EvCustomProv 1; EvCustomProv 0; EvHook 0], Return 3) /\
  prov_defs 0 chain = [(1, PBDelegate); (0, PBFalse)] /\
  provided_passes (prov_defs 0 chain) (mkObj CAbsent true [HValue 3] None) = true.
Proof. cbv. repeat split; reflexivity. Qed.

(* the generated kernels run: the combination witness through the regenerated Python and C text *)
Example C14_witness_generated :
  let o := mkObj CRetNone false [HNone; HRaise (mkExn EOther 7); HValue 5] (Some 9) in
  gen_call (type_of_chain true []) o =
    ([EvGetConform; EvCallConform; EvProvided; EvHook 0; EvHook 1], CExc (User (mkExn EOther 7))) /\
  gen_c_call (type_of_chain true []) o =
    ([EvGetConform; EvCallConform; EvProvided; EvHook 0; EvHook 1],
     KRet WNull (Some (ERaised (User (mkExn EOther 7))))).
Proof. split; vm_compute; reflexivity. Qed.

(* DAGs: in the diamond A[__adapt__ -> 4] <- B[__adapt__ delegating], C(A) <- D the class of D is B's
   whichever way D lists its bases; two unrelated roots that both bring custom methods cannot be
   combined (metaclass conflict); InterfaceClass(...) forgets the custom class of its bases while
   type(base)(...) keeps it. *)
Example C14_witness_dag :
  let a := mkNode [] HClass (Some (CAValue 4)) None false in
  let b := mkNode [0] HClass (Some CADelegate) None false in
  let c := mkNode [0] HClass None None false in
  let o := mkObj CAbsent false [HValue 3] None in
  py_call (type_of_chain true (dag_line [a; b; c; mkNode [1; 2] HClass None None false])) o =
    ([EvGetConform; EvCustom 1; EvCustom 0], Return 4) /\
  dag_line [a; b; c; mkNode [2; 1] HClass None None false] =
    dag_line [a; b; c; mkNode [1; 2] HClass None None false] /\
  dag_conflict [a; mkNode [] HClass None (Some PBTrue) false; mkNode [0; 1] HClass None None false] = true /\
  dag_conflict [a; mkNode [] HClass None None false; mkNode [0; 1] HClass None None false] = false /\
  snd (py_call (type_of_chain true (dag_line [a; mkNode [0] HCallIC None None false])) o) = Return 3 /\
  snd (py_call (type_of_chain true (dag_line [a; mkNode [0] HCallType None None false])) o) = Return 4.
Proof. vm_compute. repeat split; reflexivity. Qed.
