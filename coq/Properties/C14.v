(* Property C14 — calling an interface follows the PEP 246 adaptation order.
   Only statements here; proofs are in Proofs/Adapt.v.  Vocabulary (Model/Adapt.v):
     [chain]  the interface's inheritance chain, root first; each level may define __adapt__
              and/or another @interfacemethod; [type_of_chain p chain] is the class
              InterfaceClass.__new__ builds for the last interface ([p] = the flag is propagated,
              i.e. the current logic; the Python path does not depend on it)
     [o]      the behaviour of obj.__conform__, whether obj provides I, the adapter_hooks list
              and the alternate
     [py_call] / [c_call]  InterfaceBase.__call__ / IB__call__: (log of external steps, outcome)
     [spec]   Spec/Pep246.v: first step that does not pass, over
              conform :: (custom __adapt__ | provided :: hooks in order) ++ [alternate]. *)
From Coq Require Import List Bool Arith.
Import ListNotations.
From ZI Require Import Model.Adapt Spec.Pep246 Proofs.Adapt.

(* outcome and executed steps are those of the five-step precedence, for every behaviour, every
   hook list and every chain *)
Theorem C14_call_follows_precedence : forall p chain o,
  py_call (type_of_chain p chain) o = spec chain o.
Proof. exact call_follows_precedence. Qed.
Print Assumptions C14_call_follows_precedence.

(* the same for the C implementation, with the flag logic of the current InterfaceClass.__new__ *)
Theorem C14_c_call_follows_precedence : forall chain o,
  c_call (type_of_chain true chain) o = spec chain o.
Proof. exact c_call_follows_precedence. Qed.
Print Assumptions C14_c_call_follows_precedence.

(* laziness: the steps split into a prefix that passed and the step that decided; the log is
   exactly the actions of that prefix and of the deciding step, nothing after it *)
Theorem C14_lazy : forall p chain o,
  exists pre rest,
    steps (custom_defs 0 chain) o = pre ++ rest /\ Forall passes pre /\
    match rest with
    | [] => py_call (type_of_chain p chain) o = (concat (map fst pre), RaiseCouldNotAdapt)
    | s :: _ => exists r, snd s = Yield r /\
                py_call (type_of_chain p chain) o = (concat (map fst pre) ++ fst s, r)
    end.
Proof. exact lazy_prefix. Qed.
Print Assumptions C14_lazy.

(* a hook is called only if __conform__ passed, the object does not provide the interface, every
   earlier hook returned None, and every custom __adapt__ on the way delegated *)
Theorem C14_lazy_hooks : forall p chain o i,
  In (EvHook i) (fst (py_call (type_of_chain p chain) o)) ->
  conform_passes (conf o) = true /\ provides o = false /\
  (forall j, j < i -> nth_error (hooks o) j = Some HNone) /\
  Forall delegates (custom_defs 0 chain).
Proof. exact lazy_hooks. Qed.
Print Assumptions C14_lazy_hooks.

(* the provided-check runs only if __conform__ passed (and no custom __adapt__ took over) *)
Theorem C14_lazy_provided : forall p chain o,
  In EvProvided (fst (py_call (type_of_chain p chain) o)) ->
  conform_passes (conf o) = true /\ Forall delegates (custom_defs 0 chain).
Proof. exact lazy_provided. Qed.
Print Assumptions C14_lazy_provided.

(* no step is executed twice *)
Theorem C14_steps_run_once : forall p chain o, NoDup (fst (py_call (type_of_chain p chain) o)).
Proof. exact log_nodup. Qed.
Print Assumptions C14_steps_run_once.

(* exceptions propagate unchanged: from reading __conform__ (unless AttributeError), from
   __conform__(I) (any class, AttributeError and TypeError raised in user code included), from
   the custom __adapt__ that is reached, from the first hook that does not return None *)
Theorem C14_exceptions_propagate : forall p chain o e,
  let out := snd (py_call (type_of_chain p chain) o) in
  (conf o = CGetRaise e -> e_kind e <> EAttr -> out = RaiseE (User e)) /\
  (conf o = CRaise e -> out = RaiseE (User e)) /\
  (conform_passes (conf o) = true ->
     forall dels i rest, custom_defs 0 chain = dels ++ (i, CARaise e) :: rest ->
     Forall delegates dels -> out = RaiseE (User e)) /\
  (conform_passes (conf o) = true -> Forall delegates (custom_defs 0 chain) ->
     provides o = false ->
     forall pre post, hooks o = pre ++ HRaise e :: post -> Forall (fun h => h = HNone) pre ->
     out = RaiseE (User e)).
Proof. exact exceptions_propagate. Qed.
Print Assumptions C14_exceptions_propagate.

(* ... and nothing else is ever raised except "Could not adapt": an exception that comes out is
   one a behaviour raised (the interpreter-made AttributeError / depth-0 TypeError never escape) *)
Theorem C14_no_other_exceptions : forall p chain o r,
  snd (py_call (type_of_chain p chain) o) = RaiseE r ->
  exists e, r = User e /\
    (conf o = CGetRaise e \/ conf o = CRaise e \/ In (HRaise e) (hooks o) \/
     exists i, In (i, CARaise e) (custom_defs 0 chain)).
Proof. exact no_other_exceptions. Qed.
Print Assumptions C14_no_other_exceptions.

(* a custom __adapt__ (that does not delegate to super) replaces the provided-check and the
   hooks: they are not consulted, the call does not depend on them, and once __conform__ passed
   the custom result decides *)
Theorem C14_custom_adapt_replaces : forall p chain o i b rest,
  custom_defs 0 chain = (i, b) :: rest -> b <> CADelegate ->
  let r := py_call (type_of_chain p chain) o in
  ~ In EvProvided (fst r) /\ (forall j, ~ In (EvHook j) (fst r)) /\
  (forall pr hs, py_call (type_of_chain p chain) (mkObj (conf o) pr hs (alternate o)) = r) /\
  (conform_passes (conf o) = true ->
     In (EvCustom i) (fst r) /\
     snd r = match b with
             | CAValue v => Return v
             | CARaise e => RaiseE (User e)
             | _ => match alternate o with Some _ => ReturnAlt | None => RaiseCouldNotAdapt end
             end).
Proof. exact custom_adapt_replaces. Qed.
Print Assumptions C14_custom_adapt_replaces.

(* the C fast path (dispatch on '_CALL_CUSTOM_ADAPT' in the exact type's dict) equals the Python
   path on every chain and behaviour, given the flag propagation of the current __new__ *)
Theorem C14_c_call_eq_py_call : forall chain o,
  c_call (type_of_chain true chain) o = py_call (type_of_chain true chain) o.
Proof. exact c_call_eq_py_call. Qed.
Print Assumptions C14_c_call_eq_py_call.

(* with a registry's adapter_hook as the only hook (it answers q = registry.queryAdapter(obj, I)),
   no opinion from __conform__ and an object that does not provide I, I(obj, alt) is q if q is
   not None, else the alternate, else "Could not adapt" *)
Theorem C14_hook_equals_queryAdapter : forall p c q alt,
  conform_passes c = true ->
  snd (py_call (type_of_chain p []) (mkObj c false [registry_hook q] alt)) =
  match q with
  | Some v => Return v
  | None => match alt with Some _ => ReturnAlt | None => RaiseCouldNotAdapt end
  end.
Proof. exact hook_equals_queryAdapter. Qed.
Print Assumptions C14_hook_equals_queryAdapter.

(* ------------------------------------------------------------------ non-vacuity *)

(* the combination the property record names: conform returns None AND a hook raises AND an
   alternate is given: hook 0 passes, hook 1 raises, hook 2 and the alternate are never reached *)
Example C14_witness_combination :
  py_call (type_of_chain true [])
          (mkObj CRetNone false [HNone; HRaise (mkExn EOther 7); HValue 5] (Some 9)) =
  ([EvGetConform; EvCallConform; EvProvided; EvHook 0; EvHook 1], RaiseE (User (mkExn EOther 7))).
Proof. reflexivity. Qed.

(* the bare TypeError at call depth 0 is swallowed, a TypeError raised in user code is not *)
Example C14_witness_typeerror :
  snd (py_call base_kls (mkObj CTypeErr0 true [] None)) = ReturnObj /\
  snd (py_call base_kls (mkObj (CRaise (mkExn EType 1)) true [] None)) = RaiseE (User (mkExn EType 1)) /\
  snd (py_call base_kls (mkObj (CGetRaise (mkExn EAttr 1)) false [HValue 3] None)) = Return 3 /\
  snd (py_call base_kls (mkObj (CGetRaise (mkExn EType 1)) false [HValue 3] None)) = RaiseE (User (mkExn EType 1)) /\
  snd (py_call base_kls (mkObj CAbsent false [HNone; HNone] None)) = RaiseCouldNotAdapt /\
  snd (py_call base_kls (mkObj CAbsent false [HNone; HNone] (Some 0))) = ReturnAlt.
Proof. repeat split; reflexivity. Qed.

(* hypotheses of C14_lazy_hooks / C14_exceptions_propagate / C14_custom_adapt_replaces are met *)
Example C14_witness_hypotheses :
  let o := mkObj CRetNone false [HNone; HRaise (mkExn EOther 7); HValue 5] (Some 9) in
  In (EvHook 1) (fst (py_call (type_of_chain true []) o)) /\
  conform_passes (conf o) = true /\
  hooks o = [HNone] ++ HRaise (mkExn EOther 7) :: [HValue 5] /\
  custom_defs 0 [mkLvl (Some (CAValue 4)) false; mkLvl None true] = [(0, CAValue 4)] /\
  py_call (type_of_chain true [mkLvl (Some (CAValue 4)) false; mkLvl None true]) o =
    ([EvGetConform; EvCallConform; EvCustom 0], Return 4) /\
  (* a delegating custom __adapt__ below a base one *)
  py_call (type_of_chain true [mkLvl (Some CANone) false; mkLvl (Some CADelegate) true]) o =
    ([EvGetConform; EvCallConform; EvCustom 1; EvCustom 0], ReturnAlt).
Proof. cbv. repeat split; auto 10. Qed.

(* Why the propagation matters (finding F8, fixed in /repo): with the logic before the fix
   ([type_of_chain false]) the C path skips the inherited custom __adapt__ on
   IBase[__adapt__ returning 4] <- IDer2[another interfacemethod] and answers from the hooks,
   while the Python path runs it. *)
Example C14_old_flag_logic_c_differs :
  let chain := [mkLvl (Some (CAValue 4)) false; mkLvl None true] in
  let o := mkObj CAbsent false [HNone] (Some 9) in
  py_call (type_of_chain false chain) o = ([EvGetConform; EvCustom 0], Return 4) /\
  c_call (type_of_chain false chain) o = ([EvGetConform; EvProvided; EvHook 0], ReturnAlt) /\
  c_call (type_of_chain false chain) o <> py_call (type_of_chain false chain) o /\
  c_call (type_of_chain true chain) o = ([EvGetConform; EvCustom 0], Return 4).
Proof. cbv. repeat split; try reflexivity. discriminate. Qed.
